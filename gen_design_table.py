#!/usr/bin/env python3
"""Developer tool: regenerate the table of DESIGN.md section 0.3 from the evidence files of the last run and the contract registry
(between the markers <!-- TABLE-0.3 BEGIN --> and <!-- TABLE-0.3 END -->).  Nothing here is read by a check."""
import json, os, re, sys

HERE = os.path.dirname(os.path.abspath(__file__))
sys.path.insert(0, HERE)
os.environ.setdefault("DOCTRANS_REPO", "/repo")
sys.path.insert(0, os.environ["DOCTRANS_REPO"])
from vf.pyvc import driver  # noqa: E402

reg = driver.load_registry()
manifest = json.load(open(os.path.join(HERE, "MANIFEST.json")))
levels = {c["property_id"]: c["level_claimed"]["category"] for c in manifest["checks"]}
n_fn = sum(1 for k in reg if not k.startswith("vf.contracts.laws:"))
n_law = sum(1 for k in reg if k.startswith("vf.contracts.laws:"))
n_cases = sum(len(c.cases) for c in reg.values())
n_clauses = sum(len(c.ensures) for c in reg.values())
by_mod = {}
for k in sorted(reg):
    mod, fn = k.split(":")
    by_mod.setdefault(mod.replace("doctrans.", "").replace("vf.contracts.", ""), []).append(fn)
lines = ["Functions under sidecar contract (%d contracts on real functions + %d laws composing real functions; %d cases, %d clauses; every obligation is regenerated from /repo's "
         "working tree on every run): " % (n_fn, n_law, n_cases, n_clauses) + " · ".join("`%s`: %s" % (m, ", ".join(f)) for m, f in by_mod.items())
         + " · plus the mechanically extracted fragments of `parse.function` (padding loop), `__main__.main` (file counter, truth-file pick), `gen` (reordering tail) and the "
           "syntactic obligations (determinism audit, copy-dominance frames, guard dominance).", "",
         "| id | deductive obligations discharged / generated (the difference: refuted by a listed finding, or undecided - counted in the evidence) | functions and laws under contract in this check | "
         "runtime companion: corpus inputs run through CPython with the clauses evaluated (= engine / CPython cross-check) | bounded decider: cases | back ends (obligations) | solver s | level |",
         "|---|---|---|---|---|---|---|---|"]
for i in range(1, 21):
    pid = "C%02d" % i
    p = os.path.join(HERE, "evidence", pid + ".json")
    if not os.path.exists(p):
        continue
    c = json.load(open(p))["coverage"]
    f = c.get("functions_under_contract") or {}
    comp = sum((v.get("bounded_companion") or {}).get("corpus", 0) for v in f.values())
    names = ", ".join(sorted(k.split(":")[1] for k in f))
    b = c.get("bounded") or {}
    be = ", ".join("%s %d" % (k, v) for k, v in sorted((c.get("by_backend") or {}).items(), key=lambda kv: -kv[1]))
    lvl = levels.get(pid, "")
    lines.append("| %s | %s / %s%s | %s | %s | %s | %s | %.0f | %s |" % (
        pid, c.get("discharged"), c.get("obligations"), "" if c.get("discharged") != c.get("obligations") else " (all)", names or "-", comp or "-",
        b.get("cases", c.get("evaluations", "-")), be or "-", (c.get("solver_ms_total") or 0) / 1000.0, "**proof**" if lvl == "proof" else lvl))
text = "\n".join(lines)
dp = os.path.join(HERE, "DESIGN.md")
s = open(dp).read()
B, E_ = "<!-- TABLE-0.3 BEGIN -->", "<!-- TABLE-0.3 END -->"
assert B in s and E_ in s, "markers missing in DESIGN.md"
s = s[: s.index(B) + len(B)] + "\n" + text + "\n" + s[s.index(E_):]
open(dp, "w").write(s)
print("DESIGN.md 0.3: %d contracts + %d laws, %d cases, %d clauses" % (n_fn, n_law, n_cases, n_clauses))
