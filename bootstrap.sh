#!/bin/bash
# Builds /verif/.venv (CPython 3.12 overlay on /venv) offline. Idempotent.
set -e
cd "$(dirname "$0")"
if [ ! -x .venv/bin/python ] || ! .venv/bin/python -c "import z3, jsonschema, deal, icontract" 2>/dev/null; then
  rm -rf .venv
  /venv/bin/python -m venv .venv
  PIP_NO_INDEX=1 .venv/bin/python -m pip install -q --no-index --find-links /opt/veriftools/wheels \
      z3-solver cvc5 crosshair-tool deal icontract jsonschema hypothesis >/dev/null 2>&1
  echo "import site; site.addsitedir('/venv/lib/python3.12/site-packages')" \
      > .venv/lib/python3.12/site-packages/repo_deps.pth
fi
.venv/bin/python -c "import z3, jsonschema; print('bootstrap ok: z3', z3.get_version_string())"
