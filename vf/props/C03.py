"""C03 - function / method round trip."""
from vf.props import rt_props

KEYS = ["doctrans.docstring_parsers:_infer_default", "doctrans.emitter_utils:to_docstring", "vf.contracts.laws:function_body_roundtrip", "vf.contracts.laws:function_roundtrip_documented", "vf.contracts.laws:function_signature_roundtrip", "doctrans.parse:function", "doctrans.emit:function", "doctrans.docstring_parsers:_set_name_and_type", "doctrans.parser_utils:_interpolate_return", "doctrans.pure_utils:paren_wrap_code", "doctrans.docstring_utils:emit_param_str", "doctrans.docstring_parsers:_set_param_values", "doctrans.ast_utils:get_function_type", "doctrans.ast_utils:set_value", "doctrans.emitter_utils:get_internal_body",
        "doctrans.docstring_parsers:parse_docstring", "doctrans.defaults_utils:set_default_doc"]


def check(run, record_expected=False):
    return rt_props.check_rt(run, "C03", ["function", "method"], KEYS, "C03 function / method round trip", record_expected=record_expected)
