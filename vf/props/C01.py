"""C01 - docstring round trip (rest / numpydoc / google)."""
from vf.props import C01_ded, C02, rt_props


def check(run, record_expected=False):
    return rt_props.check_rt(run, "C01", ["rest", "numpydoc", "google"], C01_ded.KEYS, "C01 docstring round trip",
                             evaluated=[("doctrans.docstring_utils:TOKENS", C01_ded.token_hygiene()), ("doctrans.defaults_utils:needs_quoting", C02.nq_scalars())],
                             record_expected=record_expected)
