"""C06 - emitted code is valid Python that behaves as the IR says (judged by the interpreter, not by doctrans' parsers)."""
import argparse
import ast
import inspect
import multiprocessing as mp
import os
import tempfile
import typing

from vf import common
from vf.bounded import ir_domain, ir_findings, roundtrip as R, rt_check
from vf.props import deductive, rt_props

KEYS = ["doctrans.ast_utils:param2ast", "doctrans.ast_utils:param2argparse_param", "doctrans.emit:argparse_function", "doctrans.emit:function", "doctrans.ast_utils:_parse_node_for_arg", "doctrans.ast_utils:set_value", "doctrans.defaults_utils:needs_quoting", "doctrans.pure_utils:quote"]


class _Stub:
    def __getattr__(self, n):
        return _Stub()

    def __call__(self, *a, **k):
        return ("stub-call", a)

    def __getitem__(self, k):
        return _Stub()


def _ns():
    ns = {"np": _Stub(), "tf": _Stub(), "foo": lambda *a: ("foo",) + a, "loads": __import__("json").loads,
          "ArgumentParser": argparse.ArgumentParser, "alpha": "ALPHA", "beta": "BETA", "gamma": "GAMMA", "kwargs": {}}
    for n in ("Optional", "List", "Literal", "Union", "Tuple", "Any", "Dict"):
        ns[n] = getattr(typing, n)
    return ns


def expected_value(p):
    """(known?, value) the default the artefact must carry"""
    if "default" not in p:
        return False, None
    v = p["default"]
    if isinstance(v, str) and v.startswith("```"):
        return False, None  # an expression: only required to execute
    if v in R.NONE_SPELLINGS and not isinstance(v, bool):
        return True, None
    return True, v


def judge(kind, ir, opts):
    """-> list of {path, want, got} entries"""
    from doctrans import emit
    from doctrans.source_transformer import to_code

    out = []
    try:
        art = R.emit_artifact(kind, ir, opts)
    except Exception as e:  # noqa
        return [{"path": "<exception>", "want": "no exception", "got": "%s in emit: %s" % (type(e).__name__, str(e)[:100])}]
    node = art[1]
    try:
        src = to_code(node)
        tree = ast.parse(src)
        compile(tree, "<emitted>", "exec")
    except Exception as e:  # noqa
        return [{"path": "<syntax>", "want": "compiles", "got": "%s: %s" % (type(e).__name__, str(e)[:100])}]
    src2 = to_code(ast.parse(src))
    if src2 != src:
        out.append({"path": "<unparse-stable>", "want": src[:200], "got": src2[:200]})
    # file emission with and without black: same tree
    d = tempfile.mkdtemp(prefix="c06_")
    try:
        f1, f2 = os.path.join(d, "a.py"), os.path.join(d, "b.py")
        emit.file(node, f1, mode="wt", skip_black=True)
        emit.file(node, f2, mode="wt", skip_black=False)
        a1, a2 = ast.parse(open(f1).read()), ast.parse(open(f2).read())
        t1, t2 = ast.dump(a1), ast.dump(a2)
        if t1 != ast.dump(tree):
            out.append({"path": "<file-tree>", "want": "file without black == unparse", "got": "trees differ"})
        elif t1 != t2:
            for a in (a1, a2):
                for nd in ast.walk(a):
                    if isinstance(nd, ast.Constant) and isinstance(nd.value, str):
                        nd.value = "\n".join(ln.strip() for ln in nd.value.strip().split("\n"))
            if ast.dump(a1) == ast.dump(a2):
                out.append({"path": "<file-tree>", "want": "same tree with/without black", "got": "differs only in whitespace inside string constants (docstring)"})
            else:
                out.append({"path": "<file-tree>", "want": "same tree with/without black", "got": "trees differ"})
    except Exception as e:  # noqa
        out.append({"path": "<file-emit>", "want": "no exception", "got": "%s: %s" % (type(e).__name__, str(e)[:100])})
    finally:
        for fn in os.listdir(d):
            os.unlink(os.path.join(d, fn))
        os.rmdir(d)
    ns = _ns()
    try:
        exec(compile(tree, "<emitted>", "exec"), ns)
    except Exception as e:  # noqa
        out.append({"path": "<exec>", "want": "executes", "got": "%s: %s" % (type(e).__name__, str(e)[:100])})
        return out
    params = [(n, p) for n, p in ir["params"].items()]
    if kind == "class":
        cls = ns["C"]
        want_names = [n for n, _ in params] + (["return_type"] if ir.get("returns") else [])
        got_names = [n for n in list(getattr(cls, "__annotations__", {})) if not n.startswith("__")]
        if got_names != want_names:
            out.append({"path": "params.<names>", "want": want_names, "got": got_names})
        for n, p in params:
            known, v = expected_value(p)
            if not hasattr(cls, n):
                out.append({"path": "params.%s.value" % n, "want": v, "got": "<no attribute>"})
                continue
            got = getattr(cls, n)
            if known and (type(got) is not type(v) or got != v):
                out.append({"path": "params.%s.value" % n, "want": (type(v).__name__, v), "got": (type(got).__name__, got)})
    elif kind in ("function", "method"):
        fn = ns["f"]
        sig = inspect.signature(fn)
        names = [n for n in sig.parameters if n not in ("self", "cls")]
        want = [n for n, _ in params]
        if names != want:
            out.append({"path": "params.<names>", "want": want, "got": names})
        first = next(iter(sig.parameters), None)
        if opts["function_type"] in ("self", "cls") and first != opts["function_type"]:
            out.append({"path": "<function-type>", "want": opts["function_type"], "got": first})
        for n, p in params:
            if n not in sig.parameters:
                continue
            sp = sig.parameters[n]
            if n.endswith("kwargs"):
                if sp.kind is not inspect.Parameter.VAR_KEYWORD:
                    out.append({"path": "params.%s.kind" % n, "want": "VAR_KEYWORD", "got": str(sp.kind)})
                continue
            wk = inspect.Parameter.KEYWORD_ONLY if opts["emit_as_kwonlyargs"] else inspect.Parameter.POSITIONAL_OR_KEYWORD
            if sp.kind is not wk:
                out.append({"path": "params.%s.kind" % n, "want": str(wk), "got": str(sp.kind)})
            known, v = expected_value(p)
            if known and (sp.default is inspect.Parameter.empty or type(sp.default) is not type(v) or sp.default != v):
                out.append({"path": "params.%s.value" % n, "want": (type(v).__name__, v), "got": (type(sp.default).__name__, repr(sp.default)[:40])})
            if opts["inline_types"] and p.get("typ") and sp.annotation is inspect.Parameter.empty:
                out.append({"path": "params.%s.annotation" % n, "want": p["typ"], "got": None})
        ret = (ir.get("returns") or {}).get("return_type")
        if opts["inline_types"] and ret and ret.get("typ") and sig.return_annotation is inspect.Signature.empty:
            out.append({"path": "returns.annotation", "want": ret["typ"], "got": None})
    elif kind == "argparse":
        fn = ns["set_cli_args"]
        ap = argparse.ArgumentParser()
        try:
            res = fn(ap)
        except Exception as e:  # noqa
            out.append({"path": "<run>", "want": "runs against ArgumentParser", "got": "%s: %s" % (type(e).__name__, str(e)[:100])})
            return out
        if " ".join((ap.description or "").split()) != " ".join(ir["doc"].split()):
            out.append({"path": "doc", "want": ir["doc"], "got": ap.description})
        acts = [a for a in ap._actions if a.dest != "help"]
        want = [n for n, _ in params]
        if [a.dest for a in acts] != want:
            out.append({"path": "params.<names>", "want": want, "got": [a.dest for a in acts]})
        for a in acts:
            p = ir["params"].get(a.dest)
            if p is None:
                continue
            known, v = expected_value(p)
            if known and v is not None and (type(a.default) is not type(v) or a.default != v):
                out.append({"path": "params.%s.value" % a.dest, "want": (type(v).__name__, v), "got": (type(a.default).__name__, repr(a.default)[:40])})
            t = p.get("typ")
            if t in ("int", "float", "str") and a.type is not {"int": int, "float": float, "str": str}[t] and not (t == "str" and a.type is None):
                out.append({"path": "params.%s.type" % a.dest, "want": t, "got": getattr(a.type, "__name__", repr(a.type))})
            if t and t.startswith("Literal[") and not a.choices:
                out.append({"path": "params.%s.choices" % a.dest, "want": t, "got": a.choices})
            if t and t.startswith("List[") and not isinstance(a, argparse._AppendAction):
                out.append({"path": "params.%s.action" % a.dest, "want": "append", "got": type(a).__name__})
            if p.get("doc") and R.canon_doc(a.help) != R.canon_doc(p["doc"]):
                out.append({"path": "params.%s.help" % a.dest, "want": R.canon_doc(p["doc"]), "got": R.canon_doc(a.help)})
    return out


def _work(job):
    kind, oi, opts, label, ir = job
    from vf.pyvc.verify import preimport_meta

    preimport_meta()
    try:
        return kind, oi, label, judge(kind, ir, opts)
    except Exception as e:  # noqa
        return kind, oi, label, [{"path": "<harness>", "want": "", "got": "%s: %s" % (type(e).__name__, e)}]


def check(run, record_expected=False):
    ded = deductive.run_deductive(run, KEYS)
    if record_expected:
        return ded
    dom = ir_domain.domain(run.tier, run.seed)
    irs = dict(dom)
    kinds = ["class", "function", "method", "argparse"]
    ko = [(k, rt_props.variants(k, run.tier)) for k in kinds]
    jobs = [(k, oi, o, label, ir) for k, ol in ko for oi, o in enumerate(ol) for label, ir in dom]
    ctx = mp.get_context("fork")
    with ctx.Pool(16) as pool:
        res = pool.map(_work, jobs, chunksize=16)
    optmap = {(k, oi): o for k, ol in ko for oi, o in enumerate(ol)}
    n_pass = 0
    distinct = set()
    samples = []
    for kind, oi, label, entries in res:
        ir, opts = irs[label], optmap[(kind, oi)]
        if ir_domain.nontrivial(ir):
            distinct.add(common.sha([kind, opts, ir]))
        if not entries:
            n_pass += 1
            if len(samples) < 3 and ir_domain.nontrivial(ir):
                samples.append({"kind": kind, "options": opts, "ir": ir})
        for d in entries:
            ex = d["got"] if d["path"].startswith("<") else None
            c = ir_findings.context(kind, opts, ir, d if not d["path"].startswith("<") else None, exc=ex if isinstance(ex, str) else None)
            if d["path"].startswith("<"):
                c.update(path=d["path"], field=d["path"])
            run.failure("exec_%s/%s" % (kind, rt_check.path_class(d["path"])),
                        "emitted %s for case %s: %s: want %r, got %r" % (kind, label, d["path"], d["want"], d["got"]),
                        {"kind": "exec", "rt_kind": kind, "options": opts, "label": label, "ir": ir, "diff": d, "_ctx": c})
    for v in run.violations:
        v["payload"].pop("_ctx", None)
    coverage = {
        "explanation": "BOUNDED decider: every emitted class / function / method / argparse function over D_IR x option vectors is compiled, "
                       "re-parsed (unparse stability), written through emit.file with and without black (same tree), executed, and its "
                       "interface read with class __dict__/__annotations__, inspect.signature and a real ArgumentParser. DEDUCTIVE part: "
                       "%d of %d leaf obligations (set_value, needs_quoting, quote)." % (ded["discharged"], ded["obligations"]),
        "evaluations": len(res), "distinct_nontrivial": len(distinct), "samples": samples, "exhaustive": True,
        "rule": "D_IR x emitter option vectors; distinct by hash of (kind, options, IR)",
        "obligations": ded["obligations"], "discharged": ded["discharged"], "functions_under_contract": ded["functions_under_contract"],
        "bounded": {"cases": len(res), "pass": n_pass, "bound": "D_IR (%d IRs)" % len(dom)},
    }
    return run.finish("other", coverage, ["bounded: D_IR; names np/tf/foo are stubs in the execution namespace"] + ded["assumed"])
