"""C19 - gen writes one well-formed, correctly named definition per mapping entry."""
import ast
import itertools
import json
import os
import shutil
import subprocess
import sys
import tempfile
from concurrent.futures import ThreadPoolExecutor

from vf import common, findings
from vf.props import deductive, sync_ded

KEYS = ["doctrans.ast_utils:set_value", "doctrans.parse:_merge_inner_function", "doctrans.parser_utils:ir_merge"]

CLASS_TPL = '''class {name}(object):
    """
    {name} thing.

    :param alpha: the alpha
    {typa}
    :param beta: the beta
    {typb}"""

    def __init__(self, alpha{anna}=5, beta{annb}="x"):
        self.alpha = alpha
        self.beta = beta
'''
FUNC_TPL = '''def {name}(alpha{anna}=5, beta{annb}="x"):
    """
    {name} function.

    :param alpha: the alpha
    {typa}
    :param beta: the beta
    {typb}
    :returns: the alpha
    :rtype: ```int```
    """
    return alpha
'''


def input_module(n, kind, annotated, imports):
    names = ["Alpha", "Bravo", "Charlie", "Delta"][:n]
    src = "".join(("from %s import %s\n" % m) if isinstance(m, tuple) else ("import %s\n" % m) for m in imports)
    for i, nm in enumerate(names):
        tpl = CLASS_TPL if (kind == "classes" or (kind == "mixed" and i % 2 == 0)) else FUNC_TPL
        src += "\n\n" + tpl.format(name=nm if tpl is CLASS_TPL else nm.lower(), anna=": int" if annotated else "", annb=": str" if annotated else "",
                                   typa="" if annotated else ":type alpha: ```int```\n", typb="" if annotated else ":type beta: ```str```\n")
    entries = []
    for i, nm in enumerate(names):
        is_cls = kind == "classes" or (kind == "mixed" and i % 2 == 0)
        entries.append("(%r, %s)" % (nm, nm if is_cls else nm.lower()))
    src += "\n\nMAPPING = dict([%s])\n" % ", ".join(entries)
    return names, src


def jobs(tier):
    out = []
    for n in (1, 2, 4) if tier != "thorough" else (1, 2, 3, 4):
        for kind in ("classes", "functions", "mixed"):
            for annotated in (False, True):
                for typ in ("class", "function", "argparse"):
                    for tpl in ("{name}Config", "Gen{name}"):
                        for extra in ("none", "prepend-import", "prepend-comment", "prepend-no-newline", "imports-1", "imports-2", "prepend+imports"):
                            if tier != "thorough" and (n == 4 and extra not in ("none", "imports-2", "prepend+imports")):
                                continue
                            if tier != "thorough" and tpl == "Gen{name}" and extra != "none":
                                continue
                            out.append({"n": n, "kind": kind, "annotated": annotated, "type": typ, "name_tpl": tpl, "extra": extra})
    return out


def _run(job):
    d = tempfile.mkdtemp(prefix="vfgen_")
    try:
        imports = {"imports-1": ["os"], "imports-2": ["os", "sys"], "prepend+imports": ["os", ("typing", "List")]}.get(job["extra"], [])
        names, src = input_module(job["n"], job["kind"], job["annotated"], imports)
        mod = "vfgen_input"
        with open(os.path.join(d, mod + ".py"), "w") as f:
            f.write(src)
        wjob = dict(job, dir=d, module=mod, output=os.path.join(d, "out.py"))
        if job["extra"] in ("prepend-import", "prepend+imports"):  # the latter: the named file imports another name from the module the prepended text imports from
            wjob["prepend"] = "from typing import Optional\n"
        elif job["extra"] == "prepend-comment":
            wjob["prepend"] = "# generated file\n"
        elif job["extra"] == "prepend-no-newline":
            wjob["prepend"] = "import json"  # as typed on a command line: no trailing newline
        if imports:
            wjob["imports_from_file"] = os.path.join(d, mod + ".py")
        env = dict(os.environ)
        env.pop("DOCTRANS_LINE_LENGTH", None)
        if common.REPO != "/repo":
            env["PYTHONPATH"] = common.REPO
        r = subprocess.run([sys.executable, os.path.join(common.VERIF, "vf", "bounded", "gen_worker.py"), json.dumps(wjob)],
                           capture_output=True, text=True, env=env, timeout=300)
        lines = [ln for ln in r.stdout.splitlines() if ln.startswith("{")]
        res = json.loads(lines[-1]) if lines else {"exc": "worker died: " + r.stderr[-200:], "out": None}
        return job, names, res
    finally:
        shutil.rmtree(d, ignore_errors=True)


def judge(job, names, res):
    fails = []
    if res["exc"]:
        return [("runs", res["exc"])]
    out = res["out"]
    try:
        tree = ast.parse(out)
    except SyntaxError as e:
        return [("parses", "%s" % e)]
    want = [job["name_tpl"].format(name=n) for n in names]
    node_t = ast.ClassDef if job["type"] == "class" else ast.FunctionDef
    defs = [n for n in tree.body if isinstance(n, (ast.ClassDef, ast.FunctionDef))]
    got = [n.name for n in defs]
    if got != want:
        fails.append(("names", "definitions %r, wanted %r in mapping order" % (got, want)))
    if any(not isinstance(n, node_t) for n in defs):
        fails.append(("kind", "a generated definition is not a %s" % node_t.__name__))
    alls = [n for n in tree.body if isinstance(n, ast.Assign) and any(isinstance(t, ast.Name) and t.id == "__all__" for t in n.targets)]
    if len(alls) != 1:
        fails.append(("all-once", "%d __all__ assignments" % len(alls)))
    else:
        try:
            listed = ast.literal_eval(alls[0].value)
        except Exception:
            listed = None
        if listed != want:
            fails.append(("all-lists", "__all__ == %r, wanted %r" % (listed, want)))
        if tree.body.index(alls[0]) < max([tree.body.index(x) for x in defs] or [0]):
            fails.append(("all-last", "__all__ precedes a definition"))
    first_def = min([tree.body.index(x) for x in defs] or [len(tree.body)])
    imports = [n for n in tree.body if isinstance(n, (ast.Import, ast.ImportFrom))]
    if any(tree.body.index(i) > first_def for i in imports):
        fails.append(("imports-first", "an import follows a definition"))
    want_imports = {"imports-1": ["os"], "imports-2": ["os", "sys"], "prepend+imports": ["os", ("typing", "List")]}.get(job["extra"], [])
    got_imports = [a.name for i in imports if isinstance(i, ast.Import) for a in i.names]
    got_from = [(i.module, a.name) for i in imports if isinstance(i, ast.ImportFrom) for a in i.names]
    for m in want_imports:
        n_got = got_from.count(m) if isinstance(m, tuple) else got_imports.count(m)
        if n_got != 1:
            fails.append(("imports-once", "import %s appears %d times" % (m, n_got)))
    if job["extra"] in ("prepend-import", "prepend+imports") and out.count("from typing import Optional") != 1:
        fails.append(("prepend-once", "the prepended import appears %d times" % out.count("from typing import Optional")))
    if job["extra"] == "prepend-no-newline" and out.count("import json") != 1:
        fails.append(("prepend-once", "the prepended import appears %d times" % out.count("import json")))
    if job["extra"] == "prepend-comment" and out.count("# generated file") != 1:
        fails.append(("prepend-once", "the prepended comment appears %d times" % out.count("# generated file")))
    # each definition describes the interface of its source object: alpha / beta with their defaults
    for dnode in defs:
        text = ast.unparse(dnode)
        for pname in ("alpha", "beta"):
            if pname not in text:
                fails.append(("interface", "%s does not mention parameter %s" % (dnode.name, pname)))
    return fails


@findings.matcher("c19_cond")
def _c19(failure, fd):
    g = {"__builtins__": {"any": any, "all": all, "len": len, "str": str}}
    g.update({"job": failure.get("job") or {}, "clause": failure.get("clause"), "detail": failure.get("detail", "")})
    return bool(eval(fd["cond"], g))


def gen_tail_items(max_len=5):
    """C19.D2: the statement-reordering tail of gen (from `doc_str = ast.get_docstring(parsed_ast)` to `parsed_ast.body = ...`) is extracted
    mechanically (those statements as they stand, wrapped into a one-parameter function, nothing else kept) and evaluated by CPython in gen's own
    module namespace on every module body of up to `max_len` statements over {docstring, `from __future__ import`, import, from-import, def,
    assignment}: the new body must be [docstring] + __future__ imports + other imports + everything else, each in source order, nothing lost
    or duplicated.  (Finite family: bounded by the length, exact in semantics.)"""
    import itertools

    from vf.pyvc import verify as V

    fn, src, path = V.find_def_dotted("doctrans.gen", "gen")
    body = fn.body
    i0 = next((i for i, st in enumerate(body) if isinstance(st, ast.Assign) and any(isinstance(t, ast.Name) and t.id == "doc_str" for t in st.targets)), None)
    i1 = next((i for i, st in enumerate(body) if isinstance(st, ast.Assign) and any(
        isinstance(t, ast.Attribute) and t.attr == "body" and isinstance(t.value, ast.Name) and t.value.id == "parsed_ast" for t in st.targets)), None)
    if i0 is None or i1 is None or i1 < i0:
        return [("gen-tail-anchor", False, "gen computes doc_str and then reassigns parsed_ast.body", (i0, i1))]
    gen_params = [a.arg for a in fn.args.args + fn.args.kwonlyargs]  # free names of the fragment that are gen's parameters (e.g. `prepend`)
    frag = ast.FunctionDef(name="_gen_tail", args=ast.arguments(posonlyargs=[], args=[ast.arg("parsed_ast")] + [ast.arg(a) for a in gen_params], kwonlyargs=[],
                                                                kw_defaults=[], defaults=[ast.Constant(None) for _ in gen_params]),
                           body=list(body[i0:i1 + 1]) + [ast.Return(ast.Name("parsed_ast", ast.Load()))], decorator_list=[])
    mod = ast.Module(body=[frag], type_ignores=[])
    ast.fix_missing_locations(mod)
    env = dict(vars(V.real_module("doctrans.gen")))
    exec(compile(mod, "<gen tail>", "exec"), env)
    tail = env["_gen_tail"]
    kinds = {"D": '"""module doc"""', "F": "from __future__ import annotations", "I": "import os", "M": "from typing import List",
             "d": "def f():\n    return 1", "a": "X = 1"}
    bad = []
    n = 0
    for length in range(0, max_len + 1):
        for shape in itertools.product("DFIMda", repeat=length):
            if "D" in shape[1:]:
                continue  # a string statement after the first is just an expression statement: covered by 'a'-like statements
            n += 1
            tree = ast.parse("\n".join(kinds[k] if k != "a" else "X%d = %d" % (j, j) for j, k in enumerate(shape)) + "\n")
            before = list(tree.body)
            try:
                out = tail(tree)
                tree2 = ast.parse("\n".join(kinds[k] if k != "a" else "X%d = %d" % (j, j) for j, k in enumerate(shape)) + "\n")
                before2 = list(tree2.body)
                out2 = tail(tree2, **({"prepend": "PRE = 0\n"} if "prepend" in gen_params else {}))  # the same tail when gen was given a --prepend text
                if [before2.index(x) for x in out2.body] != [before.index(x) for x in out.body]:
                    bad.append(("".join(shape), "with a prepend text the statements are arranged differently: %s" % [type(x).__name__ for x in out2.body]))
                    continue
            except Exception as e:  # noqa
                bad.append(("".join(shape), "%s: %s" % (type(e).__name__, e)))
                continue
            has_doc = bool(shape) and shape[0] == "D"
            rest = before[1:] if has_doc else before
            is_imp = lambda x: isinstance(x, (ast.Import, ast.ImportFrom))  # noqa: E731
            fut = [x for x in rest if isinstance(x, ast.ImportFrom) and x.module == "__future__"]
            imps = [x for x in rest if is_imp(x) and x not in fut]
            others = [x for x in rest if not is_imp(x)]
            want = (before[:1] if has_doc else []) + fut + imps + others
            if len(out.body) != len(want) or any(a is not b for a, b in zip(out.body, want)):
                bad.append(("".join(shape), "got %s" % [type(x).__name__ for x in out.body]))
    return [("gen-tail-order", not bad, "the reordering tail of gen keeps every statement exactly once: docstring, __future__ imports, imports, the rest - "
             "each group in source order (%d module shapes up to %d statements)" % (n, max_len), bad[:3])]


def check(run, record_expected=False):
    ded = deductive.run_deductive(run, KEYS)
    if record_expected:
        return ded
    deductive.add_evaluated(run, ded, [i for i in sync_ded.main_guards() if "gen" in i[0]], "doctrans.__main__:main")
    # gen reads every mapping entry through parse.class_ / parse.function -> ir_merge: the order of the generated interface is the
    # order ir_merge produces, so its determinism obligations (audit of parser_utils) are premises of "describes the object it came from"
    from vf.props import C07_ded
    deductive.add_evaluated(run, ded, C07_ded.parser_utils_audit(), "audit")
    deductive.add_evaluated(run, ded, gen_tail_items(5 if run.tier == "quick" else 6), "doctrans.gen:gen")
    deductive.add_evaluated(run, ded, [i for i in sync_ded.atomicity_items() if i[0] == "G-guarded-path"], "doctrans.gen:gen")
    js = jobs(run.tier)
    with ThreadPoolExecutor(max_workers=16) as ex:
        res = list(ex.map(_run, js))
    n_ok = 0
    samples = []
    for job, names, r in res:
        fails = judge(job, names, r)
        if not fails:
            n_ok += 1
            if len(samples) < 2:
                samples.append({"job": job, "output_head": (r["out"] or "")[:300]})
        for clause, detail in fails:
            run.failure("gen/%s" % clause, "gen %r: %s" % (job, detail), {"kind": "gen", "job": job, "clause": clause, "detail": detail})
    coverage = {
        "explanation": "DEDUCTIVE: main reaches gen only if the output file does not exist and nothing is written before (guard obligations), set_value: %d of %d "
                       "discharged. BOUNDED decider: generated importable input modules (1..4 classes with __init__ / functions / mixed, annotated or not, 0..2 "
                       "import lines) x output type x name template x prepend / imports-from-file, each in its own process; the output is parsed and checked for "
                       "one definition per mapping entry (named by the template, in mapping order), __all__, imports first and once, the interface names." % (
                           ded["discharged"], ded["obligations"]),
        "evaluations": len(res), "distinct_nontrivial": len(res), "samples": samples, "exhaustive": True,
        "rule": "jobs enumerated by C19.jobs(); all distinct",
        "obligations": ded["obligations"], "discharged": ded["discharged"], "functions_under_contract": ded["functions_under_contract"],
        "bounded": {"cases": len(res), "clean": n_ok, "bound": "<= 4 mapping entries"},
    }
    return run.finish("other", coverage, ["bounded: generated input modules"] + ded["assumed"])
