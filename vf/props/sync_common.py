"""Shared sync harness for C09 (agreement), C10 (idempotence / truth untouched / truthful report), C11 (preservation)."""
import ast
import multiprocessing as mp
import os

from vf import common, findings
from vf.bounded import projects as P, roundtrip as R


def _run(job):
    tk, iface, method, pres, newline, surround = job
    from vf.pyvc.verify import preimport_meta

    preimport_meta()
    proj = P.Project(tk, iface, pres, method=method, newline=newline, surround=surround)
    out = {"job": job, "agree": [], "idem": [], "preserve": [], "exc": None}
    try:
        proj.write_initial()
        truth_path = proj.files[tk]
        before = proj.snapshot()
        trees_before = {}
        for k, pth in proj.files.items():
            if os.path.isfile(pth):
                try:
                    trees_before[k] = ast.parse(open(pth).read())
                except SyntaxError:
                    pass
        rep1, exc1, out1 = proj.sync()
        after1 = proj.snapshot()
        if exc1:
            out["exc"] = exc1
            out["untouched_on_error"] = before == after1
            return out
        # ---- C09: agreement with the truth
        try:
            _, tnode, tir = P.parse_target(tk, truth_path, proj.search_name(tk))
            want = P.iface_of(tir)
        except Exception as e:  # noqa
            out["agree"].append(("truth-unreadable", "%s: %s" % (type(e).__name__, e)))
            want = None
        for k, pth in proj.files.items():
            if k == tk:
                continue
            if not os.path.isfile(pth):
                out["agree"].append(("exists/%s" % k, "target file was not created"))
                continue
            try:
                tree, node, ir = P.parse_target(k, pth, proj.search_name(k))
            except SyntaxError as e:
                out["agree"].append(("parses/%s" % k, "target no longer parses: %s" % e))
                out["preserve"].append(("parses/%s" % k, "target no longer parses: %s" % e))
                continue
            except Exception as e:  # noqa
                out["agree"].append(("readable/%s" % k, "%s: %s" % (type(e).__name__, str(e)[:100])))
                continue
            if node is None:
                out["agree"].append(("defined/%s" % k, "the named definition %s is not in the file" % proj.search_name(k)))
                continue
            got = P.iface_of(ir)
            if want is not None:
                if list(got) != list(want):
                    out["agree"].append(("names/%s" % k, "truth %r, target %r" % (list(want), list(got))))
                for n in want:
                    if n not in got:
                        continue
                    wt, wd, wv = want[n]
                    gt, gd, gv = got[n]
                    if wd != gd:
                        out["agree"].append(("prose/%s" % k, "%s: truth %r, target %r" % (n, wd, gd)))
                    if wv != gv:
                        out["agree"].append(("default/%s" % k, "%s: truth %r, target %r" % (n, wv, gv)))
                    if wt != gt and not (k == "argparse_function" and gt in ("Optional[%s]" % wt,)) and not (tk == "argparse_function" and wt == "Optional[%s]" % gt):
                        out["agree"].append(("type/%s" % k, "%s: truth %r, target %r" % (n, wt, gt)))
            # ---- C11: everything else preserved
            if k in trees_before:
                m0, m1 = P.mask(trees_before[k], proj.search_name(k)), P.mask(tree, proj.search_name(k))
                had = "<target>" in m0 or "  <target>" in m0
                if had:
                    if m0 != m1:
                        out["preserve"].append(("others/%s" % k, "statements other than the target changed: before %d, after %d entries" % (len(m0), len(m1))))
                else:
                    rest = [x for x in m1 if x not in ("<target>", "  <target>")]
                    m0c = [x for x in m0]
                    if rest != m0c and not (len(rest) == len(m0c) + 1 and proj.method and k == "function"):
                        out["preserve"].append(("others/%s" % k, "appending the definition changed other statements"))
        # ---- C10: report truthful, truth untouched, second run is a no-op
        for fn in after1:
            changed = before.get(fn) != after1[fn]
            base = fn
            if base in rep1 and rep1[base] != changed:
                out["idem"].append(("report/%s" % fn, "reported %s, bytes %s (run 1)" % ("changed" if rep1[base] else "unchanged", "changed" if changed else "unchanged")))
        tfn = os.path.basename(truth_path)
        if before.get(tfn) != after1.get(tfn):
            out["idem"].append(("truth-modified/%s" % tk, "the file holding the truth changed on disk"))
        rep2, exc2, out2 = proj.sync()
        after2 = proj.snapshot()
        if exc2:
            out["idem"].append(("second-run-raises", exc2))
        else:
            for fn in after2:
                if after1.get(fn) != after2[fn]:
                    out["idem"].append(("second-run-changes/%s" % fn, "bytes changed again on the second run"))
                if fn in rep2 and rep2[fn] != (after1.get(fn) != after2[fn]):
                    out["idem"].append(("report/%s" % fn, "reported %s, bytes %s (run 2)" % ("changed" if rep2[fn] else "unchanged", "changed" if after1.get(fn) != after2[fn] else "unchanged")))
    finally:
        proj.cleanup()
    return out


def run_projects(tier, newline_variants=(True,), surround_variants=(False, True, "after")):
    jobs = []
    for tk, iface, method, pres in P.combos(tier):
        for nl in newline_variants:
            for sr in surround_variants:
                jobs.append((tk, iface, method, pres, nl, sr))
    ctx = mp.get_context("fork")
    with ctx.Pool(16) as pool:
        return pool.map(_run, jobs, chunksize=4)


@findings.matcher("sync_cond")
def _sync_cond(failure, fd):
    g = {"__builtins__": {"any": any, "all": all, "len": len, "str": str, "set": set}}
    g.update({"tk": failure.get("tk"), "pres": failure.get("pres") or {}, "method": failure.get("method"), "clause": failure.get("clause", ""),
              "detail": failure.get("detail", ""), "iface": failure.get("iface"), "surround": failure.get("surround"), "newline": failure.get("newline"),
              "target": failure.get("clause", "").split("/")[-1]})
    return bool(eval(fd["cond"], g))


def report(run, results, section, prefix):
    n_ok = 0
    for r in results:
        tk, iface, method, pres, nl, sr = r["job"]
        base = {"kind": "sync", "tk": tk, "iface": iface, "method": method, "pres": pres, "newline": nl, "surround": sr}
        entries = list(r[section])
        if r["exc"]:
            entries.append(("no-internal-error", r["exc"])) if section == "agree" else None
        if not entries:
            n_ok += 1
        for clause, detail in entries:
            run.failure("%s/%s" % (prefix, clause), "truth=%s iface=%s method=%s pre-states=%r surround=%s: %s" % (tk, iface, method, pres, sr, detail),
                        dict(base, clause=clause, detail=detail))
    return n_ok
