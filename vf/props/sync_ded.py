"""Deductive obligations shared by C09 / C10 / C11 / C20 that are not plain function contracts."""
from argparse import Namespace

from vf.pyvc import guards

NORETURN = ("_parser.error",)
WRITES = ("emit.file", "open", "f.write")


def pluralise_mapping():
    """C09.D3: the namespace attribute of each kind is found through pluralise (finite: evaluation on the real functions)"""
    from doctrans.conformance import _get_name_from_namespace
    from doctrans.pure_utils import pluralise

    items = []
    for kind, plural in (("class", "classes"), ("function", "functions"), ("argparse_function", "argparse_functions")):
        items.append(("D3-plural[%s]" % kind, pluralise(kind) == plural, "pluralise(%r) == %r (the Namespace attribute holding the files)" % (kind, plural), pluralise(kind)))
        items.append(("D3-plural-names[%s]" % kind, pluralise(kind + "_names") == kind + "_names",
                      "pluralise leaves %r alone (the Namespace attribute holding the names)" % (kind + "_names"), pluralise(kind + "_names")))
        ns = Namespace(**{"truth": kind, "class_names": ["C"], "function_names": ["f"], "argparse_function_names": ["a"],
                          "classes": ["c.py"], "functions": ["f.py"], "argparse_functions": ["a.py"]})
        want = {"class": "C", "function": "f", "argparse_function": "a"}[kind]
        try:
            got = _get_name_from_namespace(ns, kind)
        except Exception as e:  # noqa
            got = "%s: %s" % (type(e).__name__, e)
        items.append(("D3-name[%s]" % kind, got == want, "_get_name_from_namespace picks the %s name" % kind, got))
    return items


def main_guards():
    """C20.D1: the three sub-commands are reached only after their validation, and nothing is written before"""
    items = []
    items += guards.require("doctrans.__main__:main", "ground_truth", NORETURN,
                            [("two or more files were given", guards.fails("number_of_files < 2")),
                             ("the truth file exists", guards.fails("not path.isfile(truth_file)"))], WRITES)
    items += guards.require("doctrans.__main__:main", "sync_properties", NORETURN,
                            [("the input file exists", guards.fails("not path.isfile(args.input_filename)")),
                             ("the output file exists", guards.fails("not path.isfile(args.output_filename)"))], WRITES)
    items += guards.require("doctrans.__main__:main", "gen", NORETURN,
                            [("the output file does not exist yet", guards.fails("path.isfile(args.output_filename)"))], WRITES)
    return items


def c09_items():
    return [("doctrans.conformance:_get_name_from_namespace", pluralise_mapping()), ("doctrans.__main__:main", truth_pick_items())]


def c10_items():
    return []


def c11_items():
    return []


def atomicity_items():
    """C20.D3 over the I/O model of DESIGN 2.2: open(p, 'w'|'wt') truncates p; write(s) appends all of s or a strict prefix and raises
    OSError.  'After OSError the file is the old content or the complete new content' holds iff the target is not opened in a truncating
    mode before the write has succeeded (i.e. the write goes to a temporary name that is renamed afterwards)."""
    import ast

    from vf.pyvc import verify as V

    fn, src, path = V.find_def_dotted("doctrans.emit", "file")
    truncating_direct = False
    for n in ast.walk(fn):
        if isinstance(n, ast.With):
            for it in n.items:
                c = it.context_expr
                if isinstance(c, ast.Call) and ast.unparse(c.func) == "open" and len(c.args) >= 2 and ast.unparse(c.args[0]) == "filename" and ast.unparse(c.args[1]) == "mode":
                    writes = [x for x in ast.walk(n) if isinstance(x, ast.Call) and isinstance(x.func, ast.Attribute) and x.func.attr == "write"]
                    if writes:
                        truncating_direct = True
    uses_replace = any(isinstance(n, ast.Call) and ast.unparse(n.func) in ("os.replace", "replace", "os.rename", "rename") for n in ast.walk(fn))
    items = [("F-atomic", (not truncating_direct) or uses_replace,
              "after an OSError during the write the target holds its old content or the complete new content (no truncate-then-write on the target itself)",
              "emit.file opens the target itself with the caller's mode and writes into it")]
    gfn, _, _ = V.find_def_dotted("doctrans.gen", "gen")
    order_ok = True
    for n in ast.walk(gfn):
        if isinstance(n, ast.With):
            for it in n.items:
                c = it.context_expr
                if isinstance(c, ast.Call) and ast.unparse(c.func) == "open" and "output_filename" in ast.unparse(c):
                    inner_calls = [ast.unparse(x.func) for x in ast.walk(n) if isinstance(x, ast.Call)]
                    if "to_code" in inner_calls:
                        order_ok = False
    # the path gen writes to is the path whose non-existence main's guard established
    writes_to = []
    for n in ast.walk(gfn):
        if isinstance(n, ast.Call) and ast.unparse(n.func) == "open":
            mode = n.args[1] if len(n.args) > 1 else next((k.value for k in n.keywords if k.arg == "mode"), None)
            mtxt = mode.value if isinstance(mode, ast.Constant) and isinstance(mode.value, str) else (None if mode is None else "?")
            if mtxt is not None and (mtxt == "?" or any(c in mtxt for c in "wax+")):
                writes_to.append(ast.unparse(n.args[0]) if n.args else "?")
    reassigned = any(isinstance(n, (ast.Assign, ast.AugAssign, ast.AnnAssign)) and any(
        isinstance(t, ast.Name) and t.id == "output_filename" for t in (n.targets if isinstance(n, ast.Assign) else [n.target])) for n in ast.walk(gfn))
    mfn, _, _ = V.find_def_dotted("doctrans.__main__", "main")
    gen_calls = [n for n in ast.walk(mfn) if isinstance(n, ast.Call) and ast.unparse(n.func) == "gen"]
    passed = [ast.unparse(k.value) for c in gen_calls for k in c.keywords if k.arg == "output_filename"]
    for c in gen_calls:
        if any(k.arg is None and ast.unparse(k.value) == "args_dict" for k in c.keywords):
            # gen(**args_dict): args_dict must be the plain copy of vars(args), and the arm that calls gen must not touch args / args_dict
            defs = [ast.unparse(n.value) for n in ast.walk(mfn) if isinstance(n, ast.Assign) and any(isinstance(t, ast.Name) and t.id == "args_dict" for t in n.targets)]
            arm = next((n for n in ast.walk(mfn) if isinstance(n, ast.If) and any(x is c for b in n.body for x in ast.walk(b))
                        and "'gen'" in ast.unparse(n.test)), None)
            touched = arm is None or any(
                (isinstance(x, ast.Call) and ast.unparse(x.func) == "setattr") or
                (isinstance(x, (ast.Assign, ast.AugAssign)) and any(ast.unparse(t).startswith(("args", "args_dict")) for t in (x.targets if isinstance(x, ast.Assign) else [x.target])))
                for b in arm.body for x in ast.walk(b))
            if defs == [ast.unparse(ast.parse("{k: v for k, v in vars(args).items() if k != 'command'}", mode="eval"))] and not touched:
                passed.append("args.output_filename")
            else:
                passed.append("args_dict (not a plain copy of vars(args))")
    ok_path = bool(writes_to) and all(w == "output_filename" for w in writes_to) and not reassigned and passed == ["args.output_filename"] * len(gen_calls) and bool(gen_calls)
    items.append(("G-guarded-path", ok_path,
                  "gen writes only to `output_filename` as given (not a transformed path), main passes args.output_filename, and that is the very expression "
                  "whose non-existence the guard `path.isfile(args.output_filename)` established", {"opens_for_writing": writes_to, "reassigned": reassigned, "main_passes": passed}))
    items.append(("G-render-first", order_ok, "gen renders the module before it opens the output file", "to_code(parsed_ast) is evaluated inside `with open(output_filename, 'a')`"))
    return items


def file_count_items():
    """C20.D1 (companion of the guards): the value the `number_of_files < 2` guard tests.  The assignment `number_of_files = ...` is
    extracted mechanically from main (the statement as it stands, nothing else) and evaluated by CPython on every Namespace shape
    (each kind given with 1-2 files or not, its name given or not): it must equal the number of file arguments."""
    import ast
    import itertools
    from argparse import Namespace

    from vf.pyvc import verify as V

    fn, src, path = V.find_def_dotted("doctrans.__main__", "main")
    stmt = next((n for n in ast.walk(fn) if isinstance(n, ast.Assign) and any(isinstance(t, ast.Name) and t.id == "number_of_files" for t in n.targets)), None)
    if stmt is None:
        return [("count-anchor", False, "main computes number_of_files", None)]
    code = compile(ast.Module(body=[stmt], type_ignores=[]), "<number_of_files>", "exec")
    bad = []
    n = 0
    kinds = ("argparse_function", "class", "function")
    plural = {"argparse_function": "argparse_functions", "class": "classes", "function": "functions"}
    for files in itertools.product((None, 1, 2), repeat=3):
        for names in itertools.product((False, True), repeat=3):
            ns = {"truth": "class"}
            for k, f, nm in zip(kinds, files, names):
                ns[plural[k]] = None if f is None else ["f%d.py" % i for i in range(f)]
                ns[k + "_names"] = ["N"] if nm else None
            env = {"args": Namespace(**ns), "vars": vars, "sum": sum, "len": len, "isinstance": isinstance, "list": list}
            try:
                exec(code, env)
                got = env["number_of_files"]
            except Exception as e:  # noqa
                got = "%s: %s" % (type(e).__name__, e)
            want = sum(f or 0 for f in files)
            n += 1
            if got != want:
                bad.append((ns, got, want))
    return [("count-files", not bad, "number_of_files equals the number of file arguments on all %d Namespace shapes (names never count)" % n, bad[:2])]


def truth_pick_items():
    """C09.D0: which file main reads as the truth.  The statements of main's sync arm from the first to the last assignment to `truth_file`
    are extracted mechanically (as they stand) and evaluated by CPython in __main__'s own namespace on every Namespace shape in which the
    truth kind is given 1..3 files: the truth is the FIRST file of that kind (the help text says so), made absolute."""
    import ast
    import os
    from argparse import Namespace

    from vf.pyvc import verify as V

    fn, src, path = V.find_def_dotted("doctrans.__main__", "main")
    arm = next((n for n in ast.walk(fn) if isinstance(n, ast.If) and "'sync'" in ast.unparse(n.test) and "sync_properties" not in ast.unparse(n.test)), None)
    if arm is None:
        return [("truth-anchor", False, "main has a sync arm", None)]
    idx = [i for i, st in enumerate(arm.body) if any(isinstance(x, ast.Assign) and any(isinstance(t, ast.Name) and t.id == "truth_file" for t in x.targets)
                                                     for x in ast.walk(st))]
    if not idx:
        return [("truth-anchor", False, "the sync arm assigns truth_file", None)]
    frag = ast.FunctionDef(name="_pick", args=ast.arguments(posonlyargs=[], args=[ast.arg("args"), ast.arg("_parser")], kwonlyargs=[], kw_defaults=[], defaults=[]),
                           body=list(arm.body[idx[0]:idx[-1] + 1]) + [ast.Return(ast.Name("truth_file", ast.Load()))], decorator_list=[])
    mod = ast.Module(body=[frag], type_ignores=[])
    ast.fix_missing_locations(mod)
    env = dict(vars(V.real_module("doctrans.__main__")))
    exec(compile(mod, "<main truth pick>", "exec"), env)

    class _P:
        def error(self, msg):
            raise SystemExit(msg)

    plural = {"argparse_function": "argparse_functions", "class": "classes", "function": "functions"}
    bad = []
    n = 0
    for kind in plural:
        for k in (1, 2, 3):
            files = ["/tmp/vf_truth_%s_%d.py" % (kind, i) for i in range(k)]
            ns = {"truth": kind}
            for other in plural:
                ns[plural[other]] = list(files) if other == kind else ["/tmp/vf_other_%s.py" % other]
                ns[other + "_names"] = ["N"]
            n += 1
            try:
                got = env["_pick"](Namespace(**ns), _P())
            except BaseException as e:  # noqa
                got = "%s: %s" % (type(e).__name__, e)
            want = os.path.realpath(files[0])
            if got != want:
                bad.append(({"truth": kind, "files": files}, got, want))
    return [("truth-first", not bad, "with several files of the truth kind main reads the first one as the truth (%d Namespace shapes)" % n, bad[:2])]
