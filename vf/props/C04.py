"""C04 - argparse-function round trip."""
from vf.props import rt_props

KEYS = ["vf.contracts.laws:argparse_function_roundtrip", "vf.contracts.laws:argparse_function_roundtrip_documented", "vf.contracts.laws:argparse_option_roundtrip", "doctrans.parse:argparse_ast", "doctrans.ast_utils:param2argparse_param", "doctrans.emitter_utils:parse_out_param", "doctrans.emit:argparse_function", "doctrans.emitter_utils:_handle_keyword", "doctrans.ast_utils:infer_type_and_default", "doctrans.ast_utils:_parse_node_for_arg", "doctrans.ast_utils:set_value", "doctrans.emitter_utils:get_internal_body", "doctrans.defaults_utils:set_default_doc",
        "doctrans.pure_utils:code_quoted"]


def check(run, record_expected=False):
    return rt_props.check_rt(run, "C04", ["argparse"], KEYS, "C04 argparse-function round trip", record_expected=record_expected)
