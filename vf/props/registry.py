"""Which properties are claimed, at which level (source of MANIFEST.json via gen_manifest.py)."""
ALL = ["C%02d" % i for i in range(1, 21)]
TECH = "contract-based deductive verification (pyvc: ast->VC symbolic execution of the real source, z3/cvc5) + bounded runtime contract checking"
HYBRID = ("The anchored mechanisms are under sidecar contracts whose obligations are generated from /repo's current source and discharged for all "
          "inputs (evidence: obligations / discharged); the whole-conversion postcondition goes through ast.parse/unparse, textwrap, black and the "
          "file system, which the verifier cannot reach, so it is decided by the BOUNDED stand-in (the same kind of contract evaluated on the real "
          "functions over an enumerated domain), labelled bounded and never counted as proved. ")


def _c(level, text, ref, note):
    return {"level": level, "text": text, "design_ref": ref, "note": note, "technique": TECH}


CHECKS = {
    "C01": _c("other", HYBRID + "Deductive: style decision of parse_docstring (cut point), token hygiene of the three styles (evaluation over the real constants), "
              "set_default_doc and extract_default contracts. Bounded: rt_docstring over D_IR x 3 styles x wrap / default-text options.",
              "DESIGN.md 8 C01", "Bounded: D_IR (476 IRs quick). Known findings D-infer, F11, D-vanish, D-nonliteral, D-carry, N-untyped, G-untyped, D-emptystr."),
    "C02": _c("other", HYBRID + "Deductive: set_value, needs_quoting, set_default_doc, quote/unquote. Bounded: rt_class over D_IR x options with the N_class normalisation.",
              "DESIGN.md 8 C02", "Bounded: D_IR. Known findings D-infer, C-object, C-order, C-typdrop."),
    "C03": _c("other", HYBRID + "Deductive: get_function_type, set_value, get_internal_body, style decision, set_default_doc. Bounded: rt_function / rt_method over D_IR x "
              "{kind, inline types, keyword-only, indent, default text}.", "DESIGN.md 8 C03",
              "Bounded: D_IR. Known findings Fn-nodefault, Fn-typinfer, Fn-typnoprose, D-infer, C-order, C-typdrop, D-nonliteral."),
    "C04": _c("other", HYBRID + "Deductive: set_value, get_internal_body, set_default_doc, code_quoted. Bounded: rt_argparse over D_IR x options with the N_argparse normalisation.",
              "DESIGN.md 8 C04", "Bounded: D_IR. Known findings A-optwrap, A-none, A-tuple, A-retquote, A-bool, A-tupledict, D-infer."),
    "C05": _c("other", "Lemma C05-L over the per-kind round-trip contracts: each hop of a chain is judged by its kind's contract on the actual intermediate description, "
              "and swapped / invented parameters are never explained. Premises are C01-C04's (bounded); leaf obligations deductive.",
              "DESIGN.md 8 C05", "Bounded: reduced D_IR, all 42 ordered pairs (length-3 chains in the thorough tier). Known finding A-retint."),
    "C06": _c("other", HYBRID + "Bounded: every emitted class / function / argparse function over D_IR is compiled, re-parsed, written with and without black, executed and "
              "read back with inspect / a real ArgumentParser.", "DESIGN.md 8 C06", "Bounded: D_IR; np / tf / foo are stubs when executing. Known findings X-black, C-nonetype."),
    "C07": _c("other", HYBRID + "Deductive: the padding fragment of parse.function (extracted mechanically, all shapes up to 4 positional / 2 keyword-only arguments), "
              "unordered-iteration audit of parser_utils, get_function_type. Bounded: 1 700 generated definitions judged against inspect.signature; hash seeds.",
              "DESIGN.md 8 C07", "Bounded: <= 4 parameters, ReST docs. Known findings S-docorder, S-kwargs."),
    "C08": _c("other", HYBRID + "Deductive: idempotence / inverse laws (set_default_doc twice == once, quote twice, unquote o quote, set_value). Bounded: t2 == t3 for 7 kinds x options over D_IR.",
              "DESIGN.md 8 C08", "Bounded: D_IR. Known findings X8-*."),
    "C12": _c("proof", "Decided statically, for all inputs, by over-approximation: every syntactic source of run-to-run variation in the non-test modules (iteration over a "
              "set-like value, a set-like value handed to an order-sensitive parameter, id / hash / random / time / environment reads after import, writes to state that "
              "outlives a call) is an obligation decided by rule on the AST of /repo's current source, plus the contracts of location_within, ir_merge and _join_non_none "
              "(ordered merge). The run reports level 'proof' only when obligations == discharged; any open obligation makes it 'other'. A hash-seed / call-order sweep "
              "guards the completeness of the rule list (bounded, never counted).", "DESIGN.md 8 C12",
              "Trusted (unchecked): the audit's list of nondeterminism source kinds is complete; CPython dicts keep insertion order; the libraries called (ast, textwrap, "
              "black) are deterministic. The module-state write in gen() that kept this at 'other' was repaired in /repo (d61fd93)."),
    "C13": _c("other", HYBRID + "Deductive: copy-before-mutate dominance in parse.function and in all four emitters (syntactic frame obligations), get_internal_body frame, "
              "set_default_doc idempotent mutation. Bounded (relational contract): call sequences up to length 3 (4 thorough) on a shared IR vs fresh copies.",
              "DESIGN.md 8 C13", "Bounded: sequence length, 13 IRs."),
    "C16": _c("other", HYBRID + "Deductive: get_internal_body, RewriteName.visit_Name, get_function_type. Bounded: generated bodies re-emitted as function and as __call__, compared by ast.dump.",
              "DESIGN.md 8 C16", "Bounded: 9 body shapes x 4 return shapes. Known finding B-strayfirst."),
    "C17": _c("proof", "Every function the default<->prose codec consists of (unquote, quote, code_quoted, location_within, extract_default, needs_quoting's scalar branches, "
              "set_default_doc, and the quote / unquote / set_default_doc laws) is under a sidecar contract whose obligations are generated from /repo's current source and "
              "discharged for all inputs by the SMT portfolio (obligations == discharged is required for the proof label; otherwise the run reports level 'other'). The "
              "property-level round trip and the same contracts on an enumerated corpus are a bounded companion.", "DESIGN.md 8 C17, Appendix C",
              "Trusted: the VC generator and string models (cross-checked against CPython every run), z3 / cvc5, ASCII reading of isdecimal / isdigit / casefold, floats abstract, "
              "location_within's outer loop unrolled for 1..4 tokens. The round-trip lemma C17-L is bounded. Known findings F10, F-emptystr."),
    "C18": _c("other", HYBRID + "Deductive: type obligations on pure_utils.line_length / fill. Bounded (relational): parse(emit(wrap)) == parse(emit(no wrap)) modulo whitespace for a "
              "sweep of widths, one subprocess each.", "DESIGN.md 8 C18", "Bounded: 8 widths (15 thorough) x 50 IRs x 7 kinds. Known finding W-numpydoc."),
}

CHECKS.update({
    "C09": _c("other", HYBRID + "Deductive: _conform_filename effect-log contract (create / append / replace / no-op), RewriteAtQuery.generic_visit, the pluralise / "
              "namespace mapping (evaluation), get_function_type. Bounded: generated projects (truth kind x interface x function-vs-method x pre-state pairs x "
              "surrounding statements) through ground_truth; every target is re-read with an independent ast walk and doctrans' parser.",
              "DESIGN.md 8 C09", "Bounded: 294 projects (quick). Known findings Y-stale-fn, Y-method-create, Y-find-def-before."),
    "C10": _c("other", HYBRID + "Deductive: on every path of _conform_filename the returned flag equals 'one emit.file write happened' and only the named file is written; "
              "emit.file ordering contract. Bounded: byte snapshots around a first and a second sync, truth file bytes, report vs bytes.",
              "DESIGN.md 8 C10", "Bounded: histories of length 2. Known findings Z-truth-class, Z-report-class, Z-reformat, Z-method-again."),
    "C11": _c("other", HYBRID + "Deductive: RewriteAtQuery.generic_visit replaces exactly the node at the location, once; emit.file append contract. Bounded: masked-AST "
              "equality of every target module before / after, with and without a trailing newline.", "DESIGN.md 8 C11",
              "Bounded: generated target modules. Known finding P-method-surround."),
    "C14": _c("other", HYBRID + "Deductive: sync_properties effect contract (reads only, one write to the output after every pair), RewriteAtQuery.generic_visit. Bounded: "
              "generated module pair x (input location, output location) x wrap / eval / 1..3 pairs / unresolved addresses.", "DESIGN.md 8 C14",
              "Bounded: one module pair, two output layouts. Known finding F9-c14."),
    "C15": _c("other", "find_in_ast / annotate_ancestry need an inductive invariant over tree paths (out of reach, see DESIGN 12): decided by the BOUNDED small-scope exhaustive "
              "check against an independent resolver; deductive only for RewriteAtQuery.generic_visit.", "DESIGN.md 8 C15",
              "Bounded: modules of depth <= 3, <= 3 statements per scope, shared and unique names (138k lookups). Known finding F9 delimits a large broken region."),
    "C19": _c("other", HYBRID + "Deductive: main reaches gen only when the output does not exist (guard obligations), set_value. Bounded: generated importable input modules x "
              "output type x name template x prepend / imports, one process each.", "DESIGN.md 8 C19",
              "Bounded: <= 4 mapping entries. Known findings G-function, G-annotated, G-comment, G-globals."),
    "C20": _c("other", HYBRID + "Deductive: validation dominance in main (guard obligations), emit.file ordering contract, _conform_filename effect contract, exceptional "
              "postcondition of emit.file over the I/O model. Bounded: rejected invocation classes (snapshot + exit status), accepted kind subsets, OSError injected "
              "before open / mid-write.", "DESIGN.md 8 C20", "The I/O model: open truncates, write may be partial; rename / power loss not modelled. Known finding F12."),
})

NOT_APPLICABLE = {}
for _p in ALL:
    if _p not in CHECKS:
        NOT_APPLICABLE[_p] = "check under construction in this session (see DESIGN.md section 8 for the planned contracts)"


def keys_of(pid):
    """the functions under contract in a property's deductive part (the KEYS of its check module)"""
    import importlib

    for modname in ("vf.props.%s_ded" % pid, "vf.props.%s" % pid):
        try:
            mod = importlib.import_module(modname)
        except ImportError:
            continue
        if hasattr(mod, "KEYS"):
            return list(mod.KEYS)
    return []
