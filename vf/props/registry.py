"""Which properties are claimed, at which level (source of MANIFEST.json via gen_manifest.py)."""
ALL = ["C%02d" % i for i in range(1, 21)]

CHECKS = {
    "C17": {
        "level": "proof",
        "text": "Every function the default<->prose codec consists of (unquote, quote, code_quoted, location_within, extract_default, "
                "needs_quoting's scalar branches, set_default_doc, and the quote/unquote/set_default_doc laws) is under a sidecar contract "
                "whose obligations are generated from /repo's current source and discharged for all inputs by the SMT portfolio "
                "(obligations == discharged is required for the proof label; otherwise the run reports level 'other'). The property-level "
                "round trip (render, read back, remove) and the same contracts on an enumerated corpus are a bounded companion.",
        "design_ref": "DESIGN.md section 8 (C17), Appendix C",
        "note": "Trusted: the VC generator and string models (cross-checked against CPython every run), z3/cvc5, ASCII reading of "
                "isdecimal/isdigit/casefold, floats abstract, location_within's outer loop unrolled for 1..4 tokens (all call sites). "
                "The round-trip lemma C17-L is bounded (5 prose x 19 values x 8 types), not proved. Known finding F10 (dotted value texts).",
        "technique": "contract-based deductive verification: ast->VC symbolic execution of the real source + z3/cvc5; bounded runtime contract checking as companion",
    },
}

NOT_APPLICABLE = {}
for _p in ALL:
    if _p not in CHECKS:
        NOT_APPLICABLE[_p] = "check under construction in this session (see DESIGN.md section 8 for the planned contracts)"
