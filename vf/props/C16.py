"""C16 - implementation bodies are carried through conversions verbatim."""
import ast
import itertools
import multiprocessing as mp

from vf import common, findings
from vf.props import deductive

KEYS = ["doctrans.emit:class_", "doctrans.parse:argparse_ast", "vf.contracts.laws:call_body_roundtrip", "vf.contracts.laws:function_body_roundtrip", "doctrans.emitter_utils:_make_call_meth", "doctrans.parse:function", "doctrans.parse:class_", "doctrans.emit:function", "doctrans.emitter_utils:get_internal_body", "doctrans.emitter_utils:RewriteName.visit_Name", "doctrans.ast_utils:get_function_type"]

BODIES = {
    "assign": ["total = alpha + 1", "print(total)"],
    "kwcall": ["res = helper(alpha=alpha, beta=beta)", "print(res)"],
    "loop": ["acc = []", "for i in range(alpha):\n    acc.append(i * beta)", "print(acc)"],
    "early": ["if alpha > 3:\n    return alpha", "print(beta)"],
    "nested": ["def inner(z):\n    return z + alpha", "out = inner(beta)"],
    "comp": ["sq = [alpha * k for k in range(beta)]", "print(sq, gamma_unused)"],
    "string-first": ['"stray string"', "x = 5"],
    "attr-target": ['"stray string"', "self.x = 5"],
    "single": ["print(alpha)"],
}
RETURNS = {"none": None, "name": "return total", "expr": "return alpha * beta", "tuple": "return alpha, beta",
           "zero": "return 0", "false": "return False", "empty": "return ''", "bare": "return", "none-const": "return None",
           "int": "return 5", "negative": "return -1", "float": "return 2.5", "true": "return True", "str": "return 'done'"}
DOC_RET = ("", "\n\n    :returns: the result\n    :rtype: ```int```")


def gen_functions(tier):
    out = []
    for (bk, body), (rk, ret), dr, ft in itertools.product(BODIES.items(), RETURNS.items(), range(2), ("static", "self")):
        if rk == "name" and bk not in ("assign",):
            continue
        stmts = list(body) + ([ret] if ret else [])
        first = "self, " if ft == "self" else ""
        src = 'def f(%s*, alpha: int = 5, beta: int = 2):\n    """\n    Summary.\n\n    :param alpha: the alpha\n\n    :param beta: the beta%s\n    """\n' % (first, DOC_RET[dr])
        for s in stmts:
            src += "\n".join("    " + ln for ln in s.split("\n")) + "\n"
        out.append(({"body": bk, "ret": rk, "doc_ret": bool(dr), "ftype": ft}, src))
    # placeholder docstrings (they clean to the empty string): the placeholder is the docstring, not a statement of the body
    for ph, ft, rk in itertools.product(('""', '"""   """', "''"), ("static", "self"), ("none", "name", "int")):
        first = "self, " if ft == "self" else ""
        src = "def f(%s*, alpha: int = 5, beta: int = 2):\n    %s\n" % (first, ph)
        for st in list(BODIES["assign"]) + ([RETURNS[rk]] if RETURNS[rk] else []):
            src += "\n".join("    " + ln for ln in st.split("\n")) + "\n"
        out.append(({"body": "assign", "ret": rk, "doc_ret": False, "ftype": ft, "placeholder_doc": ph}, src))
    return out


def _dump_list(stmts):
    return [ast.dump(s) for s in stmts]


def _one(job):
    meta, src = job
    from vf.pyvc.verify import preimport_meta

    preimport_meta()
    from doctrans import emit, parse
    from doctrans.source_transformer import to_code

    fails = []
    fd = ast.parse(src).body[0]
    orig_body = fd.body[1:]
    try:
        ir = parse.function(fd)
    except Exception as e:  # noqa
        return meta, src, [("parse", "%s: %s" % (type(e).__name__, str(e)[:80]))]
    # function -> function (same name and kind)
    try:
        out = emit.function(ir, function_name="f", function_type=meta["ftype"], emit_default_doc=False)
        out = ast.parse(to_code(out)).body[0]
        got = out.body[1:] if (out.body and isinstance(out.body[0], ast.Expr) and isinstance(getattr(out.body[0], "value", None), ast.Constant)
                               and isinstance(out.body[0].value.value, str)) else out.body
        if _dump_list(got) != _dump_list(orig_body):
            fails.append(("function-body", "statements differ: %r vs %r" % ([ast.unparse(s)[:40] for s in got], [ast.unparse(s)[:40] for s in orig_body])))
        n_ret = sum(isinstance(s, ast.Return) for s in got)
        if n_ret != sum(isinstance(s, ast.Return) for s in orig_body):
            fails.append(("function-returns", "top-level return count %d vs %d" % (n_ret, sum(isinstance(s, ast.Return) for s in orig_body))))
    except Exception as e:  # noqa
        fails.append(("function-emit", "%s: %s" % (type(e).__name__, str(e)[:100])))
    # function -> class with __call__: exactly the parameter references become self.<name>
    try:
        cls = emit.class_(ir, class_name="C", emit_call=True, emit_default_doc=False)
        cls = ast.parse(to_code(cls)).body[0]
        call = next((n for n in cls.body if isinstance(n, ast.FunctionDef) and n.name == "__call__"), None)
        if call is None:
            fails.append(("call-missing", "no __call__ emitted"))
        else:
            params = {"alpha", "beta"}

            class Rw(ast.NodeTransformer):
                def visit_Name(self, node):
                    return ast.Attribute(ast.Name("self", ast.Load()), node.id, ast.Load()) if node.id in params else node

            want = [ast.fix_missing_locations(Rw().visit(ast.parse(ast.unparse(s)).body[0])) for s in orig_body]
            gotc = call.body
            if _dump_list([ast.parse(ast.unparse(s)).body[0] for s in gotc]) != _dump_list([ast.parse(ast.unparse(s)).body[0] for s in want]):
                fails.append(("call-body", "__call__ body %r vs expected %r" % ([ast.unparse(s)[:50] for s in gotc], [ast.unparse(s)[:50] for s in want])))
    except Exception as e:  # noqa
        fails.append(("call-emit", "%s: %s" % (type(e).__name__, str(e)[:100])))
    return meta, src, fails


def _argparse_cases():
    """argparse functions with extra statements"""
    head = ('def set_cli_args(argument_parser):\n    """\n    Set CLI arguments\n\n    :param argument_parser: argument parser\n    :type argument_parser: ```ArgumentParser```\n\n'
            '    :returns: argument_parser\n    :rtype: ```ArgumentParser```\n    """\n    argument_parser.description = "Summary."\n'
            '    argument_parser.add_argument("--alpha", type=int, help="the alpha", required=True, default=5)\n')
    extras = {
        "print": ["print(5)"], "assign": ["x = 5", "print(x)"], "if": ["if True:\n    print(1)"],
        "attr-target": ['"stray string"', "self.x = 5"], "string-first": ['"stray string"', "y = 2"],
    }
    out = []
    for k, ex in extras.items():
        src = head + "".join("\n".join("    " + ln for ln in s.split("\n")) + "\n" for s in ex) + "    return argument_parser\n"
        out.append((k, ex, src))
    return out


def _argparse_one(job):
    k, ex, src = job
    from vf.pyvc.verify import preimport_meta

    preimport_meta()
    from doctrans import emit, parse
    from doctrans.source_transformer import to_code

    fails = []
    fd = ast.parse(src).body[0]
    try:
        ir = parse.argparse_ast(fd)
        out = emit.argparse_function(ir, function_name="set_cli_args", function_type="static", emit_default_doc=False)
        out = ast.parse(to_code(out)).body[0]
    except Exception as e:  # noqa
        return k, src, [("argparse-emit", "%s: %s" % (type(e).__name__, str(e)[:100]))]
    want = [ast.dump(ast.parse(s).body[0]) for s in ex]
    got = [ast.dump(s) for s in out.body]
    pos = 0
    for w in want:
        if w in got[pos:]:
            pos = got.index(w, pos) + 1
        else:
            fails.append(("argparse-extra", "extra statement dropped or reordered: %s" % ex))
            break
    if sum(isinstance(s, ast.Return) for s in out.body) != 1:
        fails.append(("argparse-return", "final return not kept exactly once"))
    return k, src, fails


@findings.matcher("c16_cond")
def _c16(failure, fd):
    g = {"__builtins__": {"any": any, "all": all, "len": len, "str": str}}
    g.update({"meta": failure.get("meta") or {}, "clause": failure.get("clause", ""), "detail": failure.get("detail", "")})
    return bool(eval(fd["cond"], g))


def check(run, record_expected=False):
    ded = deductive.run_deductive(run, KEYS)
    if record_expected:
        return ded
    fns = gen_functions(run.tier)
    ctx = mp.get_context("fork")
    with ctx.Pool(16) as pool:
        res = pool.map(_one, fns, chunksize=4)
        ares = pool.map(_argparse_one, _argparse_cases(), chunksize=1)
    n_ok = 0
    samples = []
    for meta, src, fails in res:
        if not fails:
            n_ok += 1
            if len(samples) < 2:
                samples.append({"meta": meta, "source": src})
        for clause, detail in fails:
            run.failure("body/%s" % clause, "generated function %r: %s" % (meta, detail), {"kind": "body", "meta": meta, "clause": clause, "detail": detail, "source": src})
    for k, src, fails in ares:
        if not fails:
            n_ok += 1
        for clause, detail in fails:
            run.failure("body/%s" % clause, "argparse function with extra statements %r: %s" % (k, detail),
                        {"kind": "body", "meta": {"body": k, "argparse": True}, "clause": clause, "detail": detail, "source": src})
    total = len(res) + len(ares)
    coverage = {
        "explanation": "DEDUCTIVE: get_internal_body (carried iff name and type match, frame), RewriteName.visit_Name (exactly parameter names "
                       "become self.<name>), get_function_type: %d of %d discharged. BOUNDED decider: %d generated bodies x return shapes x "
                       "documented return x kind are parsed and re-emitted as the same function and as a class __call__; statements compared by ast.dump." % (
                           ded["discharged"], ded["obligations"], len(BODIES)),
        "evaluations": total, "distinct_nontrivial": total, "samples": samples, "exhaustive": True,
        "rule": "generated (body, return, doc-return, kind) tuples; all distinct, all non-trivial (>= 1 statement)",
        "obligations": ded["obligations"], "discharged": ded["discharged"], "functions_under_contract": ded["functions_under_contract"],
        "bounded": {"cases": total, "verbatim": n_ok, "bound": "9 body shapes x 4 return shapes x 2 x 2; 5 argparse extras"},
    }
    return run.finish("other", coverage, ["bounded: generated bodies"] + ded["assumed"])
