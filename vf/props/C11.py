"""C11 - sync preserves everything it was not asked to change."""
from vf.props import C09, deductive, sync_common as S

KEYS = ["doctrans.ast_utils:RewriteAtQuery.generic_visit", "vf.contracts.laws:replace_at_location", "doctrans.ast_utils:find_in_ast", "doctrans.ast_utils:annotate_ancestry", "doctrans.emit:file", "doctrans.ast_utils:RewriteAtQuery.visit_FunctionDef"]


def check(run, record_expected=False):
    from vf.props import sync_ded

    ded = deductive.run_deductive(run, KEYS)
    if record_expected:
        return ded
    for func, items in sync_ded.c11_items():
        deductive.add_evaluated(run, ded, items, func)
    results = S.run_projects(run.tier, newline_variants=(True, False, "blank"))
    n_ok = S.report(run, results, "preserve", "keep")
    cov = C09._coverage(ded, results, n_ok,
                        "DEDUCTIVE: RewriteAtQuery.generic_visit replaces exactly the node at the searched location, once (contract), emit.file appends on a "
                        "fresh line: %d of %d discharged. BOUNDED decider: mask(ast(after), target) == mask(ast(before), target), same statement order, the "
                        "file parses; with and without a trailing newline.",
                        "generated target modules with imports / constants / a helper sharing parameter names / a class with a same-named method")
    return run.finish("other", cov, ["bounded: generated modules"] + ded["assumed"])
