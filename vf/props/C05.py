"""C05 - any-to-any convertibility: chains of conversions (bounded; the premises are C01-C04's contracts)."""
import itertools
import multiprocessing as mp

from vf import common
from vf.bounded import ir_domain, ir_findings, roundtrip as R, rt_check
from vf.props import deductive

KEYS = ["vf.contracts.laws:chain_class_function_documented", "vf.contracts.laws:chain_function_class_documented", "vf.contracts.laws:chain_function_argparse_documented", "vf.contracts.laws:chain_class_argparse_documented", "vf.contracts.laws:chain_argparse_class_documented", "vf.contracts.laws:chain_argparse_function_documented", "vf.contracts.laws:chain_class_argparse", "vf.contracts.laws:chain_argparse_class", "vf.contracts.laws:chain_class_function", "vf.contracts.laws:chain_function_class", "vf.contracts.laws:chain_argparse_function", "vf.contracts.laws:argparse_function_roundtrip", "vf.contracts.laws:argparse_function_roundtrip_documented", "vf.contracts.laws:class_roundtrip", "vf.contracts.laws:class_roundtrip_documented", "vf.contracts.laws:function_roundtrip_documented", "vf.contracts.laws:argparse_option_roundtrip", "doctrans.parse:argparse_ast", "doctrans.emitter_utils:_handle_keyword", "vf.contracts.laws:function_signature_roundtrip", "vf.contracts.laws:class_attribute_roundtrip", "doctrans.defaults_utils:set_default_doc", "doctrans.emitter_utils:parse_out_param", "doctrans.ast_utils:get_function_type", "doctrans.emitter_utils:get_internal_body", "doctrans.docstring_parsers:parse_docstring"]


def chain_domain(tier, seed):
    """reduced D_IR: the reduced atoms (typed / untyped, every default class) as 1- and 2-parameter IRs"""
    ra, rb = ir_domain._reduced_atoms("alpha"), ir_domain._reduced_atoms("beta")
    out = []
    for i, a in enumerate(ra):
        out.append(("c1.%d" % i, ir_domain.make_ir([("alpha", a)], ir_domain.RETURNS[i % 2])))
    for i, a in enumerate(ra):
        j = (i * 5 + 3) % len(rb)
        out.append(("c2.%d" % i, ir_domain.make_ir([("alpha", a), ("beta", rb[j])], ir_domain.RETURNS[(i + 1) % 4])))
    if tier == "thorough":
        for i, a in enumerate(ra):
            for j, b in enumerate(rb):
                out.append(("c3.%d.%d" % (i, j), ir_domain.make_ir([("alpha", a), ("beta", b)], ir_domain.RETURNS[(i + j) % 4])))
    return out


def _opts(k, variant):
    """option vectors of a hop: the emitters' defaults of the round-trip harness, and the same with default text off (then a default travels through the syntax only)"""
    return dict(R.default_opts(k), emit_default_doc=False) if variant == "no-default-text" else R.default_opts(k)


def _work(job):
    kinds, label, ir, variant = job
    from vf.pyvc.verify import preimport_meta

    preimport_meta()
    hops = []
    cur = ir
    for hop, k in enumerate(kinds):
        src = R._for_emit(cur)
        out, err = R.roundtrip(k, src, _opts(k, variant))
        if err:
            hops.append((hop, k, src, err, None))
            return (kinds, label, variant), label, hops, None
        ds = R.diff_ir(src, out, k, _opts(k, variant))
        hops.append((hop, k, src, None, ds))
        if ds:
            # this hop already lost / changed something (a finding or a violation, judged by the caller): what a later
            # hop does with the damaged description is outside every hop contract's precondition
            return (kinds, label, variant), label, hops, None
        cur = out
    # "never invented or swapped between parameters" - against the ORIGINAL description
    swaps = []
    pin = ir["params"]
    pout = cur.get("params") or {}
    names = [n for n in pout if n in pin]
    for i, n in enumerate(names):
        for m in names[i + 1:]:
            for fld in ("doc", "typ"):
                a_in, b_in = R.canon_doc(pin[n].get(fld)), R.canon_doc(pin[m].get(fld))
                a_out, b_out = R.canon_doc(pout[n].get(fld)), R.canon_doc(pout[m].get(fld))
                # a genuine swap: the two parameters exchanged two DIFFERENT values
                if a_in and b_in and a_in != b_in and a_out == b_in and b_out == a_in:
                    swaps.append({"path": "params.%s.%s" % (n, fld), "want": pin[n].get(fld), "got": pout[n].get(fld), "swapped_from": m})
    invented = [n for n in pout if n not in pin]
    return (kinds, label, variant), label, hops, (swaps, invented)


def check(run, record_expected=False):
    ded = deductive.run_deductive(run, KEYS)
    if record_expected:
        return ded
    dom = chain_domain(run.tier, run.seed)
    irs = dict(dom)
    chains = [p for p in itertools.permutations(R.KINDS, 2)]
    if run.tier == "thorough":
        chains += [p for p in itertools.permutations(R.KINDS, 3)]
    jobs = [(list(c), label, ir, variant) for c in chains for label, ir in dom for variant in ("default", "no-default-text")]
    ctx = mp.get_context("fork")
    with ctx.Pool(16) as pool:
        res = pool.map(_work, jobs, chunksize=16)
    n_pass = 0
    distinct = set()
    samples = []
    for (kinds, _label, variant), label, hops, tail in res:
        ir = irs[label]
        distinct.add(common.sha([kinds, ir, variant]))
        tag = ">".join(kinds) + ("" if variant == "default" else "[no default text]")
        clean = True
        for hop, k, src, err, diffs in hops:
            opts = _opts(k, variant)
            entries = [{"path": "<exception>", "want": "no exception", "got": err}] if err else diffs
            for d in entries:
                clean = False
                c = ir_findings.context(k, opts, src, d if not err else None, exc=err)
                if err:
                    c.update(path="<exception>", field="<exception>")
                run.failure("rt_%s/%s" % (k, rt_check.path_class(d["path"])),
                            "chain %s case %s, hop %d (%s): %s: want %r, got %r" % (tag, label, hop, k, d["path"], d["want"], d["got"]),
                            {"kind": "chain", "rt_kind": k, "chain": kinds, "hop": hop, "label": label, "ir": src, "diff": d, "options": opts, "_ctx": c})
        if tail is not None:
            swaps, invented = tail
            for d in swaps:
                clean = False
                run.failure("chain/swapped", "chain %s case %s: %s carries the value of parameter %s" % (tag, label, d["path"], d["swapped_from"]),
                            {"kind": "chain", "chain": kinds, "label": label, "ir": ir, "diff": d})
            for n in invented:
                clean = False
                c = ir_findings.context(kinds[-1], _opts(kinds[-1], variant), ir, {"path": "params.<names>", "want": list(ir["params"]), "got": n})
                run.failure("chain/invented", "chain %s case %s: parameter %r was invented" % (tag, label, n),
                            {"kind": "chain", "rt_kinds": kinds, "chain": kinds, "label": label, "ir": ir, "diff": {"path": "params.<names>", "got": n}, "_ctx": c})
        if clean:
            n_pass += 1
            if len(samples) < 3:
                samples.append({"chain": kinds, "ir": ir})
    for v in run.violations:
        v["payload"].pop("_ctx", None)
    coverage = {
        "explanation": "C05-L: the result of a chain is the composition of the per-kind normalisations; its premises are the round-trip contracts "
                       "of C01-C04 (bounded) and the leaf obligations below (deductive: %d of %d discharged). BOUNDED decider: every ordered pair%s "
                       "of the 7 kinds over a reduced D_IR (%d IRs) x 2 option vectors (the harness defaults, and default text off - then a default travels through the syntax only); a diff entry must be explained by a finding of a kind on the chain; "
                       "swapped or invented parameters are never explained." % (
                           ded["discharged"], ded["obligations"], " and every length-3 chain" if run.tier == "thorough" else "", len(dom)),
        "evaluations": len(res), "distinct_nontrivial": len(distinct), "samples": samples, "exhaustive": True,
        "rule": "chains = permutations of {rest,numpydoc,google,class,function,method,argparse}; distinct by hash of (chain, IR, option vector)",
        "obligations": ded["obligations"], "discharged": ded["discharged"], "functions_under_contract": ded["functions_under_contract"],
        "bounded": {"cases": len(res), "pass": n_pass, "chains": len(chains), "bound": "reduced D_IR, chain length <= %d" % (3 if run.tier == "thorough" else 2)},
    }
    return run.finish("other", coverage, ["bounded: reduced D_IR and chain length", "premises C01-C04 are themselves bounded"] + ded["assumed"])
