"""C07 - parsing source code is faithful to Python's own view of it."""
import ast
import inspect
import itertools
import multiprocessing as mp
import os
import subprocess
import sys

from vf import common, findings
from vf.props import deductive

KEYS = ["doctrans.parser_utils:ir_merge", "doctrans.parse:_merge_inner_function", "vf.contracts.laws:function_signature_roundtrip", "doctrans.parse:function", "doctrans.parse:class_", "doctrans.parser_utils:_interpolate_return", "doctrans.parser_utils:_join_non_none", "doctrans.ast_utils:get_function_type"]
NAMES = ("a", "b", "c", "d")


def gen_defs(tier):
    """generated definitions: positional / keyword-only / **kwargs, 0..4 parameters, defaults on a suffix (positional) or anywhere (kw-only)"""
    out = []
    vals = {"a": "1", "b": "'x'", "c": "2.5", "d": "True"}
    anns = {"a": "int", "b": "str", "c": "float", "d": "bool"}
    for n in range(0, 5):
        names = NAMES[:n]
        for npos in range(0, n + 1):
            pos, kwo = names[:npos], names[npos:]
            for ndef in range(0, npos + 1):
                kw_masks = [m for m in itertools.product((0, 1), repeat=len(kwo))] if len(kwo) <= 2 or tier == "thorough" else [(0,) * len(kwo), (1,) * len(kwo), tuple(i % 2 for i in range(len(kwo))), tuple((i + 1) % 2 for i in range(len(kwo)))]
                for km in kw_masks:
                    for ann in (True, False):
                        for kwargs in ((False, True) if n <= 2 else (False,)):
                            for meth in (False, True):
                                parts = []
                                for i, p in enumerate(pos):
                                    s = p + (": " + anns[p] if ann else "")
                                    if i >= npos - ndef:
                                        s += (" = " if ann else "=") + vals[p]
                                    parts.append(s)
                                if kwo:
                                    parts.append("*")
                                    for p, m in zip(kwo, km):
                                        s = p + (": " + anns[p] if ann else "")
                                        if m:
                                            s += (" = " if ann else "=") + vals[p]
                                        parts.append(s)
                                if kwargs:
                                    parts.append("**kwargs")
                                sig = ", ".join((["self"] if meth else []) + parts)
                                out.append({"sig": sig, "names": list(names), "kwargs": kwargs, "method": meth, "ann": ann})
    return out


def docstrings(names, kwargs, style_i):
    """documentation variants: all / some / none / reversed order (ReST; other styles in the thorough tier)"""
    def rest(ns):
        return "Summary.\n\n" + "\n\n".join(":param %s: the %s" % (n, n) for n in ns)
    docs = {"none": None, "all": rest(list(names) + (["kwargs"] if kwargs else []))}
    if len(names) >= 2:
        docs["some"] = rest(names[1:2])
        docs["reversed"] = rest(list(reversed(names)))
        docs["last"] = rest(names[-1:])
    if kwargs and names:
        # **kwargs documented while later parameters are not: the documented prefix keeps source order and **kwargs must still come last
        docs["first+kwargs"] = rest(list(names[:1]) + ["kwargs"])
    return docs


def _judge(job):
    d, dk, doc = job
    from vf.pyvc.verify import preimport_meta

    preimport_meta()
    from doctrans import parse

    body = ('    """\n    ' + doc.replace("\n", "\n    ") + '\n    """\n' if doc else "") + "    return None\n"
    src = "def f(%s):\n%s" % (d["sig"], body)
    fails = []
    try:
        fd = ast.parse(src).body[0]
        ns = {}
        exec(compile(ast.parse(src), "<gen>", "exec"), ns)
        sig = inspect.signature(ns["f"])
    except Exception as e:  # noqa
        return d, dk, src, [("harness", "%s: %s" % (type(e).__name__, e))]
    try:
        ir = parse.function(fd)
    except Exception as e:  # noqa
        return d, dk, src, [("no-raise", "parse.function raised %s: %s" % (type(e).__name__, str(e)[:100]))]
    want = [n for n in sig.parameters if n not in ("self", "cls")]
    got = list(ir["params"].keys())
    if sorted(got) != sorted(want):
        fails.append(("names", "Python sees %r, doctrans lists %r" % (want, got)))
    elif got != want:
        fails.append(("order", "source order %r, doctrans order %r" % (want, got)))
    if len(set(got)) != len(got):
        fails.append(("duplicates", repr(got)))
    for n in want:
        if n not in ir["params"] or n == "kwargs":
            continue
        sp = sig.parameters[n]
        p = ir["params"][n]
        has = "default" in p and p["default"] not in (None, "```(None)```", "None")
        if sp.default is inspect.Parameter.empty:
            if has:
                fails.append(("default-invented", "%s has no default in Python but doctrans reports %r" % (n, p.get("default"))))
        else:
            if not has:
                fails.append(("default-lost", "%s = %r in Python, doctrans reports no default" % (n, sp.default)))
            elif type(p["default"]) is not type(sp.default) or p["default"] != sp.default:
                fails.append(("default-value", "%s = %r in Python, doctrans reports %r" % (n, sp.default, p["default"])))
        if sp.annotation is not inspect.Parameter.empty and p.get("typ") != sp.annotation.__name__:
            fails.append(("annotation", "%s: %s in Python, doctrans typ %r" % (n, sp.annotation.__name__, p.get("typ"))))
        if doc and (":param %s:" % n) in doc and (p.get("doc") or "").strip() != "the %s" % n:
            fails.append(("prose", "prose of %s is %r" % (n, p.get("doc"))))
        if doc and (":param %s:" % n) not in doc and p.get("doc"):
            fails.append(("prose-misattached", "%s is undocumented but got prose %r" % (n, p.get("doc"))))
    return d, dk, src, fails


def _seed_sweep(srcs, seeds):
    """thorough: the same parses under several PYTHONHASHSEEDs must list parameters in the same order"""
    code = ("import ast,sys,json\ntry:\n import meta\nexcept Exception:\n pass\nfrom doctrans import parse\n"
            "print(json.dumps([list(parse.function(ast.parse(s).body[0])['params'].keys()) for s in json.load(sys.stdin)]))")
    outs = []
    for sd in seeds:
        env = dict(os.environ, PYTHONHASHSEED=str(sd))
        if common.REPO != "/repo":
            env["PYTHONPATH"] = common.REPO
        r = subprocess.run([sys.executable, "-c", code], input=__import__("json").dumps(srcs), capture_output=True, text=True, env=env)
        outs.append(r.stdout.strip().splitlines()[-1] if r.stdout.strip() else r.stderr[-200:])
    return outs


@findings.matcher("c07_cond")
def _c07(failure, fd):
    g = {"__builtins__": {"any": any, "all": all, "len": len, "str": str}}
    g.update({"d": failure.get("d") or {}, "dk": failure.get("dk"), "clause": failure.get("clause", ""), "detail": failure.get("detail", "")})
    return bool(eval(fd["cond"], g))


def check(run, record_expected=False):
    ded = deductive.run_deductive(run, KEYS)
    if record_expected:
        return ded
    from vf.props import C07_ded

    for func, items in C07_ded.evaluated():
        deductive.add_evaluated(run, ded, items, func)
    defs = gen_defs(run.tier)
    jobs = []
    for d in defs:
        for dk, doc in docstrings(d["names"], d["kwargs"], 0).items():
            jobs.append((d, dk, doc))
    ctx = mp.get_context("fork")
    with ctx.Pool(16) as pool:
        res = pool.map(_judge, jobs, chunksize=32)
    n_ok = 0
    samples = []
    partial_srcs = []
    for d, dk, src, fails in res:
        if dk in ("some", "last", "none") and len(d["names"]) >= 3 and len(partial_srcs) < 40:
            partial_srcs.append(src)
        if not fails:
            n_ok += 1
            if len(samples) < 3 and d["names"]:
                samples.append({"source": src})
        for clause, detail in fails:
            run.failure("sig/%s" % clause, "def f(%s) documented %s: %s" % (d["sig"], dk, detail),
                        {"kind": "signature", "d": d, "dk": dk, "clause": clause, "detail": detail, "source": src})
    seeds = (0, 1, 2, 3) if run.tier == "quick" else (0, 1, 2, 3, 4, 5, 6, 7)
    outs = _seed_sweep(partial_srcs, seeds)
    if len(set(outs)) != 1:
        run.failure("sig/order-hash-seed", "parameter order of partially documented functions differs between PYTHONHASHSEED values %r" % (seeds,),
                    {"kind": "signature", "d": {}, "dk": "some", "clause": "order-hash-seed", "detail": outs[:2]})
    coverage = {
        "explanation": "DEDUCTIVE: ir_merge (ordered union of keys, per-key precedence, on enumerated key shapes with symbolic values), "
                       "_join_non_none, the padding fragment of parse.function extracted mechanically (argument lists up to length 4), unordered-"
                       "iteration audit of parser_utils: %d of %d discharged. BOUNDED decider: %d generated definitions x documentation "
                       "(all / some / none / reversed / last) judged against inspect.signature of the executed definition; %d hash seeds on the "
                       "partially documented ones." % (ded["discharged"], ded["obligations"], len(defs), len(seeds)),
        "evaluations": len(res), "distinct_nontrivial": len([1 for d, _, _, _ in res if d["names"]]), "samples": samples, "exhaustive": True,
        "rule": "definitions: 0..4 parameters, every split positional / keyword-only, defaults on a positional suffix and on keyword-only subsets, "
                "annotated or not, **kwargs, function / method; non-trivial = at least one parameter",
        "obligations": ded["obligations"], "discharged": ded["discharged"], "functions_under_contract": ded["functions_under_contract"],
        "by_backend": ded["by_backend"], "undecided": ded["undecided"],
        "bounded": {"cases": len(res), "faithful": n_ok, "hash_seeds": list(seeds), "bound": "<= 4 parameters"},
    }
    return run.finish("other", coverage, ["bounded: generated definitions (<= 4 parameters), ReST documentation"] + ded["assumed"])
