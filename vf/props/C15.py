"""C15 - dotted locations address exactly one node, the right one (bounded small-scope exhaustive vs an independent resolver)."""
import ast
import itertools
import multiprocessing as mp

from vf import common, findings
from vf.props import deductive

KEYS = ["doctrans.pure_utils:strip_split", "doctrans.ast_utils:RewriteAtQuery.generic_visit", "vf.contracts.laws:replace_at_location", "doctrans.ast_utils:find_in_ast", "doctrans.ast_utils:annotate_ancestry", "doctrans.ast_utils:RewriteAtQuery.visit_FunctionDef"]
NAMES = ("a", "b", "c")


def gen_scopes(depth, tier):
    """-> list of source fragments (lists of statements as text) for one scope"""
    leafs = [lambda n: "%s = 1" % n, lambda n: "%s: int = 2" % n,
             lambda n: "def %s(b=0, *, c=1):\n    pass" % n, lambda n: "def %s(a, b: int = 3):\n    pass" % n,
             lambda n: "def %s(c=3, a=5, b=1):\n    pass" % n]
    out = []
    maxlen = 3 if depth == 0 else 2
    for k in range(1, maxlen + 1):
        for names in itertools.permutations(NAMES, k):
            kinds = list(range(len(leafs))) + (["class"] if depth < 2 else [])
            combos = itertools.product(kinds, repeat=k)
            for combo in combos:
                if tier != "thorough" and k == 3 and combo.count("class") == 0 and len(set(combo)) == 1:
                    continue
                variants = [[]]
                for nm, kd in zip(names, combo):
                    if kd == "class":
                        inner = gen_scopes(depth + 1, tier) if depth + 1 <= 2 else []
                        inner = inner[:: max(1, len(inner) // (6 if tier != "thorough" else 40))] if inner else [["pass"]]
                        new = []
                        for v in variants:
                            for body in inner[: (6 if tier != "thorough" else 40)]:
                                btxt = "\n".join("    " + ln for st in body for ln in st.split("\n"))
                                new.append(v + ["class %s(object):\n%s" % (nm, btxt)])
                        variants = new
                    else:
                        variants = [v + [leafs[kd](nm)] for v in variants]
                    if len(variants) > (40 if tier != "thorough" else 400):
                        variants = variants[: (40 if tier != "thorough" else 400)]
                out.extend(variants)
    return out


def uniquify(src):
    """the same module shape with globally unique names (every def / class / assignment target / argument renamed)"""
    tree = ast.parse(src)
    ctr = [0]

    def fresh():
        ctr[0] += 1
        return "n%d" % ctr[0]

    def walk(body):
        for st in body:
            if isinstance(st, ast.ClassDef):
                st.name = fresh()
                walk(st.body)
            elif isinstance(st, ast.FunctionDef):
                st.name = fresh()
                for a in list(st.args.args) + list(st.args.kwonlyargs):
                    a.arg = fresh()
            elif isinstance(st, ast.AnnAssign) and isinstance(st.target, ast.Name):
                st.target.id = fresh()
            elif isinstance(st, ast.Assign):
                for t in st.targets:
                    if isinstance(t, ast.Name):
                        t.id = fresh()
    walk(tree.body)
    return ast.unparse(tree) + "\n"


def features(path, tree):
    """input-only features of a lookup used to delimit the known-broken region"""
    names = []

    def walk(body):
        for st in body:
            if isinstance(st, ast.ClassDef):
                names.append(st.name)
                walk(st.body)
            elif isinstance(st, ast.FunctionDef):
                names.append(st.name)
                names.extend(a.arg for a in list(st.args.args) + list(st.args.kwonlyargs))
            elif isinstance(st, ast.AnnAssign) and isinstance(st.target, ast.Name):
                names.append(st.target.id)
            elif isinstance(st, ast.Assign):
                names.extend(t.id for t in st.targets if isinstance(t, ast.Name))
    walk(tree.body)
    parts = path.split(".")
    shared = any(names.count(p) > 1 for p in parts)
    node = spec_resolve(parts, tree)
    kwonly = False
    def_before = False
    scope = tree.body
    for i, p in enumerate(parts):
        idx = next((k for k, st in enumerate(scope) if (isinstance(st, (ast.ClassDef, ast.FunctionDef)) and st.name == p)), None) if isinstance(scope, list) else None
        if idx is None:
            break
        if any(isinstance(st, ast.FunctionDef) for st in scope[:idx]):
            def_before = True
        st = scope[idx]
        if isinstance(st, ast.ClassDef):
            scope = st.body
        elif isinstance(st, ast.FunctionDef):
            if i + 1 < len(parts):
                kwonly = any(a.arg == parts[i + 1] for a in st.args.kwonlyargs)
            scope = st.args
        else:
            break
    return {"shared_name": shared, "def_before": def_before, "kwonly_arg": kwonly, "depth": len(parts), "exists": node is not None}


# modules with ordinary, globally unique names: short argument names, receivers, several functions and classes
EXTRA_MODULES = [
    "def conv(c=3, kernel=5, stride=1):\n    pass\n",
    "def fit(s=1, rate=2, e=3):\n    pass\n\n\ndef run(f=1, l=2, x=3):\n    pass\n",
    "class Net(object):\n    depth: int = 2\n\n    def forward(self, el=1, cl=2, sel=3):\n        pass\n",
    "width = 1\n\n\nclass Cfg(object):\n    size: int = 3\n    kind = 'k'\n\n\ndef build(cls_name=1, selfish=2, lf=3):\n    pass\n",
]


def spec_resolve(path, tree):
    """independent resolver: scope walk over class bodies, function arguments and assignment targets"""
    scope = tree.body
    node = None
    for i, part in enumerate(path):
        last = i == len(path) - 1
        found = None
        if isinstance(scope, ast.arguments):
            for a in list(scope.args) + list(scope.kwonlyargs):
                if a.arg == part:
                    found = a
                    break
            if found is None or not last:
                return None
            return found
        for st in scope:
            if isinstance(st, (ast.ClassDef, ast.FunctionDef)) and st.name == part:
                found = st
                break
            if isinstance(st, ast.AnnAssign) and isinstance(st.target, ast.Name) and st.target.id == part:
                found = st
                break
            if isinstance(st, ast.Assign) and any(isinstance(t, ast.Name) and t.id == part for t in st.targets):
                found = st
                break
        if found is None:
            return None
        node = found
        if last:
            return node
        if isinstance(found, ast.ClassDef):
            scope = found.body
        elif isinstance(found, ast.FunctionDef):
            scope = found.args
        else:
            return None
    return node


def all_paths(tree):
    out = []

    def walk(body, prefix, depth):
        for st in body:
            if isinstance(st, ast.ClassDef):
                out.append(prefix + [st.name])
                walk(st.body, prefix + [st.name], depth + 1)
            elif isinstance(st, ast.FunctionDef):
                out.append(prefix + [st.name])
                for a in list(st.args.args) + list(st.args.kwonlyargs):
                    out.append(prefix + [st.name, a.arg])
            elif isinstance(st, ast.AnnAssign) and isinstance(st.target, ast.Name):
                out.append(prefix + [st.target.id])
            elif isinstance(st, ast.Assign):
                for t in st.targets:
                    if isinstance(t, ast.Name):
                        out.append(prefix + [t.id])
    walk(tree.body, [], 0)
    return out


def _judge(src):
    from vf.pyvc.verify import preimport_meta

    preimport_meta()
    from doctrans.ast_utils import RewriteAtQuery, find_in_ast
    from doctrans.source_transformer import ast_parse

    fails = []
    n = 0
    try:
        plain = ast.parse(src)
    except SyntaxError:
        return src, 0, []
    paths = all_paths(plain)
    absent = [["zz"], ["a", "zz"], ["b", "c", "zz"], ["c", "a"]]
    for path in paths + [p for p in absent if p not in paths]:
        n += 1
        tree = ast_parse(src, skip_docstring_remit=True)
        want = spec_resolve(path, tree)
        try:
            got = find_in_ast(list(path), tree)
        except Exception as e:  # noqa
            fails.append((".".join(path), "raise", "%s: %s" % (type(e).__name__, str(e)[:80]), want is not None))
            continue
        if got is not want:
            kind = "absent-found" if want is None else ("none" if got is None else "wrong-node")
            fails.append((".".join(path), kind, "want %s, got %s" % (want and ast.dump(want)[:60], got is not None and ast.dump(got)[:60]), want is not None))
            continue
        # replacing a positional argument (with defaults everywhere) changes that argument - annotation and default - and no other
        if want is not None and isinstance(want, ast.arg) and len(path) == 2:
            fdef = spec_resolve(path[:1], tree)
            if isinstance(fdef, ast.FunctionDef) and want in fdef.args.args and len(fdef.args.defaults) == len(fdef.args.args):
                tree3 = ast_parse(src, skip_docstring_remit=True)
                rep = ast.parse("%s: int = 77" % path[1]).body[0]
                try:
                    rw = RewriteAtQuery(search=list(path), replacement_node=rep)
                    new3 = rw.visit(tree3)
                    f3 = spec_resolve(path[:1], new3)
                    before = [(a.arg, ast.unparse(d)) for a, d in zip(fdef.args.args, fdef.args.defaults)]
                    after = [(a.arg, ast.unparse(d)) for a, d in zip(f3.args.args, f3.args.defaults)]
                    expect = [(n_, "77" if n_ == path[1] else d_) for n_, d_ in before]
                    ann = [a.arg for a in f3.args.args if a.annotation is not None and not any(b.arg == a.arg and b.annotation is not None for b in fdef.args.args)]
                    if not rw.replaced or after != expect or ann != [path[1]]:
                        fails.append((".".join(path), "replace-arg", "arguments after %r, expected %r; newly annotated %r" % (after, expect, ann), True))
                except Exception as e:  # noqa
                    fails.append((".".join(path), "replace-arg-raise", "%s: %s" % (type(e).__name__, str(e)[:80]), True))
        # replacement replaces that node once and no other
        if want is not None and isinstance(want, (ast.ClassDef,)):
            tree2 = ast_parse(src, skip_docstring_remit=True)
            marker = ast.parse("class MARK(object):\n    pass").body[0]
            rw = RewriteAtQuery(search=list(path), replacement_node=marker)
            try:
                new = rw.visit(tree2)
                cnt = sum(1 for x in ast.walk(new) if isinstance(x, ast.ClassDef) and x.name == "MARK")
                if not rw.replaced or cnt != 1:
                    fails.append((".".join(path), "replace", "replaced=%s, markers=%d" % (rw.replaced, cnt), True))
            except Exception as e:  # noqa
                fails.append((".".join(path), "replace-raise", "%s: %s" % (type(e).__name__, str(e)[:80]), True))
    return src, n, fails


@findings.matcher("c15_cond")
def _c15(failure, fd):
    g = {"__builtins__": {"any": any, "all": all, "len": len, "str": str}}
    g.update({k: failure.get(k) for k in ("path", "clause", "detail", "source", "depth", "exists", "shared_name", "def_before", "kwonly_arg")})
    return bool(eval(fd["cond"], g))


def check(run, record_expected=False):
    ded = deductive.run_deductive(run, KEYS)
    if record_expected:
        return ded
    scopes = gen_scopes(0, run.tier)
    shared = sorted({"\n\n".join(sc) + "\n" for sc in scopes})
    srcs = shared + sorted({uniquify(x) for x in shared[:: (3 if run.tier != "thorough" else 1)]}) + EXTRA_MODULES
    ctx = mp.get_context("fork")
    with ctx.Pool(16) as pool:
        res = pool.map(_judge, srcs, chunksize=16)
    lookups = agree = 0
    samples = []
    for src, n, fails in res:
        lookups += n
        agree += n - len(fails)
        if not fails and len(samples) < 2 and n > 3:
            samples.append({"module": src, "lookups": n})
        tree = ast.parse(src)
        for path, clause, detail, exists in fails:
            f = features(path, tree)
            run.failure("loc/%s" % clause, "find_in_ast(%r) in %r: %s" % (path, src[:120], detail),
                        dict(f, kind="location", path=path, clause=clause, detail=detail, source=src))
    coverage = {
        "explanation": "find_in_ast is a cursor walk over nested bodies and annotate_ancestry a traversal with carried state: an inductive invariant over tree "
                       "paths is out of reach, so the decider is BOUNDED small-scope exhaustive: every generated module (nesting depth <= 3, <= 3 statements "
                       "per scope, names from {a, b, c}, functions before and after classes) x every existing location + absent ones, judged against an "
                       "independent resolver written over ast. DEDUCTIVE: RewriteAtQuery.generic_visit contract (%d of %d discharged)." % (ded["discharged"], ded["obligations"]),
        "evaluations": lookups, "distinct_nontrivial": len(srcs), "samples": samples, "exhaustive": True,
        "rule": "modules enumerated by gen_scopes (deduplicated by text); every lookup is one evaluation; non-trivial = module with at least one definition",
        "obligations": ded["obligations"], "discharged": ded["discharged"], "functions_under_contract": ded["functions_under_contract"],
        "bounded": {"modules": len(srcs), "lookups": lookups, "agree": agree, "bound": "depth <= 3, <= 3 statements per scope, 3 names"},
    }
    return run.finish("other", coverage, ["bounded: small-scope hypothesis"] + ded["assumed"])
