"""Deductive obligations of C07 that are not plain function contracts: the padding fragment of parse.function and the
unordered-iteration audit restricted to parser_utils."""
import ast
import itertools

import z3

from vf.pyvc import audit, engine as E, verify as V
from vf.pyvc.smt import Obj
from vf.pyvc.values import HList, HObj, Opq, Ref, Unsupported


def _padding_loop():
    fn, src, path = V.find_def_dotted("doctrans.parse", "function")
    for n in ast.walk(fn):
        if (isinstance(n, ast.For) and isinstance(n.target, ast.Tuple) and [getattr(e, "id", None) for e in n.target.elts] == ["args", "defaults"]):
            return n
    return None


def padding_obligations(max_n=4):
    """The `for args, defaults in (...)` loop of parse.function is extracted mechanically (the For statement as it stands
    in /repo, wrapped in `def _frag(function_def): <loop>; return function_def`; nothing else is kept) and executed
    symbolically for every (n positional, d defaults, m keyword-only, mask of keyword defaults) with n, m <= max_n over
    opaque default nodes.  Post: positional defaults are right-aligned, keyword-only defaults stay position-aligned."""
    loop = _padding_loop()
    items = []
    if loop is None:
        return [("pad-anchor", False, "the padding loop `for args, defaults in (...)` exists in parse.function", None)]
    frag = ast.FunctionDef(name="_frag", args=ast.arguments(posonlyargs=[], args=[ast.arg("function_def")], kwonlyargs=[], kw_defaults=[], defaults=[]),
                           body=[loop, ast.Return(ast.Name("function_def", ast.Load()))], decorator_list=[])
    ast.fix_missing_locations(frag)
    glob = V._glob_for("doctrans.parse")
    from vf.pyvc import models

    models.register_repo_natives()
    n_cases = 0
    bad = []
    for n in range(0, max_n + 1):
        for d in range(0, n + 1):
            for m in range(0, 3):
                for mask in itertools.product((0, 1), repeat=m):
                    n_cases += 1
                    eng = V.VEngine({}, "parse.function/padding", V.Contract("doctrans.parse:function", [], []))
                    eng.abort_paths = False
                    st = E.State()
                    mk = lambda tag, k: Opq(z3.Const("%s%d" % (tag, k), Obj), "ast.Constant")  # noqa: E731
                    pos_defaults = [mk("pd", k) for k in range(d)]
                    kw_defaults = [mk("kd", k) if mask[k] else None for k in range(m)]
                    argsobj = HObj("ast.arguments")
                    argsobj.attrs.update({
                        "args": st.alloc(HList([Opq(z3.Const("pa%d" % k, Obj), "ast.arg") for k in range(n)])),
                        "defaults": st.alloc(HList(list(pos_defaults))),
                        "kwonlyargs": st.alloc(HList([Opq(z3.Const("ka%d" % k, Obj), "ast.arg") for k in range(m)])),
                        "kw_defaults": st.alloc(HList(list(kw_defaults))),
                    })
                    fdobj = HObj("ast.FunctionDef")
                    fdobj.attrs["args"] = st.alloc(argsobj)
                    fdref = st.alloc(fdobj)
                    fnv = V.Fn(frag, [], glob, "_frag")
                    sid = eng.new_scope(st, {"function_def": fdref})
                    eng.frames.append(E.Frame(sid, fnv, "_frag"))
                    try:
                        outs = eng.exec_block(frag.body, st)
                    except Unsupported as e:
                        return [("pad-subset", False, "the padding loop stays within the verified subset", str(e))]
                    finally:
                        eng.frames.pop()
                    for kind, val, s in outs:
                        if kind != "return":
                            bad.append(((n, d, m, mask), "loop ended with %s" % kind))
                            continue
                        a = s.heap[s.heap[fdref.oid].attrs["args"].oid]
                        got_pos = s.heap[a.attrs["defaults"].oid].items
                        got_kw = s.heap[a.attrs["kw_defaults"].oid].items
                        want_pos = [None] * (n - d) + pos_defaults
                        same = lambda x, y: (x is None and y is None) or (isinstance(x, Opq) and isinstance(y, Opq) and x.t.eq(y.t))  # noqa: E731
                        if len(got_pos) < n or not all(same(got_pos[i], want_pos[i]) for i in range(n)):
                            bad.append(((n, d, m, mask), "positional defaults %r, want right-aligned %r" % (got_pos, want_pos)))
                        if len(got_kw) < m or not all(same(got_kw[i], kw_defaults[i]) for i in range(m)):
                            bad.append(((n, d, m, mask), "keyword-only defaults %r, want position-aligned %r" % (got_kw, kw_defaults)))
    items.append(("pad-aligned", not bad, "after the padding loop, for every i < len(args): defaults[i] is old_defaults[i-(n-d)] if i >= n-d else None, and "
                  "kw_defaults[i] is old_kw_defaults[i] (%d shapes with n <= %d positional, <= 2 keyword-only arguments; elements opaque)" % (n_cases, max_n),
                  bad[:3]))
    return items


def parser_utils_audit():
    from vf.props import C12

    items, _ = audit.run_audit(unordered_ok=C12.UNORDERED_OK)
    return [i for i in items if "parser_utils" in i[0] and i[1] is not None]


def evaluated():
    return [("doctrans.parse:function", padding_obligations()), ("audit", parser_utils_audit())]
