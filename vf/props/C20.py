"""C20 - rejected or failing invocations never damage source files."""
import ast
import builtins
import contextlib
import io
import os

from vf import common, findings
from vf.bounded import projects as P
from vf.props import deductive, sync_ded

KEYS = ["doctrans.emit:file", "doctrans.conformance:_conform_filename", "doctrans.conformance:ground_truth", "doctrans.sync_properties:sync_properties"]


def _main(argv):
    """run doctrans.__main__.main in process -> (exit kind, detail)"""
    from doctrans.__main__ import main

    out, err = io.StringIO(), io.StringIO()
    try:
        with contextlib.redirect_stdout(out), contextlib.redirect_stderr(err):
            main(argv)
        return "ok", ""
    except SystemExit as e:
        return "exit%s" % e.code, err.getvalue()[-200:]
    except (OSError, IOError) as e:
        return "oserror", str(e)[:120]
    except BaseException as e:  # noqa
        return "internal", "%s: %s" % (type(e).__name__, str(e)[:160])


def rejected_cases():
    """(label, builder(project) -> argv, expected exit kinds)"""
    def missing_truth(p):
        os.unlink(p.files[p.truth_kind])
        return p.argv()

    def one_file(p):
        return p.argv([p.truth_kind])

    def no_truth_kind_file(p):
        others = [k for k in P.NAMES if k != p.truth_kind]
        return p.argv(others)

    def sp_missing_input(p):
        return ["sync_properties", "--input-filename", os.path.join(p.dir, "nope.py"), "--input-param", "a", "--output-filename", p.files[p.truth_kind], "--output-param", "b"]

    def sp_missing_output(p):
        return ["sync_properties", "--input-filename", p.files[p.truth_kind], "--input-param", "a", "--output-filename", os.path.join(p.dir, "nope.py"), "--output-param", "b"]

    def gen_exists(p):
        return ["gen", "--name-tpl", "{name}Config", "--input-mapping", "doctrans.pure_utils.simple_types", "--type", "class", "--output-filename", p.files[p.truth_kind]]

    return [("missing-truth", missing_truth, ("exit2",)), ("fewer-than-two-files", one_file, ("exit2",)), ("truth-kind-without-file", no_truth_kind_file, ("exit2",)),
            ("sync_properties-missing-input", sp_missing_input, ("exit2",)), ("sync_properties-missing-output", sp_missing_output, ("exit2",)),
            ("gen-output-exists", gen_exists, ("oserror", "exit2"))]


class _FailingFile:
    def __init__(self, real, fail_after):
        self.real, self.fail_after = real, fail_after

    def write(self, s):
        if self.fail_after is not None:
            self.real.write(s[: self.fail_after])
            self.real.flush()
            raise OSError("injected: disk full")
        return self.real.write(s)

    def __enter__(self):
        self.real.__enter__()
        return self

    def __exit__(self, *a):
        return self.real.__exit__(*a)

    def __getattr__(self, n):
        return getattr(self.real, n)


def fault_runs(tier):
    """a 3-kind sync where two targets must be written; OSError injected at the k-th write-open: before the open, or mid-write"""
    out = []
    for tk in ("class", "argparse_function"):
        for point in ("before-open", "mid-write"):
            for k in (0, 1):
                others = [x for x in P.NAMES if x != tk]
                pres = {others[0]: "empty", others[1]: "empty"}
                proj = P.Project(tk, "basic", pres)
                try:
                    proj.write_initial()
                    before = proj.snapshot()
                    real_open = builtins.open
                    state = {"n": 0}

                    def patched(file, mode="r", *a, **kw):
                        if isinstance(file, str) and file.startswith(proj.dir) and any(c in mode for c in "wa"):
                            idx = state["n"]
                            state["n"] += 1
                            if idx == k:
                                if point == "before-open":
                                    raise OSError("injected: cannot open")
                                return _FailingFile(real_open(file, mode, *a, **kw), 7)
                        return real_open(file, mode, *a, **kw)

                    builtins.open = patched
                    try:
                        rep, exc, _ = proj.sync()
                    finally:
                        builtins.open = real_open
                    after = proj.snapshot()
                    bad = []
                    for fn, data in after.items():
                        if data == before.get(fn):
                            continue
                        try:
                            ast.parse(data.decode())
                            complete = len(data) > 40
                        except Exception:
                            complete = False
                        if not complete:
                            bad.append((fn, data[:40]))
                    out.append({"truth": tk, "point": point, "k": k, "exc": exc, "bad": bad, "injected": state["n"] > k})
                finally:
                    proj.cleanup()
    return out


@findings.matcher("c20_cond")
def _c20(failure, fd):
    g = {"__builtins__": {"any": any, "all": all, "len": len, "str": str}}
    g.update({k: failure.get(k) for k in ("clause", "detail", "label", "point", "truth", "kinds")})
    return bool(eval(fd["cond"], g))


def check(run, record_expected=False):
    ded = deductive.run_deductive(run, KEYS)
    if record_expected:
        return ded
    from vf.pyvc.verify import preimport_meta

    preimport_meta()
    deductive.add_evaluated(run, ded, sync_ded.main_guards() + sync_ded.file_count_items(), "doctrans.__main__:main")
    deductive.add_evaluated(run, ded, sync_ded.atomicity_items(), "doctrans.emit:file")
    n = 0
    samples = []
    # ---- rejected invocations leave the file system untouched and exit with a usage error
    for tk in P.NAMES:
        for label, build, okkinds in rejected_cases():
            proj = P.Project(tk, "basic", {k: "agreeing" for k in P.NAMES if k != tk})
            try:
                proj.write_initial()
                argv = build(proj)
                before = proj.snapshot()
                kind, detail = _main(argv)
                after = proj.snapshot()
                n += 1
                if len(samples) < 3:
                    samples.append({"rejected": label, "truth": tk, "exit": kind})
                if kind not in okkinds:
                    run.failure("reject/usage-error", "%s (truth %s): expected a usage error, got %s %s" % (label, tk, kind, detail),
                                {"kind": "cli", "clause": "usage-error", "label": label, "truth": tk, "detail": detail})
                if before != after:
                    run.failure("reject/untouched", "%s (truth %s): the file system changed although the invocation was rejected" % (label, tk),
                                {"kind": "cli", "clause": "untouched", "label": label, "truth": tk})
            finally:
                proj.cleanup()
    # ---- accepted combinations run without an internal error
    for tk in P.NAMES:
        others = [k for k in P.NAMES if k != tk]
        for kinds in ([tk, others[0]], [tk, others[1]], [tk] + others):
            proj = P.Project(tk, "basic", {k: "empty" for k in others})
            try:
                proj.write_initial()
                kind, detail = _main(proj.argv(kinds))
                n += 1
                if kind != "ok":
                    run.failure("accept/no-internal-error", "sync --truth %s over %s: %s %s" % (tk, kinds, kind, detail),
                                {"kind": "cli", "clause": "no-internal-error", "truth": tk, "kinds": kinds, "detail": detail})
            finally:
                proj.cleanup()
    # ---- faults during a multi-file operation
    for r in fault_runs(run.tier):
        n += 1
        for fn, head in r["bad"]:
            run.failure("fault/%s" % r["point"], "OSError injected %s at write #%d (truth %s): %s is left truncated / half-written (%r...)" % (
                r["point"], r["k"], r["truth"], fn, head), {"kind": "fault", "clause": r["point"], "point": r["point"], "truth": r["truth"], "detail": fn})
    coverage = {
        "explanation": "DEDUCTIVE: validation dominance in main (guard obligations on the AST: ground_truth / sync_properties / gen are reached only "
                       "after their checks, nothing is written before), emit.file ordering contract (render and format before open, one write), "
                       "_conform_filename effect-log contract, exceptional postcondition of emit.file over the I/O model (truncate-then-write): %d of %d "
                       "discharged. BOUNDED: every rejected invocation class x truth kind (directory snapshot, exit status), accepted two- and three-kind "
                       "combinations, OSError injected before open / mid-write at each target of a multi-file sync." % (ded["discharged"], ded["obligations"]),
        "evaluations": n, "distinct_nontrivial": n, "samples": samples, "exhaustive": True,
        "rule": "rejected classes x truth kinds; accepted kind subsets x truth kinds; fault points x targets",
        "obligations": ded["obligations"], "discharged": ded["discharged"], "functions_under_contract": ded["functions_under_contract"],
        "by_backend": ded["by_backend"],
        "bounded": {"cases": n, "bound": "6 rejected classes, 9 accepted combinations, 8 fault runs"},
    }
    return run.finish("other", coverage, ["crash points are covered through the effect model (open truncates, write may be partial); power loss / rename are not modelled",
                                          "bounded: the enumerated invocations"] + ded["assumed"])
