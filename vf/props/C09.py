"""C09 - sync makes every target agree with the declared truth."""
from vf.props import deductive, sync_common as S

KEYS = ["doctrans.pure_utils:strip_split", "doctrans.conformance:_conform_filename", "vf.contracts.laws:replace_at_location", "doctrans.ast_utils:RewriteAtQuery.generic_visit", "doctrans.ast_utils:get_function_type", "doctrans.conformance:ground_truth", "doctrans.emit:class_"]


def _coverage(ded, results, n_ok, what, bound):
    return {
        "explanation": what % (ded["discharged"], ded["obligations"]),
        "evaluations": len(results), "distinct_nontrivial": len(results), "exhaustive": True,
        "rule": "generated projects: truth kind x interface x function-vs-method x pre-state pairs {missing, empty, absent, stale, agreeing} x with/without surrounding statements; all distinct",
        "samples": [{"truth": r["job"][0], "interface": r["job"][1], "method": r["job"][2], "pre_states": r["job"][3], "surround": r["job"][5]} for r in results[:3]],
        "obligations": ded["obligations"], "discharged": ded["discharged"], "functions_under_contract": ded["functions_under_contract"],
        "by_backend": ded["by_backend"],
        "bounded": {"cases": len(results), "clean": n_ok, "bound": bound},
    }


def check(run, record_expected=False):
    from vf.props import sync_ded

    ded = deductive.run_deductive(run, KEYS)
    if record_expected:
        return ded
    for func, items in sync_ded.c09_items():
        deductive.add_evaluated(run, ded, items, func)
    results = S.run_projects(run.tier)
    n_ok = S.report(run, results, "agree", "sync")
    cov = _coverage(ded, results, n_ok,
                    "DEDUCTIVE: _conform_filename path contract over the effect log (create / append / replace / no-op), the pluralise mapping of the three "
                    "kinds (evaluation), get_function_type: %d of %d discharged. BOUNDED decider: after ground_truth() every target exists, parses, contains the "
                    "named definition, and doctrans' parser reads the truth's names, order, types, prose and defaults from it.",
                    "3 truth kinds x 2-3 interfaces x 25 pre-state pairs (reduced for non-basic) x surround")
    return run.finish("other", cov, ["bounded: generated projects via the Python API"] + ded["assumed"])
