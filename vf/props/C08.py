"""C08 - conversion is a normalisation that stabilises after one pass (t2 == t3)."""
import multiprocessing as mp

from vf import common
from vf.bounded import ir_domain, ir_findings, roundtrip as R, rt_check
from vf.props import deductive, rt_props

KEYS = ["vf.contracts.laws:sdd_twice", "doctrans.emitter_utils:to_docstring", "vf.contracts.laws:quote_twice", "vf.contracts.laws:unquote_quote",
        "doctrans.pure_utils:quote", "doctrans.pure_utils:unquote", "doctrans.ast_utils:set_value",
        "doctrans.defaults_utils:set_default_doc", "doctrans.docstring_parsers:_set_name_and_type"]


def three_emissions(kind, ir, opts):
    texts = []
    cur = ir
    for i in range(3):
        art = R.emit_artifact(kind, R._for_emit(cur) if i else cur, opts)
        texts.append(R.to_source(art))
        if i < 2:
            cur = R.parse_artifact(kind, art, opts)
    return texts


def _work(job):
    kind, oi, opts, label, ir = job
    from vf.pyvc.verify import preimport_meta

    preimport_meta()
    try:
        t = three_emissions(kind, ir, opts)
    except Exception as e:  # noqa
        return kind, oi, label, "%s: %s" % (type(e).__name__, str(e)[:100]), None
    return kind, oi, label, None, t


def check(run, record_expected=False):
    ded = deductive.run_deductive(run, KEYS)
    if record_expected:
        return ded
    from vf.bounded import wrap_worker

    dom = ir_domain.domain(run.tier, run.seed)
    # descriptions whose summary / prose / type strings wrap (several lines, two-line summaries): layout must stabilise too
    for label, ir in wrap_worker.domain(100):
        if ".long" in label:
            continue
        ir = dict(ir, doc=ir["doc"] + "\nSecond summary line.")
        dom.append(("L" + label, ir))
    irs = dict(dom)
    ko = [(k, rt_props.variants(k, run.tier)) for k in R.KINDS]
    jobs = [(k, oi, o, label, ir) for k, ol in ko for oi, o in enumerate(ol) for label, ir in dom]
    ctx = mp.get_context("fork")
    with ctx.Pool(16) as pool:
        res = pool.map(_work, jobs, chunksize=16)
    optmap = {(k, oi): o for k, ol in ko for oi, o in enumerate(ol)}
    n_fixed = n_raise = 0
    distinct = set()
    samples = []
    for kind, oi, label, err, t in res:
        ir, opts = irs[label], optmap[(kind, oi)]
        if ir_domain.nontrivial(ir):
            distinct.add(common.sha([kind, opts, ir]))
        if err:
            n_raise += 1
            c = ir_findings.context(kind, opts, ir, None, exc=err)
            c.update(path="<exception>", field="<exception>")
            run.failure("fix_%s/<exception>" % kind, "three emissions of %s case %s raised %s" % (kind, label, err),
                        {"kind": "fixpoint", "rt_kind": kind, "options": opts, "label": label, "ir": ir,
                         "diff": {"path": "<exception>", "want": "no exception", "got": err}, "_ctx": c})
            continue
        if t[1] == t[2]:
            n_fixed += 1
            if len(samples) < 3 and t[0] != t[1]:
                samples.append({"kind": kind, "options": opts, "t1": t[0][:300], "t2": t[1][:300]})
            continue
        import difflib

        dl = [ln for ln in difflib.unified_diff(t[1].splitlines(), t[2].splitlines(), lineterm="", n=0) if not ln.startswith(("---", "+++", "@@"))]
        c = ir_findings.context(kind, opts, ir, None, exc="\n".join(dl)[:400])
        c.update(path="<drift>", field="<drift>", t2=t[1], t3=t[2])
        run.failure("fix_%s/<drift>" % kind, "second and third emission of %s case %s differ: %s" % (kind, label, dl[:4]),
                    {"kind": "fixpoint", "rt_kind": kind, "options": opts, "label": label, "ir": ir,
                     "diff": {"path": "<drift>", "want": "t2 == t3", "got": dl[:6]}, "_ctx": c})
    for v in run.violations:
        v["payload"].pop("_ctx", None)
    coverage = {
        "explanation": "DEDUCTIVE: idempotence laws (set_default_doc twice == once, quote(quote(s)) == quote(s), unquote(quote(s)) == s, "
                       "set_value strips at most one layer): %d of %d obligations discharged. BOUNDED decider: t1 = emit(ir), "
                       "t_{n+1} = emit(parse(t_n)); t2 == t3 byte for byte for 7 kinds x option vectors over D_IR." % (ded["discharged"], ded["obligations"]),
        "evaluations": len(res), "distinct_nontrivial": len(distinct), "samples": samples, "exhaustive": True,
        "rule": "D_IR x kinds x option vectors, three emissions each",
        "obligations": ded["obligations"], "discharged": ded["discharged"], "functions_under_contract": ded["functions_under_contract"],
        "by_backend": ded["by_backend"], "undecided": ded["undecided"],
        "bounded": {"cases": len(res), "fixed_point": n_fixed, "raised": n_raise, "bound": "D_IR (%d IRs)" % len(dom)},
    }
    return run.finish("other", coverage, ["bounded: D_IR"] + ded["assumed"])
