"""Deductive obligations of C01: style decision (D1), token hygiene (D2), the default-sentence codec (D4 = C17's)."""
KEYS = [
    "doctrans.docstring_parsers:parse_docstring",
    "doctrans.docstring_parsers:_parse_phase_numpydoc_and_google",
    "doctrans.pure_utils:indent_all_but_first",
    "doctrans.defaults_utils:set_default_doc",
    "doctrans.defaults_utils:extract_default",
    "doctrans.emitter_utils:interpolate_defaults",
    "doctrans.docstring_parsers:_infer_default",
    "doctrans.docstring_parsers:_set_name_and_type",
    "doctrans.docstring_parsers:_set_param_values",
    "doctrans.defaults_utils:_remove_default_from_param",
    "doctrans.pure_utils:update_d",
    "doctrans.docstring_utils:emit_param_str",
    "doctrans.emit:docstring",
    "doctrans.docstring_parsers:_parse_phase_rest",
]


def spec_style(text, TOKENS):
    if text is None or any(t in text for t in TOKENS.rest):
        return "rest"
    if any(t in text for t in TOKENS.google):
        return "google"
    return "numpydoc"


def token_hygiene():
    """D2: every header the emitter inserts for style X is read as X and contains no token of a higher-priority style.
    Finite: decided by evaluation over the constants of the real module."""
    from doctrans.docstring_utils import ARG_TOKENS, RETURN_TOKENS, TOKENS

    items = []
    headers = {
        "rest": [":param x: d", ":type x: ```int```", ":returns: d", ":rtype: ```int```"],
        "google": [ARG_TOKENS.google[0], RETURN_TOKENS.google[0]],
        "numpydoc": [ARG_TOKENS.numpydoc[0], RETURN_TOKENS.numpydoc[0]],
    }
    for style, hs in headers.items():
        for h in hs:
            items.append(("D2-detect[%s:%r]" % (style, h[:14]), spec_style("Summary.\n\n" + h + "\n  x", TOKENS) == style,
                          "a %s header is detected as %s" % (style, style), h))
    for t in TOKENS.rest:
        for style in ("google", "numpydoc"):
            for h in headers[style]:
                items.append(("D2-clean[%s in %s]" % (t, style), t not in h, "ReST token %r does not occur in the %s header %r" % (t, style, h), h))
    for t in TOKENS.google:
        for h in headers["numpydoc"]:
            items.append(("D2-clean[%s in numpydoc]" % t, t not in h, "google token %r does not occur in the numpydoc header %r" % (t, h), h))
    items.append(("D2-arg-rest", ":param" in ARG_TOKENS.rest and ":type" in ARG_TOKENS.rest, "the ReST emitter's keys are ReST argument tokens", list(ARG_TOKENS.rest)))
    items.append(("D2-ret-rest", any(":returns:".startswith(t) for t in RETURN_TOKENS.rest) and any(":rtype:".startswith(t) for t in RETURN_TOKENS.rest),
                  "the ReST emitter's return keys start with ReST return tokens", list(RETURN_TOKENS.rest)))
    return items


def bounded(run):
    return {}
