"""C17 - default values survive the trip through prose (DESIGN section 8, C17)."""
import itertools
import random

from vf import common, findings
from vf.bounded import contract_rt
from vf.props import deductive

KEYS = [
    "doctrans.pure_utils:unquote", "doctrans.pure_utils:quote", "doctrans.pure_utils:code_quoted",
    "doctrans.pure_utils:location_within", "vf.contracts.laws:quote_twice", "vf.contracts.laws:unquote_quote",
    "doctrans.defaults_utils:extract_default", "doctrans.defaults_utils:needs_quoting",
    "doctrans.defaults_utils:set_default_doc", "vf.contracts.laws:sdd_twice", "doctrans.emitter_utils:interpolate_defaults",
]
PHRASES = ("Defaults to ", "defaults to ", "Default value is ", "Default: ", "Defaults to\n")
PROSE = ("the x", "The x.", "a, b (c) and `d`,", "uses 2.5 sigma.", "Some default behaviour applies", "")
VALUE_TEXTS = ("5", "-5", "0", "-0", "+3", "2.5", "-0.5", "1e-3", "True", "False", "None", "mnist", "'quoted'", '"dq"',
               "[1, 2]", "(1, 2)", "{'a': 1}", "foo(1, 2)", "```np.ones(3)```", "a.b", "x_y", "")
SUFFIX = ("", ".", ". More prose", ".\n", " ")


def ed_corpus(tier, seed):
    out = []
    typs = (None, "str", "int", "float", "bool")
    for ph, pr, vt, sf in itertools.product(PHRASES, PROSE, VALUE_TEXTS, SUFFIX):
        line = (pr + " " if pr else "") + ph + vt + sf
        out.append({"line": line, "emit_default_doc": True})
        out.append({"line": line, "emit_default_doc": False})
    base = list(out)
    rnd = random.Random(1234)
    compat = {"int": ("5", "-5", "0", "-0", "+3"), "float": ("2.5", "-0.5", "1e-3", "5"), "bool": ("True", "False"),
              "str": ("mnist", "'quoted'", '"dq"', "x_y")}
    for ph, pr, sf in itertools.product(PHRASES, PROSE[:3], SUFFIX[:3]):
        for typ, texts in compat.items():
            for vt in texts:
                line = (pr + " " if pr else "") + ph + vt + sf
                out.append({"line": line, "emit_default_doc": True, "typ": typ})
    for kw in rnd.sample(base, 100):
        out.append(dict(kw, rstrip_default=False, emit_default_doc=False))
    for pr in PROSE + ("default", "by default it is on", "DEFAULTS", "the defaults are fine"):
        out.append({"line": pr, "emit_default_doc": True})
        out.append({"line": pr, "emit_default_doc": False})
    out.append({"line": None})
    if tier != "thorough":
        rnd2 = random.Random(99)
        keep = rnd2.sample(out[: len(base)], 900) + out[len(base):]
        out = keep
    else:
        r3 = random.Random(seed)
        alphabet = "ab .,()[]`'\"-+015eTrue\n"
        for _ in range(1500):
            vt = "".join(r3.choice(alphabet) for _ in range(r3.randint(0, 7)))
            out.append({"line": "x. " + r3.choice(PHRASES) + vt + r3.choice(SUFFIX), "emit_default_doc": r3.random() < 0.5})
    return out


def _cf_eq(a, b):
    return a.casefold() == b.casefold()


def lw_corpus(tier, seed):
    """location_within on small strings (all strings over {a,B,' '} up to length 4 x token tuples), cmp in {==, casefold-==}"""
    import operator

    out = []
    alphabet = "aB "
    conts = [""]
    for n in range(1, 5):
        conts += ["".join(t) for t in itertools.product(alphabet, repeat=n)]
    toks = [("a",), ("ab",), ("b ", "a"), ("aB", "b"), ("a b", " b", "b"), ("B", "ab", "a ", "  ")]
    for c in conts:
        for tk in toks:
            out.append({"container": c, "iterable": tk, "cmp": _cf_eq})
            if tier == "thorough":
                out.append({"container": c, "iterable": tk, "cmp": operator.eq})
    return out


VALUES = (5, -5, 0, 3, 2.5, -0.5, 0.001, True, False, None, "mnist", "", "a b", "[1, 2]", "(1, 2)", "foo(1, 2)", "x_y",
          "a.b", "```np.ones(3)```", "```(np.empty(0), np.empty(0))```")
TYPES = (None, "str", "int", "float", "bool", "Optional[str]", "List[int]", "Union[int, str]")


def rt_corpus(tier, seed):
    out = []
    for pr, v, typ in itertools.product([p for p in PROSE if p], VALUES, TYPES):
        # type must be able to describe the value (the supported domain of the property)
        if typ in ("str", "Optional[str]") and not (isinstance(v, str) or v is None):
            continue
        if typ == "int" and (type(v) is not int):
            continue
        if typ == "float" and type(v) is not float:
            continue
        if typ == "bool" and type(v) is not bool:
            continue
        if typ == "List[int]" and not (isinstance(v, str) and v.startswith("[")):
            continue
        if typ == "Union[int, str]" and not isinstance(v, (int, str)):
            continue
        out.append({"prose": pr, "value": v, "typ": typ})
    return out


def _roundtrip_one(case):
    """C17-L on the real functions: render the sentence, read it back, remove it."""
    from copy import deepcopy

    from doctrans.defaults_utils import set_default_doc
    from doctrans.emitter_utils import interpolate_defaults

    pr, v, typ = case["prose"], case["value"], case["typ"]
    p = {"doc": pr, "default": v}
    if typ is not None:
        p["typ"] = typ
    fails = []
    try:
        _, p1 = set_default_doc(("x", deepcopy(p)), emit_default_doc=True)
        doc1 = p1["doc"]
        q = {"doc": doc1}
        if typ is not None:
            q["typ"] = typ
        _, p2 = interpolate_defaults(("x", deepcopy(q)), emit_default_doc=True)
        _, p3 = interpolate_defaults(("x", deepcopy(q)), emit_default_doc=False)
    except Exception as e:  # noqa
        return [{"clause": "RT-noraise", "text": "render/extract raised %s: %s" % (type(e).__name__, str(e)[:120])}], None
    want = v
    got = p2.get("default", "<absent>")
    if v is None:
        # the IR spells None three ways (doctrans.pure_utils.none_types); all of them mean None
        okv = got in ("<absent>", None, "None", "```(None)```")
    else:
        # the back-tick wrapper of an *expression* default is representation noise (DESIGN 4, oracle rule 3)
        unb = lambda t: t[3:-3] if isinstance(t, str) and len(t) > 6 and t.startswith("```") and t.endswith("```") else t
        okv = type(got) is type(want) and unb(got) == unb(want)
    if not okv:
        fails.append({"clause": "RT-value", "text": "rendered %r, extracted %r (%s), wanted %r (%s)" % (doc1, got, type(got).__name__, want, type(want).__name__)})
    if p2.get("doc") != doc1:
        fails.append({"clause": "RT-keep", "text": "with default text kept, prose changed: %r -> %r" % (doc1, p2.get("doc"))})
    prose_dot = pr if pr[-1] in ".," else pr + "."
    if p3.get("doc") not in (pr, prose_dot):
        fails.append({"clause": "RT-remove", "text": "removal returned %r for prose %r (rendered %r)" % (p3.get("doc"), pr, doc1)})
    return fails, doc1


def _rt_worker(case):
    from vf.pyvc import verify

    verify.preimport_meta()
    fails, doc1 = _roundtrip_one(case)
    return {"case": case, "failed": fails, "rendered": doc1}


@findings.matcher("c17_value_text_stops_at_dot")
def _m_dot(failure, fd):
    """value text with a full stop followed by a non-digit outside brackets (finding 10)"""
    import re

    t = failure.get("value_text")
    if t is None:
        return False
    depth = 0
    for i, ch in enumerate(t):
        if ch in "([{":
            depth += 1
        elif ch in ")]}":
            depth -= 1
        elif ch == "." and depth <= 0 and (i == len(t) - 1 or not t[i + 1].isdigit()) and i < len(t) - 1:
            return True
    return False


def check(run, record_expected=False):
    import multiprocessing as mp

    ded = deductive.run_deductive(run, KEYS)
    if not record_expected:
        from vf.props import C02
        deductive.add_evaluated(run, ded, C02.nq_scalars(), "doctrans.defaults_utils:needs_quoting")  # the ast-walk half of needs_quoting, by evaluation
    if record_expected:
        return ded
    # ---- bounded companion: the same contracts at run time
    from vf.pyvc import driver

    reg = driver.load_registry()
    b_cases = b_fail = b_mis = 0
    distinct = set()
    samples = []
    ghostless = 0
    small = [""]
    for n in range(1, 5 if run.tier == "quick" else 6):
        small += ["".join(t) for t in itertools.product("a'" + '"`', repeat=n)]
    small += ["```abc```", "```a```", "'''", "``````", "```` ```", "'a" + '"', '"a' + "'"]
    corpora = {"doctrans.defaults_utils:extract_default": ed_corpus(run.tier, run.seed),
               "doctrans.pure_utils:location_within": lw_corpus(run.tier, run.seed),
               "doctrans.pure_utils:unquote": [{"input_str": x} for x in small] + [{"input_str": None}],
               "doctrans.pure_utils:quote": [{"s": x} for x in small] + [{"s": None}] + [{"s": x, "mark": "'"} for x in small[:60]],
               "doctrans.pure_utils:code_quoted": [{"s": x} for x in small] + [{"s": None}, {"s": 5}],
               "vf.contracts.laws:quote_twice": [{"s": x} for x in small],
               "vf.contracts.laws:unquote_quote": [{"s": x} for x in small]}
    for key, corpus in corpora.items():
        for rec in contract_rt.run_corpus(key, corpus):
            if rec["case"] is None:
                continue
            b_cases += 1
            distinct.add(common.sha(rec["kwargs"]))
            if rec.get("ghostless"):
                ghostless += 1
            if rec["mismatch"]:
                b_mis += 1
                run.fault("engine/CPython disagreement on %s %r: %s" % (key, rec["kwargs"], rec["mismatch"]))
                continue
            if len(samples) < 3:
                samples.append({"function": key, "input": rec["kwargs"], "result": rec.get("value")})
            for f in rec["failed"]:
                b_fail += 1
                run.failure("%s/%s" % (key, f["clause"]), "contract clause %s fails on the real code: %s for %r -> %s" % (
                    f["clause"], f["text"], rec["kwargs"], rec.get("value")),
                    {"kind": "contract", "func": key, "clause": f["text"], "input": {k: repr(v) for k, v in rec["kwargs"].items()},
                     "observed": rec.get("value")})
    # ---- C17-L, bounded: render -> extract -> remove on the real functions
    rt = rt_corpus(run.tier, run.seed)
    ctx = mp.get_context("fork")
    with ctx.Pool(16) as pool:
        rt_res = pool.map(_rt_worker, rt, chunksize=8)
    rt_fail = 0
    for rec in rt_res:
        b_cases += 1
        distinct.add(common.sha(rec["case"]))
        if len(samples) < 6 and not rec["failed"]:
            samples.append({"roundtrip": rec["case"], "rendered": rec["rendered"]})
        for f in rec["failed"]:
            rt_fail += 1
            vt = rec["case"]["value"]
            run.failure("C17-L/%s" % f["clause"], "round trip %r: %s" % (rec["case"], f["text"]),
                        {"kind": "roundtrip", "input": rec["case"], "value_text": vt if isinstance(vt, str) else repr(vt), "detail": f["text"]})
    proved = ded["obligations"] == ded["discharged"]
    level = "proof"
    coverage = {
        "obligations": ded["obligations"],
        "discharged": ded["discharged"],
        "checker_cmd": "./check C17 --tier %s  (pyvc: ast -> VCs from /repo's working tree; z3 5.1 / z3 4.8.12 / cvc5 1.0.3 portfolio)" % run.tier,
        "trusted_base": [
            "pyvc itself (VC generator, string models) - guarded by the per-run CPython cross-check and canaries, not proved",
            "z3 / cvc5",
            "CPython semantics as encoded (DESIGN 11): ASCII digits/casefold, mathematical integers, floats abstract",
        ] + ded["assumed"],
        "explanation": "function contracts (unquote/quote/code_quoted/location_within/extract_default/needs_quoting/set_default_doc and the "
                       "idempotence / inverse laws) are discharged deductively for all inputs of their cases; the property-level round-trip "
                       "lemma C17-L and the same contracts on an enumerated corpus are the BOUNDED companion (never counted in obligations)",
        "by_backend": ded["by_backend"],
        "solver_ms_total": ded["solver_ms_total"],
        "functions_under_contract": ded["functions_under_contract"],
        "undecided": ded["undecided"],
        "cover_checks": ded["cover_checks"],
        "canaries_refuted": ded["canaries_refuted"],
        "samples": ded["samples"] + samples,
        "bounded": {
            "cases": b_cases, "distinct_nontrivial": len(distinct), "contract_clause_failures": b_fail, "roundtrip_failures": rt_fail,
            "engine_cpython_crosscheck_cases": b_cases - len(rt) - ghostless, "engine_mismatches": b_mis,
            "bound": "extract_default: %d phrases x %d prose x %d value texts x %d suffixes x removal on/off (sampled in quick), typ in "
                     "{None,str,int,float,bool}; round trip: %d prose x %d values x %d types" % (
                         len(PHRASES), len(PROSE), len(VALUE_TEXTS), len(SUFFIX), len(PROSE) - 1, len(VALUES), len(TYPES)),
        },
        "evaluations": b_cases,
        "distinct_nontrivial": len(distinct),
        "rule": "bounded part: enumerated (prose, phrase, value text, suffix, typ, removal) tuples; distinct by hash of the input",
    }
    if not proved:
        level = "other"
        coverage["explanation"] = "NOT all obligations discharged this run (%d of %d): level drops to bounded. " % (
            ded["discharged"], ded["obligations"]) + coverage["explanation"]
    return run.finish(level, coverage, ["bounded companion is bounded by the stated corpus"] + ded["assumed"])
