"""C01-C04: round-trip properties = deductive obligations on the anchored mechanisms + bounded rt contracts on D_IR."""
from vf import common
from vf.bounded import ir_domain, roundtrip as R, rt_check
from vf.props import deductive


def variants(kind, tier):
    base = R.default_opts(kind)
    out = [base]

    def v(**kw):
        o = dict(base)
        o.update(kw)
        out.append(o)

    if kind in R.STYLES:
        v(word_wrap=False)
        v(emit_default_doc=False)
    elif kind == "class":
        v(word_wrap=False)
        v(emit_default_doc=False)
        if tier == "thorough":
            v(word_wrap=False, emit_default_doc=False)
    elif kind in ("function", "method"):
        v(inline_types=False)
        v(emit_as_kwonlyargs=False)
        v(emit_default_doc=False)
        v(indent_level=0)
        v(function_type="cls" if kind == "method" else "static", indent_level=2, emit_as_kwonlyargs=False, inline_types=False)
        if tier == "thorough":
            for it in (True, False):
                for kw in (True, False):
                    for il in (0, 1, 2):
                        for edd in (True, False):
                            v(inline_types=it, emit_as_kwonlyargs=kw, indent_level=il, emit_default_doc=edd)
    elif kind == "argparse":
        v(word_wrap=False)
        v(emit_default_doc=False)
    # de-duplicate
    seen, uniq = set(), []
    for o in out:
        k = common.sha(o)
        if k not in seen:
            seen.add(k)
            uniq.append(o)
    return uniq


def check_rt(run, pid, kinds, ded_keys, title, extra_bounded=None, evaluated=None, record_expected=False):
    ded = deductive.run_deductive(run, ded_keys) if ded_keys else None
    if record_expected:
        return ded
    if ded is not None and evaluated:
        for func, items in evaluated:
            deductive.add_evaluated(run, ded, items, func)
    st = rt_check.run_roundtrips(run, pid, [(k, variants(k, run.tier)) for k in kinds], run.tier, run.seed)
    extra = extra_bounded(run) if extra_bounded else {}
    coverage = {
        "explanation": "%s. DEDUCTIVE part: %s. BOUNDED part (decides the whole-conversion postcondition, never counted as proved): "
                       "contract rt_<kind>(ir, options) == oracle(ir) evaluated on the real emit/parse functions for every IR of D_IR "
                       "(%d IRs: all single-parameter atoms, ordered pairs over the reduced atom set, covering triples, **kwargs rows) x %d "
                       "option vectors; every diff entry must be explained by a listed finding or is a VIOLATION." % (
                           title,
                           ("%d obligations, %d discharged, on %s" % (ded["obligations"], ded["discharged"], ", ".join(sorted(ded["functions_under_contract"])))) if ded else "none for this property",
                           st["domain_size"], sum(len(variants(k, run.tier)) for k in kinds)),
        "evaluations": st["cases"],
        "distinct_nontrivial": st["distinct_nontrivial"],
        "rule": "bounded-exhaustive D_IR (vf/bounded/ir_domain.py) x option vectors; non-trivial = at least one parameter or a return entry; distinct by hash of (kind, options, IR)",
        "samples": st["samples"][:3],
        "exhaustive": True,
        "bounded": {"cases": st["cases"], "pass": st["pass"], "fail": st["fail"], "per_kind": st["per_kind"],
                    "bound": "D_IR as enumerated; string lengths / parameter counts are those of the atoms (<= 3 parameters)"},
    }
    coverage["bounded"].update(extra)
    assumptions = ["the whole-conversion postcondition is decided by a BOUNDED check (D_IR), not proved",
                   "oracle normalisations are those named in the property statement (N_class, N_argparse) plus representation noise "
                   "listed in DESIGN.md section 4"]
    if ded:
        coverage.update({"obligations": ded["obligations"], "discharged": ded["discharged"], "by_backend": ded["by_backend"],
                         "solver_ms_total": ded["solver_ms_total"], "functions_under_contract": ded["functions_under_contract"],
                         "undecided": ded["undecided"], "checker_cmd": "./check %s" % pid,
                         "trusted_base": ["pyvc (cross-checked against CPython)", "z3/cvc5"] + ded["assumed"]})
        assumptions += ded["assumed"]
    return run.finish("other", coverage, assumptions)
