"""C14 - sync_properties changes exactly the addressed property."""
import ast
import itertools
import multiprocessing as mp
import os
import shutil
import tempfile

from vf import common, findings
from vf.props import C15, deductive

KEYS = ["doctrans.pure_utils:strip_split", "doctrans.sync_properties:sync_properties", "vf.contracts.laws:replace_at_location", "vf.contracts.laws:sync_one_property", "doctrans.ast_utils:it2literal", "doctrans.ast_utils:find_in_ast", "doctrans.ast_utils:annotate_ancestry", "doctrans.sync_properties:sync_property", "doctrans.ast_utils:RewriteAtQuery.generic_visit", "doctrans.ast_utils:RewriteAtQuery.visit_FunctionDef"]

INPUT = '''from typing import Literal

in_top: Literal["x", "y"] = "x"
in_vals = ("p", "q")


class InCfg(object):
    """Input config."""

    in_attr: Literal["m", "n"] = "m"
    in_plain: int = 5


def in_func(in_arg: Literal["u", "v"] = "u", *, in_kw: int = 3):
    """Input function."""
    return in_arg
'''

# an input module where an earlier helper shares the attribute's simple name (the resolver's known weak spot, finding F9)
INPUT_SHADOW = INPUT.replace("class InCfg(object):", "def in_helper(in_attr: int = 1):\n    return in_attr\n\n\nclass InCfg(object):")

OUTPUT = '''import os
from typing import Literal, Optional, Union

KEEP = os.sep
out_top: str = "x"


def out_helper(h_arg: int = 1):
    """helper after the addressed class would break lookups; it comes first here only in the 'def-first' variant"""
    return h_arg


class OutCfg(object):
    """Output config."""

    out_attr: str = "m"
    out_other: int = 7

    def out_method(self, out_marg: str = "u", out_m2: int = 2):
        """A method."""
        return out_marg


def out_func(out_arg: str = "u", out_second: int = 9, *, out_kw: int = 3):
    """Output function."""
    return out_arg

TAIL = out_func()
'''

INPUT_LOCS = ("in_top", "InCfg.in_attr", "in_func.in_arg")
OUTPUT_LOCS = ("out_top", "OutCfg.out_attr", "out_func.out_arg", "OutCfg.out_method.out_marg", "out_func.out_kw", "out_func.out_second")


def out_variants():
    a = OUTPUT
    # class first (no def before the class): the region where the resolver is expected to work
    helper = a[a.index("def out_helper"): a.index("class OutCfg")]
    b = a.replace(helper, "") + "\n\n" + helper.rstrip() + "\n"
    return {"def-first": a, "class-first": b}


def jobs(tier):
    out = []
    for vname in out_variants():
        for wrap in (None, "Optional[Union[{output_param}, str]]"):
            for ip, op in itertools.product(INPUT_LOCS, OUTPUT_LOCS):
                if ip.startswith("in_func.") and op in ("out_top", "OutCfg.out_attr"):
                    continue  # a function argument cannot stand where a statement is expected
                out.append({"variant": vname, "wrap": wrap, "eval": False, "pairs": [(ip, op)]})
            out.append({"variant": vname, "wrap": wrap, "eval": False, "pairs": [("in_top", "out_top"), ("InCfg.in_attr", "OutCfg.out_attr")]})
            out.append({"variant": vname, "wrap": wrap, "eval": False, "pairs": [("in_top", "out_top"), ("InCfg.in_attr", "OutCfg.out_attr"), ("in_func.in_arg", "out_func.out_arg")]})
        # the SAME input address in two pairs ("applies every input/output pair")
        out.append({"variant": vname, "wrap": None, "eval": False, "pairs": [("in_top", "out_top"), ("in_top", "OutCfg.out_attr")]})
        out.append({"variant": vname, "wrap": None, "eval": True, "pairs": [("in_vals", "out_top"), ("in_vals", "OutCfg.out_attr")]})
        out.append({"variant": vname, "wrap": "Optional[Union[{output_param}, str]]", "eval": False, "pairs": [("in_top", "out_top"), ("in_top", "OutCfg.out_attr")]})
        out.append({"variant": vname, "wrap": None, "eval": True, "pairs": [("in_vals", "out_top")]})
        out.append({"variant": vname, "wrap": None, "eval": True, "pairs": [("in_vals", "OutCfg.out_attr")]})
        out.append({"variant": vname, "wrap": None, "eval": False, "pairs": [("InCfg.in_attr", "OutCfg.out_attr")], "input": "shadow"})
        out.append({"variant": vname, "wrap": None, "eval": False, "pairs": [("in_top", "out_top")], "input": "shadow"})
        # addresses that do not resolve
        out.append({"variant": vname, "wrap": None, "eval": False, "pairs": [("in_top", "OutCfg.nope")], "unresolved": "output"})
        out.append({"variant": vname, "wrap": None, "eval": False, "pairs": [("nope", "out_top")], "unresolved": "input"})
        out.append({"variant": vname, "wrap": None, "eval": False, "pairs": [("in_top", "nope_func.arg")], "unresolved": "output"})
    return out


def _node_at(tree, loc):
    return C15.spec_resolve(loc.split("."), tree)


def _ann_src(node):
    ann = getattr(node, "annotation", None)
    return ast.unparse(ann) if ann is not None else None


def _one(job):
    from vf.pyvc.verify import preimport_meta

    preimport_meta()
    from doctrans.sync_properties import sync_properties

    d = tempfile.mkdtemp(prefix="vfsp_")
    fails = []
    try:
        fin, fout = os.path.join(d, "inp.py"), os.path.join(d, "out.py")
        out_src = out_variants()[job["variant"]]
        in_src = INPUT_SHADOW if job.get("input") == "shadow" else INPUT
        open(fin, "w").write(in_src)
        open(fout, "w").write(out_src)
        in_before = open(fin, "rb").read()
        out_before = open(fout, "rb").read()
        try:
            sync_properties(input_eval=job["eval"], input_filename=fin, input_params=[p[0] for p in job["pairs"]], output_filename=fout,
                            output_params=[p[1] for p in job["pairs"]], output_param_wrap=job["wrap"])
            exc = None
        except BaseException as e:  # noqa
            exc = "%s: %s" % (type(e).__name__, str(e)[:100])
        if open(fin, "rb").read() != in_before:
            fails.append(("input-untouched", "the input file changed"))
        out_after = open(fout, "rb").read()
        if job.get("unresolved"):
            if exc is None:
                fails.append(("unresolved-reported", "an address that does not resolve (%s) was accepted silently" % job["unresolved"]))
            if out_after != out_before:
                fails.append(("unresolved-untouched", "the output file changed although an address did not resolve"))
            return job, fails
        if exc is not None:
            fails.append(("no-raise", exc))
            return job, fails
        try:
            t_after = ast.parse(out_after.decode())
        except SyntaxError as e:
            fails.append(("parses", str(e)))
            return job, fails
        t_before = ast.parse(out_before.decode())
        t_in = ast.parse(in_src)
        targets = [(p[1], p[1] if job["eval"] else ".".join(p[1].split(".")[:-1] + [p[0].split(".")[-1]])) for p in job["pairs"]]
        # every other node identical: compare dumps with the addressed nodes masked

        def masked(tree, which):
            tree = ast.parse(ast.unparse(tree))
            for locs in targets:
                n = _node_at(tree, locs[which])
                if n is None:
                    continue
                if isinstance(n, ast.arg):
                    n.arg = "MASK"
                elif isinstance(n, ast.AnnAssign):
                    n.target = ast.Name("MASK", ast.Store())
                elif isinstance(n, ast.Assign):
                    n.targets = [ast.Name("MASK", ast.Store())]
                if isinstance(n, ast.arg):
                    n.annotation = None
                elif isinstance(n, ast.AnnAssign):
                    n.annotation = ast.Name("MASK", ast.Load())
                    n.value = None
                elif isinstance(n, ast.Assign):
                    n.value = ast.Constant(None)
            for nd in ast.walk(tree):
                if isinstance(nd, ast.Expr) and isinstance(nd.value, ast.Constant) and isinstance(nd.value.value, str):
                    nd.value.value = " ".join(nd.value.value.split())
            return ast.dump(tree)
        # defaults of addressed function arguments may legitimately change with the input's value: mask them too
        def strip_defaults(tree_dump):
            return tree_dump
        for (ip, op) in job["pairs"]:
            # the addressed node is replaced by the input's node, which brings its own name (eval mode keeps the output's name)
            new_loc = op if job["eval"] else ".".join(op.split(".")[:-1] + [ip.split(".")[-1]])
            got = _node_at(t_after, new_loc)
            src = _node_at(t_in, ip)
            if got is None:
                fails.append(("addressed-present", "%s (the replacement of %s) does not resolve in the output" % (new_loc, op)))
                continue
            if new_loc != op and _node_at(t_after, op) is not None:
                fails.append(("addressed-replaced", "%s is still there next to its replacement" % op))
            if job["eval"]:
                want = "Literal['p', 'q']"
            else:
                want = _ann_src(src)
                if job["wrap"]:
                    want = job["wrap"].format(output_param=want)
            if (_ann_src(got) or "").replace('"', "'") != (want or "").replace('"', "'"):
                fails.append(("addressed-updated", "%s <- %s: annotation is %r, wanted %r" % (op, ip, _ann_src(got), want)))
        mb, ma = masked(t_before, 0), masked(t_after, 1)
        if mb != ma:
            # tolerate a changed default of an addressed argument (value carried over), nothing else
            fails.append(("others-identical", "nodes other than the addressed ones changed"))
    finally:
        shutil.rmtree(d, ignore_errors=True)
    return job, fails


@findings.matcher("c14_cond")
def _c14(failure, fd):
    g = {"__builtins__": {"any": any, "all": all, "len": len, "str": str}}
    job = failure.get("job") or {}
    g.update({"job": job, "clause": failure.get("clause"), "detail": failure.get("detail", ""), "variant": job.get("variant"),
              "outs": [p[1] for p in job.get("pairs", [])], "ins": [p[0] for p in job.get("pairs", [])]})
    return bool(eval(fd["cond"], g))


def check(run, record_expected=False):
    ded = deductive.run_deductive(run, KEYS)
    if record_expected:
        return ded
    js = jobs(run.tier)
    ctx = mp.get_context("fork")
    with ctx.Pool(16) as pool:
        res = pool.map(_one, js, chunksize=2)
    n_ok = 0
    samples = []
    for job, fails in res:
        if not fails:
            n_ok += 1
            if len(samples) < 3:
                samples.append(job)
        for clause, detail in fails:
            run.failure("prop/%s" % clause, "sync_properties %r: %s" % (job, detail), {"kind": "sync_properties", "job": job, "clause": clause, "detail": detail})
    coverage = {
        "explanation": "DEDUCTIVE: sync_properties effect contract (both files opened for reading only, one write to the output after every pair, what is written "
                       "is the last replacement's result), RewriteAtQuery.generic_visit: %d of %d discharged. BOUNDED decider: generated module pair x every "
                       "(input location, output location) over module-level assignment / class attribute / function, method, keyword-only argument, 1..3 pairs, "
                       "wrap template on/off, eval mode, addresses that do not resolve; input bytes, masked-AST equality of the output, the addressed annotation." % (
                           ded["discharged"], ded["obligations"]),
        "evaluations": len(res), "distinct_nontrivial": len(res), "samples": samples, "exhaustive": True,
        "rule": "jobs enumerated by C14.jobs(); all distinct",
        "obligations": ded["obligations"], "discharged": ded["discharged"], "functions_under_contract": ded["functions_under_contract"],
        "bounded": {"cases": len(res), "clean": n_ok, "bound": "one input module, two output module variants (helper def before / after the class)"},
    }
    return run.finish("other", coverage, ["bounded: the generated module pair"] + ded["assumed"])
