"""C10 - sync is idempotent, never edits the truth, and reports changes truthfully."""
from vf.props import C09, deductive, sync_common as S

KEYS = ["doctrans.conformance:_conform_filename", "vf.contracts.laws:replace_at_location", "doctrans.ast_utils:find_in_ast", "doctrans.ast_utils:annotate_ancestry", "doctrans.emit:file", "doctrans.conformance:ground_truth"]


def check(run, record_expected=False):
    from vf.props import sync_ded

    ded = deductive.run_deductive(run, KEYS)
    if record_expected:
        return ded
    for func, items in sync_ded.c10_items():
        deductive.add_evaluated(run, ded, items, func)
    results = S.run_projects(run.tier, newline_variants=(True, False, "blank"))
    n_ok = S.report(run, results, "idem", "idem")
    cov = C09._coverage(ded, results, n_ok,
                        "DEDUCTIVE: on every path of _conform_filename the returned flag equals 'the effect log contains a write to this file' and only the "
                        "named file is written (C10.D1 / D2): %d of %d discharged. BOUNDED decider: byte snapshots before / after a first and a second sync; the "
                        "truth file's bytes; returned report vs bytes.",
                        "histories of 2 syncs from every generated pre-state combination")
    return run.finish("other", cov, ["bounded: histories of length 2"] + ded["assumed"])
