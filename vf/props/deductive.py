"""Deductive part of a property check: contracts -> obligations -> verdicts -> Run failures + evidence counts."""
import json
import os
import time
from collections import Counter

from vf import common
from vf.pyvc import driver

EXPECTED = os.path.join(common.VERIF, "vf", "contracts", "expected_discharged.json")


def _okey(o, func):
    """stable key of an obligation: function + case-independent clause / kind"""
    return "%s::%s::%s" % (func, o["kind"], o.get("clause") or o["note"][:80])


def _short(reason, n=200):
    """head and tail of a long reason (the solver runs of the last phase are at the end)"""
    return reason if len(reason) <= 2 * n else reason[:n] + " ... " + reason[-n:]


def load_expected():
    try:
        with open(EXPECTED) as f:
            return set(json.load(f))
    except Exception:
        return set()


def add_evaluated(run, ded, items, func):
    """finite obligations decided by evaluation over the real module's constants: [(id, holds, text, witness)]"""
    for oid, holds, text, witness in items:
        ded["obligations"] += 1
        if holds:
            ded["discharged"] += 1
            ded["by_backend"]["evaluation"] = ded["by_backend"].get("evaluation", 0) + 1
        else:
            run.failure("%s/%s" % (func, oid), "evaluated obligation %s fails: %s (%r)" % (oid, text, witness),
                        {"kind": "evaluation", "func": func, "clause": text, "input": witness})
    return ded


def run_companion(run, keys, functions):
    """BOUNDED runtime companion (never counted as proved): the same contract clauses evaluated by CPython on the real functions over the
    enumerated corpora of vf/contracts/corpora.py; each record is also an engine / CPython cross-check (disagreement = checker fault)"""
    from vf.bounded import contract_rt
    from vf.contracts.corpora import CORPORA

    total = {"cases": 0, "failures": 0, "engine_mismatches": 0, "crosschecked": 0}
    registry = driver.load_registry()
    for key in keys:
        if key in CORPORA:
            corpus = CORPORA[key](run.tier, run.seed)
        elif key in registry:
            corpus = contract_rt.auto_corpus(registry[key])
        else:
            continue
        # contracts over opaque calls have no CPython counterpart of their effect log: for them the engine is not compared, only the clauses that speak about
        # arguments and result are evaluated on the real composite
        opq = getattr(registry[key], "opaque", None) or {}
        use_engine = key in CORPORA or not opq
        if not use_engine and (any(sp.get("effect") for sp in opq.values()) or any(n in opq for n in ("open", "print", "emit.file", ".write", ".read"))):
            continue  # contracts about file-system effects are never run for real on made-up arguments (their bounded stand-in is the generated-project harness)
        n = fails = cross = 0
        for rec in contract_rt.run_corpus(key, corpus, use_engine=use_engine):
            if rec["case"] is None:
                continue
            n += 1
            if rec["mismatch"]:
                total["engine_mismatches"] += 1
                run.fault("engine/CPython disagreement on %s %r: %s" % (key, rec["kwargs"], rec["mismatch"]))
                continue
            if not rec.get("ghostless"):
                cross += 1
            for f in rec["failed"]:
                fails += 1
                run.failure("%s/%s" % (key, f["clause"]), "contract clause %s fails on the real code: %s for %r -> %s" % (
                    f["clause"], f["text"], rec["kwargs"], rec.get("value")),
                    {"kind": "contract", "func": key, "clause": f["text"], "input": {k: repr(v) for k, v in rec["kwargs"].items()},
                     "observed": rec.get("value")})
        if key in functions:
            functions[key]["bounded_companion"] = {"corpus": len(corpus), "in_contract_domain": n, "clause_failures": fails, "engine_cpython_crosschecked": cross}
        total["cases"] += n
        total["failures"] += fails
        total["crosschecked"] += cross
    return total


def run_deductive(run, keys, budget=None, only=None, companion=True):
    """returns dict for the evidence file; reports failures on `run`"""
    budget = budget or (10 if run.tier == "quick" else 40)
    t0 = time.time()
    registry = driver.load_registry()
    reps = driver.run_contracts(keys, budget=budget, only=only)
    expected = load_expected()
    obligations = discharged = 0
    by_backend = Counter()
    undecided = []
    functions = {}
    solver_ms = 0
    assumed = set()
    covers = canaries_refuted = 0
    canary_funcs = {}
    samples = []
    all_keys_discharged = set()
    per_key_status = {}
    aborted = set()
    for r in reps:
        func = r["func"]
        if r.get("error"):
            run.fault("engine error in %s[%s]: %s" % (func, r["case"], r["error"][-300:]))
            continue
        functions.setdefault(func, {"src_hash": r.get("src_hash"), "ast_hash": r.get("ast_hash"), "cases": {}, "note": registry[func].note})
        functions[func]["cases"][r["case"]] = r.get("paths")
        assumed |= set(r.get("assumed") or [])
        for o in r["obligations"]:
            k = _okey(o, func)
            if o["kind"] == "canary":
                cf = canary_funcs.setdefault(func, {"non_discharged": 0, "total": 0})
                if o["status"] != "skipped":
                    cf["total"] += 1
                    if o["status"] != "discharged":
                        cf["non_discharged"] += 1
                        canaries_refuted += 1
                continue
            if o["kind"] == "cover":
                covers += 1
                if o["status"] == "refuted":
                    run.fault("vacuous precondition: %s" % o["id"])
                continue
            obligations += 1
            solver_ms += o.get("ms") or 0
            st = o["status"]
            per_key_status.setdefault(k, []).append(st)
            if st == "discharged":
                discharged += 1
                by_backend[o.get("backend") or "?"] += 1
                if len(samples) < 6:
                    samples.append({"id": o["id"], "kind": o["kind"], "clause": o["note"][:160], "backend": o.get("backend"), "ms": o.get("ms")})
            elif st == "refuted":
                rp = o.get("replay") or {}
                run.failure("%s/%s" % (func, o.get("clause") or o["kind"]),
                            "obligation %s refuted; %s fails on the real code for %s -> %s" % (
                                o["id"], rp.get("clause", o["note"]), rp.get("kwargs"), rp.get("real")),
                            {"kind": "contract", "func": func, "case": r["case"], "obligation_id": o["id"], "clause": o["note"],
                             "input": rp.get("kwargs"), "observed": rp.get("real"), "solver_runs": o.get("runs")})
            elif st == "refuted-unconfirmed":
                rp = o.get("replay") or {}
                if rp.get("engine_mismatch"):
                    run.fault("engine/CPython disagreement while replaying %s: %s" % (o["id"], json.dumps(rp)[:400]))
                elif k in expected:
                    run.failure("%s/%s" % (func, o.get("clause") or o["kind"]),
                                "obligation %s (discharged on the unchanged tree) now has a counter-model; no failing input was found by replay" % o["id"],
                                {"kind": "contract", "func": func, "case": r["case"], "obligation_id": o["id"], "clause": o["note"],
                                 "solver_runs": o.get("runs"), "replay_attempts": rp.get("tried")}, no_input=True)
                else:
                    undecided.append({"id": o["id"], "reason": "counter-model in the encoding not confirmed on the real code", "clause": o["note"][:160]})
            else:
                if o["kind"] == "abort":
                    aborted.add(func)
                undecided.append({"id": o["id"], "reason": _short(o.get("reason") or ""), "clause": o["note"][:160]})
    for func, cf in canary_funcs.items():
        if cf["total"] and cf["non_discharged"] == 0 and func not in aborted:
            # (paths that left the verified subset discharge their canaries vacuously: those are reported as undecided, not as a fault)
            run.fault("all canaries of %s were discharged: the contract may be vacuous" % func)
    if obligations == 0:
        run.fault("zero obligations generated for %s" % (keys,))
    # obligations that were discharged on the unchanged tree and are missing now (contract weakened / anchor lost)
    now_keys = {k for k, sts in per_key_status.items()}
    relevant_expected = {k for k in expected if k.split("::")[0] in keys}
    missing = sorted(relevant_expected - now_keys)
    discharged_keys = sorted(k for k, sts in per_key_status.items() if all(s == "discharged" for s in sts))
    comp = run_companion(run, keys, functions) if companion else None
    run._ded_totals = getattr(run, "_ded_totals", None) or {"by_backend": Counter(), "solver_ms_total": 0, "n_undecided": 0, "budget_s": budget}
    run._ded_totals["by_backend"].update(by_backend)
    run._ded_totals["solver_ms_total"] += solver_ms
    run._ded_totals["n_undecided"] += len(undecided)
    return {
        "runtime_companion": comp,
        "obligations": obligations,
        "discharged": discharged,
        "by_backend": dict(by_backend),
        "undecided": undecided[:40],
        "n_undecided": len(undecided),
        "functions_under_contract": functions,
        "solver_ms_total": solver_ms,
        "wall_s": round(time.time() - t0, 1),
        "cover_checks": covers,
        "canaries_refuted": canaries_refuted,
        "assumed": sorted(assumed),
        "samples": samples,
        "expected_missing": missing[:20],
        "discharged_keys": discharged_keys,
        "budget_s": budget,
    }
