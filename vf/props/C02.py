"""C02 - config-class round trip."""
from vf.props import rt_props

KEYS = ["vf.contracts.laws:class_roundtrip", "vf.contracts.laws:class_roundtrip_documented", "vf.contracts.laws:class_attribute_roundtrip", "doctrans.emitter_utils:to_docstring", "doctrans.docstring_parsers:_infer_default", "doctrans.parse:class_", "doctrans.docstring_parsers:_set_name_and_type", "doctrans.ast_utils:param2ast", "doctrans.ast_utils:set_value", "doctrans.defaults_utils:needs_quoting", "doctrans.defaults_utils:set_default_doc",
        "doctrans.pure_utils:quote", "doctrans.pure_utils:unquote", "doctrans.pure_utils:code_quoted"]


def nq_scalars():
    """needs_quoting on the scalar type names (finite; by evaluation of the real function): a premise of param2ast's contract"""
    from doctrans.defaults_utils import needs_quoting

    items = [("NQ-scalar[%s]" % t, needs_quoting(t) is False, "needs_quoting(%r) is False" % t, needs_quoting(t)) for t in ("int", "float", "bool", "complex")]
    # the part of needs_quoting behind the parser call (an ast walk over the parsed type) is outside the symbolic contract: it is decided by evaluation on
    # the type shapes of the properties' domain - a type needs quoting iff it mentions str (by name, or as a string constant inside Literal[...])
    for t, want in (("Union[int, str]", True), ("Union[str, bool]", True), ("List[str]", True), ("Optional[Union[float, str]]", True), ("Tuple[str, int]", True),
                    ("Literal['a', 'b']", True), ("Optional[List[str]]", True), ("List[int]", False), ("Optional[int]", False), ("Union[int, float]", False),
                    ("Tuple[int, float]", False), ("Literal[1, 2]", False), ("np.ndarray", False), ("Optional[bool]", False)):
        got = needs_quoting(t)
        items.append(("NQ-compound[%s]" % t, got is want, "needs_quoting(%r) is %s" % (t, want), got))
    return items


def check(run, record_expected=False):
    return rt_props.check_rt(run, "C02", ["class"], KEYS, "C02 config-class round trip", record_expected=record_expected,
                             evaluated=[("doctrans.defaults_utils:needs_quoting", nq_scalars())])
