"""C02 - config-class round trip."""
from vf.props import rt_props

KEYS = ["doctrans.ast_utils:set_value", "doctrans.defaults_utils:needs_quoting", "doctrans.defaults_utils:set_default_doc",
        "doctrans.pure_utils:quote", "doctrans.pure_utils:unquote"]


def check(run, record_expected=False):
    return rt_props.check_rt(run, "C02", ["class"], KEYS, "C02 config-class round trip", record_expected=record_expected)
