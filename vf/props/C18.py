"""C18 - word-wrapping and line-length configuration are semantically transparent."""
import ast
import json
import os
import subprocess
import sys
from concurrent.futures import ThreadPoolExecutor

from vf import common, findings
from vf.props import deductive
from vf.pyvc import verify as V

WIDTHS_QUICK = ("20", "40", "60", "79", "80", "100", "120", "200", "unset")
WIDTHS_THOROUGH = WIDTHS_QUICK + ("5", "10", "30", "72", "99", "101", "119", "150", "400")


def type_obligations():
    """D1/D2: `line_length` is an int whatever the environment says; `fill` is bound to it; to_docstring compares len() with it."""
    tree, src, path = V.module_ast("doctrans.pure_utils")
    items = []
    init = None
    for st in tree.body:
        if isinstance(st, ast.Assign) and len(st.targets) == 1 and isinstance(st.targets[0], ast.Name) and st.targets[0].id == "line_length":
            init = st.value
    txt = ast.unparse(init) if init is not None else None

    def is_int_typed(e):
        if isinstance(e, ast.Constant):
            return type(e.value) is int
        if isinstance(e, ast.Call) and isinstance(e.func, ast.Name) and e.func.id == "int":
            return True
        if isinstance(e, ast.IfExp):
            return is_int_typed(e.body) and is_int_typed(e.orelse)
        if isinstance(e, ast.Call) and isinstance(e.func, ast.Name) and e.func.id in ("max", "min", "abs"):
            return all(is_int_typed(a) for a in e.args)
        return False

    items.append(("D1-line_length-int", init is not None and is_int_typed(init),
                  "the initialiser of pure_utils.line_length has static type int (environ.get alone is str | int)", txt))
    fill = None
    for st in tree.body:
        if isinstance(st, ast.Assign) and len(st.targets) == 1 and isinstance(st.targets[0], ast.Name) and st.targets[0].id == "fill":
            fill = ast.unparse(st.value)
    items.append(("D1-fill-width", fill is not None and "width=line_length" in fill.replace(" ", ""), "fill wraps at line_length", fill))
    return items


def _run_width(w):
    env = dict(os.environ)
    if w == "unset":
        env.pop("DOCTRANS_LINE_LENGTH", None)
    else:
        env["DOCTRANS_LINE_LENGTH"] = w
    if common.REPO != "/repo":
        env["PYTHONPATH"] = common.REPO
    r = subprocess.run([sys.executable, os.path.join(common.VERIF, "vf", "bounded", "wrap_worker.py")], env=env, capture_output=True, text=True, timeout=900)
    lines = [ln for ln in r.stdout.splitlines() if ln.startswith("{")]
    if not lines:
        return w, {"width": w, "cases": 0, "fails": [], "import_error": "worker produced no result: %s" % (r.stderr[-300:],)}
    return w, json.loads(lines[-1])


@findings.matcher("c18_cond")
def _c18(failure, fd):
    g = {"__builtins__": {"any": any, "all": all, "len": len, "str": str}}
    g.update({"kind": failure.get("rt_kind"), "path": failure.get("path", ""), "width": failure.get("width"),
              "wrapped_changed": failure.get("wrapped_changed"), "got": failure.get("got", ""), "want": failure.get("want", ""),
              "type_line_len": failure.get("type_line_len"), "typ_ws_only": failure.get("typ_ws_only"), "int": int})
    return bool(eval(fd["cond"], g))


KEYS = ["doctrans.pure_utils:unquote", "doctrans.pure_utils:indent_all_but_first", "doctrans.defaults_utils:needs_quoting", "doctrans.docstring_parsers:_set_name_and_type",
        "doctrans.docstring_utils:emit_param_str"]


def check(run, record_expected=False):
    ded = deductive.run_deductive(run, KEYS)  # NQ-norm: a wrapped type line re-joins before it is parsed
    if record_expected:
        return ded
    deductive.add_evaluated(run, ded, type_obligations(), "doctrans.pure_utils:line_length")
    widths = WIDTHS_THOROUGH if run.tier == "thorough" else WIDTHS_QUICK
    with ThreadPoolExecutor(max_workers=8) as ex:
        results = list(ex.map(_run_width, widths))
    total = 0
    n_fail = 0
    samples = []
    for w, res in results:
        if res.get("import_error"):
            run.failure("wrap/<configurable>", "with DOCTRANS_LINE_LENGTH=%s the emitters cannot be used: %s" % (w, res["import_error"]),
                        {"kind": "wrap", "width": w, "path": "<import>", "got": res["import_error"]})
            continue
        total += res["cases"]
        if len(samples) < 3:
            samples.append({"width": w, "cases": res["cases"], "failures": len(res["fails"])})
        for f in res["fails"]:
            n_fail += 1
            run.failure("wrap_%s/%s" % (f["kind"], f["path"].split(".")[0] + "." + f["path"].split(".")[-1]),
                        "width %s, %s case %s: %s: unwrapped gives %s, wrapped gives %s" % (w, f["kind"], f["label"], f["path"], f.get("want"), f.get("got")),
                        {"kind": "wrap", "rt_kind": f["kind"], "width": w, "path": f["path"], "label": f["label"], "want": f.get("want"),
                         "got": f.get("got"), "wrapped_changed": f.get("wrapped_changed"), "type_line_len": f.get("type_line_len"), "typ_ws_only": f.get("typ_ws_only")})
    coverage = {
        "explanation": "DEDUCTIVE: type obligations on the module constants (line_length: int, fill bound to it) and the re-joining contracts "
                       "(needs_quoting NQ-norm: the type text handed to the parser has no line break; _set_name_and_type): %d of %d. BOUNDED decider "
                       "(relational contract): parse(emit(ir, wrap=True)) == parse(emit(ir, wrap=False)) modulo runs of whitespace, for %d widths "
                       "(one subprocess each: the width is read at import) x 7 kinds x 50 IRs whose summary / prose / type strings are shorter "
                       "than, equal to and much longer than the width; every emitter must also succeed." % (ded["discharged"], ded["obligations"], len(widths)),
        "evaluations": total, "distinct_nontrivial": total, "samples": samples, "exhaustive": True,
        "rule": "widths x kinds x generated IRs; all distinct and non-trivial (two parameters each)",
        "obligations": ded["obligations"], "discharged": ded["discharged"], "functions_under_contract": ded["functions_under_contract"],
        "by_backend": ded["by_backend"], "undecided": ded["undecided"], "solver_ms_total": ded["solver_ms_total"],
        "bounded": {"cases": total, "diff_entries": n_fail, "widths": list(widths), "bound": "50 IRs per width"},
    }
    return run.finish("other", coverage, ["bounded: the width sweep and IR set", "textwrap.fill is trusted to change only whitespace between words"] + ded["assumed"])
