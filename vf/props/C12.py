"""C12 - output is a deterministic function of the input (decided statically by the audit; seed sweep as bounded companion)."""
import json
import os
import subprocess
import sys

from vf import common, findings
from vf.props import deductive
from vf.pyvc import audit

UNORDERED_OK = {
    ("doctrans.parser_utils:_join_non_none", "all_keys"):
        "keys are inserted into ONE parameter dict (typ / doc / default) in set order; every emitter reads that dict by key, so its key order "
        "is not observable (oracle rule 1 of DESIGN 4) - assumed, not proved",
}

SWEEP_CODE = r'''
import ast, json, sys
try:
    import meta
except Exception:
    pass
from doctrans import emit, parse
from doctrans.source_transformer import to_code
order = sys.argv[1]
SRCS = json.load(sys.stdin)
out = {}
def conv(i, src):
    fd = ast.parse(src).body[0]
    ir = parse.function(fd)
    res = [list(ir["params"].keys())]
    res.append(emit.docstring(ir, docstring_format="rest"))
    res.append(emit.docstring(ir, docstring_format="google"))
    res.append(to_code(emit.class_(ir, class_name="C")))
    res.append(to_code(emit.argparse_function(ir)))
    res.append(to_code(emit.function(ir, function_name=None, function_type=None)))
    ir2 = parse.docstring(res[1])
    res.append(json.dumps(ir2, default=str, sort_keys=False))
    out[str(i)] = res
idx = list(range(len(SRCS)))
if order == "rev":
    idx.reverse()
elif order == "twice":
    idx = idx + idx
for i in idx:
    try:
        conv(i, SRCS[i])
    except Exception as e:
        out[str(i)] = ["EXC %s" % type(e).__name__]
print(json.dumps(out, sort_keys=True))
'''


def corpus():
    srcs = []
    docs = [
        ":param a: the a. Defaults to 1\n\n    :param c: the c",
        ":param d: the d\n\n    :param a: the a\n\n    :returns: the r\n    :rtype: ```int```",
        ":param b: Default: 5. When unset, defaults to 7.",
        ":param c: the c. Default value is 2. defaults to 3",
        "",
    ]
    sigs = ["a=1, b='x', c=2.5, d=True, e=None, g=0, h=''", "*, d: int = 4, a: str = 'q', b=None, c: float = 1.5", "a, b, c, d, e, g, h", "self, b=5, c=2"]
    for s in sigs:
        for d in docs:
            body = '    """\n    Summary.\n\n    %s\n    """\n    return None\n' % d
            srcs.append("def f(%s):\n%s" % (s, body))
    return srcs


def sweep(seeds, orders):
    srcs = corpus()
    outs = {}
    for sd in seeds:
        for od in orders:
            env = dict(os.environ, PYTHONHASHSEED=str(sd))
            env.pop("DOCTRANS_LINE_LENGTH", None)
            if common.REPO != "/repo":
                env["PYTHONPATH"] = common.REPO
            r = subprocess.run([sys.executable, "-c", SWEEP_CODE, od], input=json.dumps(srcs), capture_output=True, text=True, env=env, timeout=600)
            lines = [ln for ln in r.stdout.splitlines() if ln.startswith("{")]
            outs[(sd, od)] = lines[-1] if lines else "NO OUTPUT " + r.stderr[-200:]
    return srcs, outs


@findings.matcher("c12_cond")
def _c12(failure, fd):
    return fd.get("site", "") in failure.get("obligation", "")


KEYS = ["doctrans.pure_utils:location_within", "doctrans.parser_utils:ir_merge", "doctrans.parser_utils:_join_non_none"]


def check(run, record_expected=False):
    ded = deductive.run_deductive(run, KEYS,
                                  only={("doctrans.pure_utils:location_within", "tokens=2")} | {(c.func, cs.name) for c in __import__("vf.contracts.parser_utils", fromlist=["CONTRACTS"]).CONTRACTS for cs in c.cases})
    if record_expected:
        return ded
    items, inventory = audit.run_audit(unordered_ok=UNORDERED_OK)
    assumed = []
    ev = []
    for oid, holds, text, wit in items:
        if holds is None:
            assumed.append("%s: %s" % (oid, text))
        else:
            ev.append((oid, holds, text, wit))
    deductive.add_evaluated(run, ded, ev, "audit")
    seeds = (0, 1, 2, 3) if run.tier == "quick" else tuple(range(12)) + ("random",)
    srcs, outs = sweep(seeds, ("fwd", "rev", "twice"))
    ref = outs[(seeds[0], "fwd")]
    n_diff = 0
    for k, v in outs.items():
        if v != ref:
            n_diff += 1
            a, b = (json.loads(ref) if ref.startswith("{") else {}), (json.loads(v) if v.startswith("{") else {})
            which = [i for i in a if a.get(i) != b.get(i)][:3]
            run.failure("sweep/differs", "conversion output under PYTHONHASHSEED=%s, order %s differs from seed %s forward (sources %s)" % (k[0], k[1], seeds[0], which),
                        {"kind": "sweep", "seed": k[0], "order": k[1], "sources": [srcs[int(i)] for i in which][:2]})
    coverage = {
        "obligations": ded["obligations"], "discharged": ded["discharged"],
        "checker_cmd": "./check C12 (determinism audit over the ast of every non-test module of /repo's working tree + pyvc obligations of location_within)",
        "trusted_base": ["completeness of the audit's list of nondeterminism sources (set-like iteration, set-like arguments to order-sensitive "
                         "parameters, global / globals() / function-object state, mutable defaults, id / hash / random / time / listdir)",
                         "CPython: dicts iterate in insertion order; ast, textwrap and black are deterministic"] + assumed,
        "explanation": "C12-L: output is a function of the input alone because (a) no unordered iteration reaches an ordered result and (b) no "
                       "conversion reads state that an earlier conversion wrote. Each syntactic occurrence is an obligation decided by rule on the AST "
                       "(over-approximating, hence for all inputs). BOUNDED companion (guards the audit's completeness only): %d generated sources "
                       "converted under %d hash seeds x 3 in-process orders, outputs compared byte for byte." % (len(srcs), len(seeds)),
        "inventory": inventory,
        "by_backend": ded["by_backend"],
        "functions_under_contract": ded["functions_under_contract"],
        "samples": [{"obligation": i[0], "holds": i[1], "rule": i[2]} for i in items[:6]],
        "bounded": {"cases": len(outs) * len(srcs), "configurations": len(outs), "differing": n_diff, "bound": "seeds %r x orders fwd/rev/twice" % (seeds,)},
        "evaluations": len(outs) * len(srcs), "distinct_nontrivial": len(srcs),
    }
    level = "proof" if ded["obligations"] == ded["discharged"] and not run.violations else "other"
    return run.finish(level, coverage, ["the audit is complete for the listed source kinds only"] + assumed)
