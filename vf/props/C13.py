"""C13 - conversions do not interfere through shared inputs (relational, bounded) + deductive frames."""
import ast
import itertools
import multiprocessing as mp
from copy import deepcopy

from vf import common, findings
from vf.bounded import ir_domain, roundtrip as R
from vf.props import deductive

KEYS = ["vf.contracts.laws:class_roundtrip", "doctrans.emit:class_", "doctrans.emit:argparse_function", "doctrans.emit:docstring", "doctrans.parse:function", "doctrans.emit:function", "doctrans.emitter_utils:get_internal_body", "doctrans.defaults_utils:set_default_doc", "vf.contracts.laws:sdd_twice"]
OPS = ("doc", "cls", "fn", "ap")


def _emit(op, ir):
    from doctrans import emit
    from doctrans.source_transformer import to_code

    if op == "doc":
        return emit.docstring(ir, docstring_format="rest", emit_default_doc=True)
    if op == "doc0":
        return emit.docstring(ir, docstring_format="rest", emit_default_doc=False)
    if op == "cls":
        return to_code(emit.class_(ir, class_name="C", emit_default_doc=False))
    if op == "cls1":
        return to_code(emit.class_(ir, class_name="C", emit_default_doc=True, emit_call=True))
    if op == "fn":
        return to_code(emit.function(ir, function_name=ir.get("name") or "f", function_type=ir.get("type") or "static", emit_default_doc=False))
    if op == "fn1":
        return to_code(emit.function(ir, function_name=ir.get("name") or "f", function_type=ir.get("type") or "static", emit_default_doc=True, inline_types=False))
    if op == "ap":
        return to_code(emit.argparse_function(ir, function_name="set_cli_args", emit_default_doc=False))
    if op == "ap1":
        return to_code(emit.argparse_function(ir, function_name=ir.get("name") or "f", function_type=ir.get("type") or "static", emit_default_doc=True))
    raise ValueError(op)


def irs_with_bodies():
    """IRs that carry an implementation body (parsed from generated functions)"""
    from doctrans import parse

    out = []
    srcs = [
        ('def f(*, alpha: int = 5, beta: str = "x"):\n    """\n    Summary.\n\n    :param alpha: the alpha\n\n    :param beta: the beta\n\n    :returns: the sum\n    :rtype: ```int```\n    """\n    total = alpha + len(beta)\n    print(total)\n    return total\n'),
        ('def f(*, alpha: int = 5):\n    """\n    Summary.\n\n    :param alpha: the alpha\n    """\n    total = alpha * 2\n    print(total)\n'),
    ]
    for i, s in enumerate(srcs):
        out.append(("body%d" % i, parse.function(ast.parse(s).body[0])))
    return out


def domain(tier):
    ra, rb = ir_domain._reduced_atoms("alpha"), ir_domain._reduced_atoms("beta")
    out = []
    for i in (1, 2, 4, 5, 6, 8, 10):
        out.append(("s1.%d" % i, ir_domain.make_ir([("alpha", ra[i])], ir_domain.RETURNS[i % 4])))
    for i, j in ((2, 4), (4, 2), (5, 6), (8, 1)):
        out.append(("s2.%d.%d" % (i, j), ir_domain.make_ir([("alpha", ra[i]), ("beta", rb[j])], ir_domain.RETURNS[(i + j) % 4], kwargs=(i == 5))))
    return out


def _run_seq(job):
    label, ir, seq = job
    from vf.pyvc.verify import preimport_meta

    preimport_meta()
    shared = deepcopy(ir)
    out = []
    for k, op in enumerate(seq):
        try:
            got = _emit(op, shared)
        except Exception as e:  # noqa
            got = "EXC %s: %s" % (type(e).__name__, str(e)[:80])
        try:
            want = _emit(op, deepcopy(ir))
        except Exception as e:  # noqa
            want = "EXC %s: %s" % (type(e).__name__, str(e)[:80])
        if got != want:
            out.append((k, op, want[:400], got[:400]))
            break  # later calls work on an IR that already differs
    return label, seq, out


def _parse_interference():
    """parsing must not alter the tree it was given (observationally)"""
    from doctrans import emit, parse
    from doctrans.source_transformer import to_code

    fails = []
    src = ('class C(object):\n    """\n    Summary.\n\n    :cvar alpha: the alpha\n    """\n    alpha: int = 5\n\n'
           '    def run(self, *, beta: int = 2):\n        """\n        Run.\n\n        :param beta: the beta\n\n        :returns: doubled\n        :rtype: ```int```\n        """\n        return beta * 2\n')
    fsrc = 'def f(*, alpha: int = 5, beta: str = "x"):\n    """\n    Summary.\n\n    :param alpha: the alpha\n\n    :param beta: the beta\n    """\n    return alpha\n'
    ap_src = None
    for name, mk, parser in (
        ("function", lambda: ast.parse(fsrc).body[0], parse.function),
        ("method", lambda: ast.parse(src).body[0].body[2], parse.function),
        ("class", lambda: ast.parse(src).body[0], parse.class_),
    ):
        node = mk()
        before = ast.dump(node)
        r1 = parser(node)
        mid = ast.dump(node)
        r2 = parser(node)
        fresh = parser(mk())
        s = lambda ir: repr({k: (v if k != "_internal" else [ast.dump(x) for x in v.get("body", [])]) for k, v in ir.items()})  # noqa
        if before != mid:
            fails.append(("parse-mutates/%s" % name, "the tree changed while being parsed"))
        if s(r2) != s(fresh):
            fails.append(("parse-twice/%s" % name, "second parse of the same tree differs from a parse of a fresh tree"))
        if to_code(node) != to_code(mk()):
            fails.append(("parse-then-unparse/%s" % name, "to_code of the tree differs after parsing"))
    return fails


@findings.matcher("c13_cond")
def _c13(failure, fd):
    g = {"__builtins__": {"any": any, "all": all, "len": len, "set": set, "str": str, "isinstance": isinstance}}
    g.update({"seq": failure.get("seq"), "k": failure.get("k"), "op": failure.get("op"), "before": failure.get("seq", [])[: failure.get("k", 0)],
              "ir": failure.get("ir"), "want": failure.get("want", ""), "got": failure.get("got", "")})
    return bool(eval(fd["cond"], g))


def check(run, record_expected=False):
    ded = deductive.run_deductive(run, KEYS)
    if record_expected:
        return ded
    from vf.pyvc import frames

    for key, var in (("doctrans.parse:function", "function_def"), ("doctrans.emit:class_", "intermediate_repr"),
                     ("doctrans.emit:function", "intermediate_repr"), ("doctrans.emit:argparse_function", "intermediate_repr"),
                     ("doctrans.emit:docstring", "intermediate_repr")):
        deductive.add_evaluated(run, ded, frames.copy_dominates(key, var), key)
    from vf.pyvc.verify import preimport_meta

    preimport_meta()
    dom = domain(run.tier) + irs_with_bodies()
    ops = ("doc", "cls", "fn", "ap", "doc0", "cls1", "fn1", "ap1")
    maxlen = 4 if run.tier == "thorough" else 3
    seqs = []
    for n in range(2, maxlen + 1):
        if n <= 2:
            seqs += list(itertools.product(ops, repeat=n))
        else:
            seqs += list(itertools.product(OPS, repeat=n))
    jobs = [(label, ir, seq) for label, ir in dom for seq in seqs]
    ctx = mp.get_context("fork")
    with ctx.Pool(16) as pool:
        res = pool.map(_run_seq, jobs, chunksize=32)
    irs = dict(dom)
    n_ok = 0
    samples = []
    for label, seq, diffs in res:
        if not diffs:
            n_ok += 1
            if len(samples) < 3:
                samples.append({"ir": label, "sequence": list(seq)})
        for k, op, want, got in diffs:
            ir = irs[label]
            ir_s = {kk: vv for kk, vv in ir.items() if kk != "_internal"}
            run.failure("share/%s-after-%s" % (op, "+".join(sorted(set(seq[:k]))) or "nothing"),
                        "on a shared IR (%s), call %d (%s) after %s differs from the same call on a fresh copy: want %r, got %r" % (
                            label, k, op, list(seq[:k]), want[:160], got[:160]),
                        {"kind": "share", "seq": list(seq), "k": k, "op": op, "label": label, "ir": ir_s, "want": want, "got": got})
    for ob, what in _parse_interference():
        run.failure("share/" + ob, what, {"kind": "share-parse"})
    coverage = {
        "explanation": "DEDUCTIVE: copy-before-mutate dominance in parse.function and the four emitters (syntactic frame obligations on the real "
                       "source), get_internal_body frame, set_default_doc frame + idempotent mutation (%d of %d discharged). BOUNDED decider "
                       "(relational contract): every sequence of length 2 over 8 emitter variants and of length 3%s over 4 emitters on one shared IR "
                       "object is compared, call by call, with the same call on a fresh deep copy; parse twice / parse-then-unparse on one tree." % (
                           ded["discharged"], ded["obligations"], "..4" if run.tier == "thorough" else ""),
        "evaluations": len(res), "distinct_nontrivial": len(res), "samples": samples, "exhaustive": True,
        "rule": "sequences x IRs (%d IRs, 2 of them with a carried body); every (IR, sequence) is distinct and non-trivial (>= 2 calls)" % len(dom),
        "obligations": ded["obligations"], "discharged": ded["discharged"], "functions_under_contract": ded["functions_under_contract"],
        "bounded": {"cases": len(res), "no_interference": n_ok, "bound": "sequence length <= %d" % maxlen},
    }
    return run.finish("other", coverage, ["bounded: sequence length and IR set"] + ded["assumed"])
