"""
Matchers for the open entries of known_findings.json.  A finding is identified by the failing *obligation*
(contract clause / harness clause) plus an *input class* (a predicate on the failing case); a failure that no
listed finding matches is a VIOLATION.  The file is read-only at run time.
"""
import re

MATCHERS = {}


def matcher(name):
    def deco(f):
        MATCHERS[name] = f
        return f

    return deco


def matches(fd, failure):
    ob = failure.get("obligation", "")
    pat = fd.get("obligation")
    if pat and failure.get("rt_kinds") and pat.startswith("rt_"):
        pat = re.sub(r"^rt_[^/]*", "rt_chain", pat)  # chains: any finding of a kind on the chain may explain the entry
    if pat and not re.search(pat, ob):
        return False
    m = fd.get("matcher")
    if m:
        f = MATCHERS.get(m)
        if f is None:
            return False
        try:
            return bool(f(failure, fd))
        except Exception:
            return False
    return True


@matcher("always")
def _always(failure, fd):
    return True


# matchers are added next to the harness that needs them (vf/bounded/*.py import this module)


@matcher("payload_cond")
def _payload_cond(failure, fd):
    """fd['cond']: Python boolean expression over the failure payload (names: input, detail, obligation, ...)"""
    g = {"__builtins__": {"any": any, "all": all, "len": len, "isinstance": isinstance, "str": str, "int": int, "repr": repr,
                          "float": float, "bool": bool, "list": list, "tuple": tuple, "type": type, "set": set, "sorted": sorted}}
    g.update(failure)
    return bool(eval(fd["cond"], g))
