"""
Generated sync projects for C09 / C10 / C11 / C20 (BOUNDED stand-in): truth kind x target pre-states x function vs
method targets x a few interface descriptions.  Truth and stale sources are written by hand-made templates (not by
doctrans' emitters), so the inputs do not depend on the code under test.
"""
import ast
import contextlib
import io
import itertools
import os
import shutil
import tempfile
from argparse import Namespace
from collections import OrderedDict

PRESTATES = ("missing", "empty", "absent", "stale", "agreeing")

# ---------------------------------------------------------------------------------------------- interfaces
INTERFACES = {
    "basic": OrderedDict((
        ("dataset_name", {"typ": "str", "doc": "name of dataset", "default": "mnist"}),
        ("epochs", {"typ": "int", "doc": "number of passes", "default": 3}),
        ("verbose", {"typ": "bool", "doc": "print progress", "default": True}),
    )),
    "literal": OrderedDict((
        ("K", {"typ": "Literal['np', 'tf']", "doc": "backend engine", "default": "np"}),
        ("rate", {"typ": "float", "doc": "the learning rate", "default": 0.5}),
    )),
    "negative": OrderedDict((
        ("offset", {"typ": "int", "doc": "start offset", "default": -3}),
        ("tag", {"typ": "str", "doc": "free-form label", "default": "x_y"}),
    )),
}
# interfaces whose truth also documents a return value (the class emitter folds it into a `return_type` attribute; sync hands ONE parsed
# description to every emitter in turn, so a class target emitted first must not leak that attribute into the function target)
INTERFACES["withret"] = OrderedDict((
    ("dataset_name", {"typ": "str", "doc": "name of dataset", "default": "mnist"}),
    ("epochs", {"typ": "int", "doc": "number of passes", "default": 3}),
))
RETURNS = {"withret": {"typ": "str", "doc": "the status", "default": "ok"}}
SUMMARY = "Acquire from the official tensorflow_datasets model zoo."


def _lit(v):
    return repr(v) if not isinstance(v, str) else '"%s"' % v


def class_src(name, params, summary=SUMMARY, returns=None):
    lines = ["class %s(object):" % name, '    """', "    " + summary, ""]
    for n, p in params.items():
        lines.append("    :cvar %s: %s" % (n, p["doc"]))
    if returns:
        lines.append("    :cvar return_type: %s" % returns["doc"])
    lines[-1] += '"""'
    for n, p in params.items():
        lines.append("    %s: %s = %s" % (n, p["typ"], _lit(p["default"])))
    if returns:
        lines.append("    return_type: %s = %s" % (returns["typ"], _lit(returns["default"])))
    return "\n".join(lines) + "\n"


def function_src(name, params, summary=SUMMARY, method_of=None, body="pass", returns=None):
    ind = "    " if method_of else ""
    first = "self, " if method_of else ""
    sig = ", ".join("%s: %s = %s" % (n, p["typ"], _lit(p["default"])) for n, p in params.items())
    lines = ["%sdef %s(%s*, %s)%s:" % (ind, name, first, sig, (" -> %s" % returns["typ"]) if returns else ""), ind + '    """', ind + "    " + summary, ""]
    for n, p in params.items():
        lines.append(ind + "    :param %s: %s" % (n, p["doc"]))
        lines.append("")
    if returns:
        lines.append(ind + "    :returns: %s" % returns["doc"])
        lines.append("")
        body = "return %s" % _lit(returns["default"])
    lines.append(ind + '    """')
    lines.append(ind + "    " + body)
    src = "\n".join(lines) + "\n"
    if method_of:
        src = "class %s(object):\n    \"\"\"A holder.\"\"\"\n\n    keep_me = 1\n\n%s" % (method_of, src)
    return src


def argparse_src(name, params, summary=SUMMARY, returns=None):
    lines = ["def %s(argument_parser):" % name, '    """', "    Set CLI arguments", "",
             "    :param argument_parser: argument parser", "    :type argument_parser: ```ArgumentParser```", "",
             "    :returns: argument_parser" + ((", %s" % returns["doc"]) if returns else ""),
             "    :rtype: ```%s```" % (("Tuple[ArgumentParser, %s]" % returns["typ"]) if returns else "ArgumentParser"), '    """',
             "    argument_parser.description = %s" % _lit(summary)]
    for n, p in params.items():
        t = p["typ"]
        if t.startswith("Literal["):
            choices = t[len("Literal["):-1]
            lines.append("    argument_parser.add_argument(\"--%s\", choices=(%s), help=%s, required=True, default=%s)" % (n, choices, _lit(p["doc"]), _lit(p["default"])))
        else:
            lines.append("    argument_parser.add_argument(\"--%s\", type=%s, help=%s, required=True, default=%s)" % (n, t, _lit(p["doc"]), _lit(p["default"])))
    lines.append("    return argument_parser" + ((", %s" % _lit(returns["default"])) if returns else ""))
    return "\n".join(lines) + "\n"


OTHER_BEFORE = "import os\nfrom typing import Literal\n\nCONST = 5\n\n\ndef helper(dataset_name, K=2):\n    \"\"\"helper shares parameter names\"\"\"\n    return dataset_name, K\n\n\n" \
    "class Earlier(object):\n    \"\"\"ConfigClass\"\"\"\n\n\nclass Earlier2(object):\n    \"\"\"train\"\"\"\n\n\nclass Earlier3(object):\n    \"\"\"set_cli_args\"\"\"\n\n\n"
OTHER_AFTER = "\n\nclass Other(object):\n    \"\"\"another class\"\"\"\n\n    epochs: int = 99\n\n    def train(self, epochs=1):\n        return epochs\n\n\nTAIL = helper(1)\n"

# surround == "after": nothing before the definition, and a module-level def (and a string constant naming the target) after it
OTHER_AFTER_DEF = OTHER_AFTER + "\n\ndef main(epochs=2):\n    \"\"\"entry point\"\"\"\n    return [\"ConfigClass\", \"train\", \"set_cli_args\", epochs]\n"

# a file whose last line is a comment inside an indented block (with newline=False: no trailing newline)
OTHER_COMMENT_TAIL = "import os\n\n\nclass Options(object):\n    \"\"\"holder\"\"\"\n\n    verbose = False\n    # TODO: more options\n"

NAMES = {"class": "ConfigClass", "function": "train", "argparse_function": "set_cli_args"}


def kind_src(kind, params, method=False, summary=SUMMARY, returns=None):
    if kind == "class":
        return class_src(NAMES["class"], params, summary, returns=returns)
    if kind == "function":
        return function_src(NAMES["function"], params, summary, method_of="Trainer" if method else None, returns=returns)
    return argparse_src(NAMES["argparse_function"], params, summary, returns=returns)


def stale_params(params):
    """a stale definition: one parameter renamed, one default changed, one dropped"""
    items = list(params.items())
    out = OrderedDict()
    n0, p0 = items[0]
    out[n0 + "_old"] = dict(p0, doc=p0["doc"] + " (old)")
    if len(items) > 1:
        n1, p1 = items[1]
        out[n1] = dict(p1, default=(p1["default"] + 1) if isinstance(p1["default"], (int, float)) and not isinstance(p1["default"], bool) else p1["default"])
    return out


class Project:
    """a temporary directory with up to three files, one per kind"""

    def __init__(self, truth_kind, iface, prestates, method=False, newline=True, surround=False):
        self.truth_kind, self.iface, self.prestates, self.method = truth_kind, iface, dict(prestates), method
        self.newline, self.surround = newline, surround
        self.dir = tempfile.mkdtemp(prefix="vfproj_")
        self.files = {k: os.path.join(self.dir, {"class": "classes.py", "function": "methods.py", "argparse_function": "argparse.py"}[k])
                      for k in NAMES}
        self.params = INTERFACES[iface]
        self.returns = RETURNS.get(iface)

    def search_name(self, kind):
        if kind == "function" and self.method:
            return "Trainer.train"
        return NAMES[kind]

    def write_initial(self):
        for kind, path in self.files.items():
            if kind == self.truth_kind:
                src = kind_src(kind, self.params, method=(kind == "function" and self.method), returns=self.returns)
                src = self._surrounded(src)
                self._write(path, src)
                continue
            ps = self.prestates.get(kind)
            if ps is None or ps == "missing":
                continue
            if ps == "empty":
                self._write(path, "")
            elif ps == "absent":
                src = OTHER_BEFORE + OTHER_AFTER.lstrip("\n") if self.surround != "after" else OTHER_AFTER_DEF.lstrip("\n")
                if not self.newline and not self.surround:
                    src = OTHER_COMMENT_TAIL  # the other no-trailing-newline shape: an indented comment as last line
                if self.newline == "blank":
                    # no final newline, but the last line ends in blanks (editor auto-indent residue / a blank after the last statement)
                    src = src.rstrip("\n") + ("\n    " if self.surround else "  ")
                    self._write(path, src)
                else:
                    self._write(path, src if self.newline else src.rstrip("\n"))
            elif ps == "stale":
                src = self._surrounded(kind_src(kind, stale_params(self.params), method=(kind == "function" and self.method), returns=self.returns))
                self._write(path, src)
            elif ps == "agreeing":
                src = self._surrounded(kind_src(kind, self.params, method=(kind == "function" and self.method), returns=self.returns))
                self._write(path, src)

    def _surrounded(self, src):
        if self.surround == "after":
            return src + OTHER_AFTER_DEF
        if self.surround:
            return OTHER_BEFORE + src + OTHER_AFTER
        return src

    @staticmethod
    def _write(path, src):
        with open(path, "wt") as f:
            f.write(src)

    def namespace(self, kinds=None):
        kinds = kinds or list(NAMES)
        ns = {"truth": self.truth_kind}
        for k in NAMES:
            plural = {"class": "classes", "function": "functions", "argparse_function": "argparse_functions"}[k]
            ns[plural] = [self.files[k]] if k in kinds else None
            ns[k + "_names"] = [self.search_name(k)] if k in kinds else None
        return Namespace(**ns)

    def argv(self, kinds=None):
        kinds = kinds or list(NAMES)
        out = ["sync", "--truth", self.truth_kind]
        for k in kinds:
            flag = "--" + k.replace("_", "-")
            out += [flag, self.files[k], flag + "-name", self.search_name(k)]
        return out

    def snapshot(self):
        out = {}
        for fn in sorted(os.listdir(self.dir)):
            with open(os.path.join(self.dir, fn), "rb") as f:
                out[fn] = f.read()
        return out

    def sync(self, kinds=None):
        """-> (report dict | None, exception string | None, stdout)"""
        from doctrans.conformance import ground_truth

        buf = io.StringIO()
        try:
            with contextlib.redirect_stdout(buf):
                rep = ground_truth(self.namespace(kinds), self.files[self.truth_kind])
            return {os.path.basename(k): v for k, v in rep.items()}, None, buf.getvalue()
        except BaseException as e:  # noqa
            return None, "%s: %s" % (type(e).__name__, str(e)[:150]), buf.getvalue()

    def cleanup(self):
        shutil.rmtree(self.dir, ignore_errors=True)


def parse_target(kind, path, search):
    """independent location of the definition (plain ast walk), then doctrans' own parser for the interface"""
    from doctrans import parse

    with open(path, "rt") as f:
        src = f.read()
    tree = ast.parse(src)
    body = tree.body
    node = None
    for part in search.split("."):
        node = next((n for n in body if isinstance(n, (ast.ClassDef, ast.FunctionDef)) and n.name == part), None)
        if node is None:
            return tree, None, None
        body = node.body
    if kind == "class":
        ir = parse.class_(node)
    elif kind == "function":
        ir = parse.function(node)
    else:
        ir = parse.argparse_ast(node)
    return tree, node, ir


def mask(tree, search):
    """ast.dump of every top-level statement / class member except the addressed definition"""
    parts = search.split(".")
    out = []
    for st in tree.body:
        if isinstance(st, (ast.ClassDef, ast.FunctionDef)) and st.name == parts[0]:
            if len(parts) == 1:
                out.append("<target>")
            else:
                out.append("class %s:" % st.name)
                for m in st.body:
                    if isinstance(m, (ast.ClassDef, ast.FunctionDef)) and m.name == parts[1]:
                        out.append("  <target>")
                    elif isinstance(m, ast.Expr) and isinstance(m.value, ast.Constant) and isinstance(m.value.value, str):
                        out.append("  doc:" + " ".join(m.value.value.split()))
                    else:
                        out.append("  " + ast.dump(m))
        elif isinstance(st, ast.Expr) and isinstance(st.value, ast.Constant) and isinstance(st.value.value, str):
            out.append("doc:" + " ".join(st.value.value.split()))
        else:
            out.append(ast.dump(st))
    return out


def iface_of(ir):
    """(names, {name: (typ, canonical prose, default)}) of a parsed description"""
    from vf.bounded import roundtrip as R

    out = OrderedDict()
    for n, p in (ir.get("params") or {}).items():
        # sync never emits default text, so prose is compared strictly (modulo runs of whitespace)
        out[n] = (p.get("typ"), " ".join((p.get("doc") or "").split()) or None, R.canon_default(p))
    return out


def combos(tier):
    """(truth kind, interface, method?, {kind: prestate})"""
    out = []
    kinds = list(NAMES)
    for tk in kinds:
        others = [k for k in kinds if k != tk]
        for iface in (("basic", "literal", "negative", "withret") if tier == "thorough" else ("basic", "negative", "withret")):
            for method in (False, True):
                pairs = list(itertools.product(PRESTATES, repeat=2))
                if tier != "thorough" and not (iface == "basic" and not method):
                    pairs = [(a, b) for a, b in pairs if a == b or (a, b) in (("missing", "stale"), ("stale", "absent"), ("agreeing", "empty"))]
                for a, b in pairs:
                    out.append((tk, iface, method, {others[0]: a, others[1]: b}))
    return out
