"""Subprocess worker for C19: runs doctrans.gen.gen on a generated, importable input module. argv[1] = job json. Prints one JSON line."""
import json
import os
import sys

sys.path.insert(0, os.path.dirname(os.path.dirname(os.path.dirname(os.path.abspath(__file__)))))


def main():
    job = json.loads(sys.argv[1])
    try:
        import meta  # noqa
    except Exception:
        pass
    d = job["dir"]
    sys.path.insert(0, d)
    res = {"exc": None, "out": None}
    try:
        from doctrans.gen import gen

        gen(name_tpl=job["name_tpl"], input_mapping="%s.MAPPING" % job["module"], type_=job["type"], output_filename=job["output"],
            prepend=job.get("prepend"), imports_from_file=job.get("imports_from_file"), emit_call=False, emit_default_doc=False)
        with open(job["output"]) as f:
            res["out"] = f.read()
    except BaseException as e:  # noqa
        res["exc"] = "%s: %s" % (type(e).__name__, str(e)[:200])
    sys.stdout.write("\n" + json.dumps(res) + "\n")


if __name__ == "__main__":
    main()
