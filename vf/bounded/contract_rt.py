"""
Bounded companion of the deductive contracts: the *same* contract texts are evaluated by CPython on the
real function over an enumerated corpus (stated bound), with ghosts supplied by the engine interpreting the
real source on the same concrete input.  Doubles as the per-run CPython cross-check of the engine:
engine result != CPython result  =>  checker fault (exit 3).
"""
import multiprocessing as mp
import os

from vf.pyvc import driver, specfuncs
from vf.pyvc import verify as V
from vf.pyvc.values import Unsupported


def case_of(contract, kwargs):
    """the contract case a concrete input belongs to (None: outside the contract's precondition)"""
    for case in contract.cases:
        if _fits(case.params, kwargs):
            try:
                if all(driver.eval_clause_py(contract, t, kwargs, None, {}) for t in list(contract.requires) + list(case.assume)
                       if "forall_str" not in t):
                    return case
            except Exception:
                continue
    return None


def _fits_val(spec, v):
    if isinstance(spec, str) and spec in ("str", "int", "bool"):
        return type(v).__name__ == spec
    if isinstance(spec, tuple) and spec and spec[0] == "lit":
        return v == spec[1] and type(v) is type(spec[1])
    if isinstance(spec, tuple) and spec and spec[0] == "tuple":
        return isinstance(v, tuple) and len(v) == len(spec[1]) and all(_fits_val(s, x) for s, x in zip(spec[1], v))
    if isinstance(spec, tuple) and spec and spec[0] == "dict":
        if not isinstance(v, dict):
            return False
        for k, vs in spec[1].items():
            opt = isinstance(vs, tuple) and vs and vs[0] == "opt"
            if k not in v:
                if not opt:
                    return False
                continue
            if not _fits_val(vs[1] if opt else vs, v[k]):
                return False
        return set(v) <= set(spec[1])
    if isinstance(spec, tuple) and spec and spec[0] == "strcat":
        import re as _re
        return isinstance(v, str) and _re.fullmatch("".join("(?s:.*)" if p == "str" else ("(?s:[^%s]*)" % _re.escape(p[1])) if isinstance(p, tuple) else _re.escape(p) for p in spec[1]), v) is not None
    if isinstance(spec, tuple) and spec and spec[0] == "list":
        return isinstance(v, list) and len(v) == len(spec[1]) and all(_fits_val(s, x) for s, x in zip(spec[1], v))
    if isinstance(spec, tuple) and spec and spec[0] == "node":
        if type(v).__name__ != str(spec[1]).split(".")[-1]:
            return False
        return all(hasattr(v, k) and _fits_val(vs, getattr(v, k)) for k, vs in spec[2].items())
    if isinstance(spec, str) and (spec.startswith("pred") or spec == "obj"):
        return True
    if isinstance(spec, tuple) and spec and spec[0] == "obj":
        return True
    return v == spec and type(v) is type(spec)


def _fits(params, kwargs):
    return set(params) >= set(kwargs) and all(_fits_val(params[k], v) for k, v in kwargs.items())


def auto_corpus(contract):
    """one or two concrete inputs per contract case, built from the case's own parameter spec (scalars take two default vectors): the
    minimum engine / CPython cross-check every contract gets even without a hand-written corpus"""
    out = []
    for case in contract.cases:
        for defaults in ({"str": "", "int": 0, "bool": False}, {"str": "ab", "int": 2, "bool": True}, {"str": "Xy", "int": -1, "bool": True},
                         {"str": "Optional", "int": 7, "bool": False}):
            saved = dict(driver._DEFAULT_OF)
            driver._DEFAULT_OF.update(defaults)
            try:
                kw = {}
                for pname, spec in case.params.items():
                    kw[pname] = driver.concretize(spec, pname, {}, top=False)
                out.append(kw)
            except driver._NoConcrete:
                break
            finally:
                driver._DEFAULT_OF.clear()
                driver._DEFAULT_OF.update(saved)
    return out


def _check_one(args):
    key, kwargs = args[0], args[1]
    use_engine = args[2] if len(args) > 2 else True
    V.preimport_meta()
    registry = driver.load_registry()
    contract = registry[key]
    case = case_of(contract, kwargs)
    rec = {"kwargs": kwargs, "case": case.name if case else None, "failed": [], "mismatch": None, "ghostless": False}
    if case is None:
        return rec
    full = {k: (v[1] if isinstance(v, tuple) and v and v[0] == "lit" else v) for k, v in case.params.items()
            if not (isinstance(v, str) and v in ("str", "int", "bool")) and not (isinstance(v, tuple) and v and v[0] in ("dict", "tuple"))}
    full.update(kwargs)
    real = driver.real_call(contract, full)
    try:
        if not use_engine:
            # a contract over opaque callees: the engine's run has no CPython counterpart (fresh results for the opaque calls), but its clauses that speak
            # about arguments and result only are evaluated on what the REAL composite returns - the check that the modelling assumptions did not change the claim
            raise Unsupported("contract over opaque callees: clauses about arguments and result are evaluated on the real code, the engine is not compared")
        conc = driver.concrete_run(contract, registry, full, case)
    except Unsupported as e:
        conc = None
        rec["ghostless"] = str(e)[:120]
    except Exception as e:  # noqa
        conc = None
        rec["ghostless"] = "%s: %s" % (type(e).__name__, str(e)[:120])
    cut = bool(conc and conc.get("cut"))
    if conc is not None and not cut:
        same = conc["outcome"] == real["outcome"] and (
            driver.same_value(conc["value"], real["value"]) if conc["outcome"] == "return" else conc["value"] == real["value"])
        if not same:
            rec["mismatch"] = {"engine": repr(conc)[:300], "cpython": repr({k: real[k] for k in ("outcome", "value")})[:300]}
            return rec
    ghosts = conc["ghosts"] if conc else {}
    rec["outcome"] = real["outcome"]
    rec["value"] = repr(real["value"])[:200]
    if real["outcome"] == "raise" and cut:
        # a cut-point contract speaks about the state at the cut: clauses that do not mention `result` are decided from the ghosts
        for cl in contract.ensures:
            if (cl.when is None or case.name in cl.when) and not V._re_word("result", cl.text):
                try:
                    if not driver.eval_clause_py(contract, cl.text, full, None, ghosts, real=real):
                        rec["failed"].append({"clause": cl.id, "text": cl.text})
                except Exception as e:  # noqa
                    rec.setdefault("errors", []).append("%s: %s: %s" % (cl.id, type(e).__name__, e))
        return rec
    if real["outcome"] == "raise":
        allowed = next((contract.raises[n] for n in real.get("mro", [real["value"]]) if n in contract.raises), None)  # a subclass is allowed with its base
        okr = False
        if allowed is True:
            okr = True
        elif allowed is not None:
            try:
                okr = driver.eval_clause_py(contract, allowed, full, None, ghosts, real=real)
            except Exception:
                okr = False
        if not okr:
            rec["failed"].append({"clause": "no-%s" % real["value"], "text": "must not raise %s (%s)" % (real["value"], real.get("msg", ""))})
        return rec
    for cl in contract.ensures:
        if cl.when is not None and case.name not in cl.when:
            continue
        try:
            okc = driver.eval_clause_py(contract, cl.text, full, real["value"], ghosts, real=real)
        except NameError as e:
            if conc is None:
                continue  # ghost not available without an engine run
            okc = False
            rec.setdefault("errors", []).append("%s: %s" % (cl.id, e))
            continue
        except Exception as e:  # noqa
            rec.setdefault("errors", []).append("%s: %s: %s" % (cl.id, type(e).__name__, e))
            continue
        if not okc:
            rec["failed"].append({"clause": cl.id, "text": cl.text})
    return rec


def run_corpus(key, corpus, procs=16, use_engine=True):
    jobs = [(key, kw, use_engine) for kw in corpus]
    if not jobs:
        return []
    if procs <= 1 or len(jobs) < 8:
        return [_check_one(j) for j in jobs]
    ctx = mp.get_context("fork")
    with ctx.Pool(min(procs, len(jobs))) as pool:
        return pool.map(_check_one, jobs, chunksize=max(1, len(jobs) // (procs * 4)))
