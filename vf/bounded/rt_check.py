"""Runs round-trip contracts over D_IR in worker processes and reports diff entries to a Run."""
import multiprocessing as mp

from vf import common
from vf.bounded import ir_domain, ir_findings, roundtrip


def _work(job):
    kind, oi, opts, label, ir = job
    from vf.pyvc.verify import preimport_meta

    preimport_meta()
    out, err = roundtrip.roundtrip(kind, ir, opts)
    if err:
        return (kind, oi, label, err, None)
    return (kind, oi, label, None, roundtrip.diff_ir(ir, out, kind, opts))


def path_class(path):
    parts = path.split(".")
    if parts[0] == "params" and len(parts) == 3:
        return "params.*." + parts[2]
    return path


def run_roundtrips(run, pid, kinds_opts, tier, seed, domain=None, contract_name="rt"):
    """kinds_opts: list of (kind, [opts,...]).  Returns stats for the evidence file."""
    dom = domain if domain is not None else ir_domain.domain(tier, seed)
    irs = dict(dom)
    jobs = []
    for kind, opt_list in kinds_opts:
        for oi, opts in enumerate(opt_list):
            for label, ir in dom:
                jobs.append((kind, oi, opts, label, ir))
    ctx = mp.get_context("fork")
    with ctx.Pool(16) as pool:
        res = pool.map(_work, jobs, chunksize=32)
    optmap = {(k, oi): o for k, ol in kinds_opts for oi, o in enumerate(ol)}
    n_pass = n_fail = 0
    distinct = set()
    samples = []
    per_kind = {}
    for kind, oi, label, err, diffs in res:
        ir = irs[label]
        opts = optmap[(kind, oi)]
        key = common.sha([kind, opts, ir])
        distinct.add(key) if ir_domain.nontrivial(ir) else None
        pk = per_kind.setdefault(kind, {"cases": 0, "pass": 0, "known": 0, "violations": 0})
        pk["cases"] += 1
        if err is None and not diffs:
            n_pass += 1
            pk["pass"] += 1
            if len(samples) < 4 and ir_domain.nontrivial(ir):
                samples.append({"kind": kind, "options": opts, "ir": ir})
            continue
        n_fail += 1
        entries = [{"path": "<exception>", "want": "no exception", "got": err}] if err else diffs
        for d in entries:
            c = ir_findings.context(kind, opts, ir, d if not err else None, exc=err)
            if err:
                c.update(path="<exception>", field="<exception>")
            ob = "%s_%s/%s" % (contract_name, kind, path_class(d["path"]))
            r = run.failure(ob, "%s(%s) case %s: %s: want %r, got %r" % (contract_name, kind, label, d["path"], d["want"], d["got"]),
                            {"kind": "roundtrip", "rt_kind": kind, "options": opts, "label": label, "ir": ir, "diff": d, "_ctx": c})
            pk["known" if r == "known" else "violations"] += 1
    # contexts hold lambdas: drop them from stored payloads
    for v in run.violations:
        v["payload"].pop("_ctx", None)
    return {"cases": len(res), "pass": n_pass, "fail": n_fail, "distinct_nontrivial": len(distinct), "samples": samples,
            "per_kind": per_kind, "domain_size": len(dom)}
