"""Subprocess worker for C18: DOCTRANS_LINE_LENGTH is read once at import, so every width needs its own process.
Prints one JSON document: {"width":..., "cases":N, "fails":[...]}"""
import json
import os
import sys

sys.path.insert(0, os.path.dirname(os.path.dirname(os.path.dirname(os.path.abspath(__file__)))))


def words(n, stem):
    out, k = [], 0
    while len(" ".join(out)) < n:
        out.append(stem + str(k))
        k += 1
    return " ".join(out)


def domain(width):
    from vf.bounded import ir_domain as D

    w = width or 100
    irs = []
    lens = (10, w - 12, w, w + 15, 3 * w)
    long_typ = "Union[Tuple[tf.data.Dataset, tf.data.Dataset], Tuple[np.ndarray, np.ndarray], Tuple[Any, Any]]"
    for si, sl in enumerate(lens):
        for pi, pl in enumerate(lens):
            for typ in ("int", long_typ):
                a = D.atom("alpha", typ, None, 7 if typ == "int" else D.ABSENT)
                a["doc"] = words(pl, "p")
                b = D.atom("beta", "str", None, "mnist")
                b["doc"] = words(max(5, pl // 2), "q") + "."
                ir = D.make_ir([("alpha", a), ("beta", b)], {"typ": typ, "doc": words(pl, "r")} if (si + pi) % 2 else None,
                               summary=words(sl, "s") + ".")
                irs.append(("w.s%d.p%d.%s" % (si, pi, "long" if typ != "int" else "int"), ir))
    # a fine sweep of prose lengths around the width: the default sentence ("Defaults to <v>") must be allowed to break anywhere
    def exact(n, stem):
        t = words(n, stem)
        return (t[:n] if len(t) >= n else t + "x" * (n - len(t))).rstrip()

    for delta in range(0, 34):
        a = D.atom("alpha", "int", None, 7)
        a["doc"] = exact(w - 40 + delta, "p")
        b = D.atom("beta", "str", None, "mnist")
        b["doc"] = exact(w - 44 + delta, "q")
        irs.append(("w.fine%d" % delta, D.make_ir([("alpha", a), ("beta", b)], None, summary="Summary.")))
    # type strings whose ':type name: ```T```' / ':rtype: ```T```' line lands just below, at and just above the width (at indent levels 0..2)
    def exact_typ(n):
        opts = []
        while len("Literal[%s]" % ", ".join(opts + ["'o%02d'" % len(opts)])) <= n:
            opts.append("'o%02d'" % len(opts))
        t = "Literal[%s]" % ", ".join(opts)
        if len(t) < n and opts:
            opts[-1] = opts[-1][:-1] + "x" * (n - len(t)) + "'"
            t = "Literal[%s]" % ", ".join(opts)
        return t

    for delta in range(0, 32):
        typ = exact_typ(max(14, w - 46 + delta))
        a = D.atom("alpha", typ, "the alpha", D.ABSENT)
        irs.append(("w.typ%d" % delta, D.make_ir([("alpha", a)], {"typ": typ, "doc": "the result"} if delta % 2 else None, summary="Summary.")))
    # free-standing dashes and hyphenated words in prose that wraps (a line may end on the dash)
    for delta in range(0, 24, 2):
        a = D.atom("alpha", "int", None, D.ABSENT)
        a["doc"] = exact(w - 30 + delta, "p") + " - otherwise they are ignored - and a well-known trade-off is made"
        irs.append(("w.dash%d" % delta, D.make_ir([("alpha", a)], None, summary="Summary.")))
    # the default sentence in the MIDDLE of the prose (what a hand-written docstring looks like): the break may fall right after its full stop
    for delta in range(0, 30, 2):
        a = D.atom("alpha", "int", None, 4)
        a["doc"] = exact(w - 36 + delta, "p") + ". Defaults to 4. Values below one are clamped to one"
        b = D.atom("beta", "float", None, 0.5)
        b["doc"] = exact(w - 30 + delta, "q") + ". Defaults to 0.5. Larger values are cut off"
        irs.append(("w.mid%d" % delta, D.make_ir([("alpha", a), ("beta", b)], None, summary="Summary.")))
    # prose that itself carries the default sentence at its END, swept finely: with default text OFF the emitters remove the sentence - before or after
    # wrapping must not matter (the break may fall between "Defaults" and "to")
    for delta in range(0, 34):
        a = D.atom("alpha", "int", None, 4)
        a["doc"] = exact(w - 40 + delta, "p") + ". Defaults to 4"
        irs.append(("w.end%d" % delta, D.make_ir([("alpha", a)], None, summary="Summary.")))
    return irs


def main():
    width = os.environ.get("DOCTRANS_LINE_LENGTH")
    from vf.pyvc.verify import preimport_meta

    preimport_meta()
    res = {"width": width, "cases": 0, "fails": [], "import_error": None}
    try:
        from vf.bounded import roundtrip as R
    except Exception as e:  # noqa
        res["import_error"] = "%s: %s" % (type(e).__name__, e)
        print(json.dumps(res))
        return
    variants = [(k, {}) for k in R.KINDS] + [("function", {"inline_types": False}), ("method", {"inline_types": False})]  # types written in the docstring too
    variants += [(k, {"emit_default_doc": False}) for k in ("argparse", "class", "function", "rest")]  # default text off: the sentence in the prose is removed
    for label, ir in domain(int(width) if width else None):
        for kind, extra in variants:
            if "inline_types" in extra and not label.startswith(("w.typ", "w.fine", "w.s0")):
                continue
            if "emit_default_doc" in extra and not label.startswith(("w.mid", "w.end")):
                continue
            o_w = dict(R.default_opts(kind), word_wrap=True, **extra)
            o_n = dict(R.default_opts(kind), word_wrap=False, **extra)
            res["cases"] += 1
            try:
                a_w = R.emit_artifact(kind, ir, o_w)
            except Exception as e:  # noqa
                res["fails"].append({"label": label, "kind": kind, "path": "<emit-wrapped>", "got": "%s: %s" % (type(e).__name__, str(e)[:100])})
                continue
            out_w, e_w = R.roundtrip(kind, ir, o_w)
            out_n, e_n = R.roundtrip(kind, ir, o_n)
            try:
                changed = R.to_source(a_w) != R.to_source(R.emit_artifact(kind, ir, o_n))
            except Exception:
                changed = True
            if e_w or e_n:
                if (e_w or "").split(":")[0] != (e_n or "").split(":")[0]:
                    res["fails"].append({"label": label, "kind": kind, "path": "<exception>", "want": e_n, "got": e_w, "wrapped_changed": changed})
                continue
            for d in R.diff_ir(out_n, out_w, "wrap", None):
                if d["path"].endswith(".typ") and isinstance(d["want"], str) and isinstance(d["got"], str):
                    # the length of the text the type is written in (':type name: ```T```', without the docstring's indentation - that is what the
                    # emitters measure against the width): whether a break was unavoidable on the unchanged tree
                    name = d["path"].split(".")[1] if d["path"].startswith("params.") else ""
                    d["type_line_len"] = len(d["want"]) + (len(":type %s: ``````" % name) if name else len(":rtype: ``````"))
                    d["typ_ws_only"] = "".join(d["want"].split()) == "".join(d["got"].split())
                d.update(label=label, kind=kind + ("+doc-types" if "inline_types" in extra else "+no-default-text" if extra else ""), wrapped_changed=changed)
                d["want"], d["got"] = repr(d["want"])[:160], repr(d["got"])[:160]
                res["fails"].append(d)
    print(json.dumps(res))


if __name__ == "__main__":
    main()
