"""
Declarative matchers for round-trip findings: an open finding carries `kinds` and a `cond` (a Python boolean
expression over the failing diff entry and the *input* IR).  A diff entry no finding explains is a VIOLATION.
"""
import ast as _ast

from vf import findings
from vf.bounded.ir_domain import ABSENT

SIMPLE = {"int": 0, "float": 0.0, "complex": 0j, "str": "", "bool": False}


def tname(v):
    return type(v).__name__


def zero(typ):
    return SIMPLE.get(typ, None)


def literal_ok(text):
    try:
        _ast.literal_eval(text)
        return True
    except Exception:
        return False


def unbt(v):
    return v[3:-3] if isinstance(v, str) and len(v) > 6 and v.startswith("```") and v.endswith("```") else v


def context(kind, opts, ir, entry_diff=None, exc=None):
    params = list(ir["params"].items())
    ret = (ir.get("returns") or {}).get("return_type")
    ctx = {
        "kind": kind, "opts": opts, "ir": ir, "params": params, "ret": ret, "exc": exc or "",
        "tname": tname, "zero": zero, "literal_ok": literal_ok, "unbt": unbt, "ABSENT": ABSENT, "SIMPLE": SIMPLE,
        "untyped": lambda p: not p.get("typ"), "noprose": lambda p: not p.get("doc"), "has_default": lambda p: "default" in p,
        "any_untyped": any(not p.get("typ") for _, p in params),
        "all_untyped": all(not p.get("typ") for _, p in params),
        "any_default": any("default" in p for _, p in params),
        "entries": [p for _, p in params] + ([ret] if ret else []),
        "path": "", "want": None, "got": None, "name": None, "p": {}, "idx": -1, "field": "",
    }
    if entry_diff is not None:
        path = entry_diff["path"]
        ctx.update(path=path, want=entry_diff["want"], got=entry_diff["got"])
        parts = path.split(".")
        ctx["field"] = parts[-1]
        if parts[0] == "params" and len(parts) == 3:
            ctx["name"] = parts[1]
            ctx["p"] = ir["params"].get(parts[1], {})
            ctx["idx"] = [n for n, _ in params].index(parts[1]) if parts[1] in ir["params"] else -1
            ctx["earlier_default"] = any("default" in p for _, p in params[: ctx["idx"]])
        elif parts[0] == "returns":
            ctx["name"] = "return_type"
            ctx["p"] = ret or {}
            ctx["idx"] = len(params)
            ctx["earlier_default"] = ctx["any_default"]
    return ctx


@findings.matcher("ir_cond")
def _ir_cond(failure, fd):
    ks = failure.get("rt_kinds") or {failure.get("rt_kind")}
    if not (set(fd.get("kinds", ())) & set(ks)):
        return False
    ctx = failure.get("_ctx")
    if ctx is None:
        return False
    try:
        g = {"__builtins__": {"any": any, "all": all, "len": len, "isinstance": isinstance, "str": str,
                              "int": int, "float": float, "bool": bool, "list": list, "tuple": tuple,
                              "type": type, "set": set, "sorted": sorted, "repr": repr}}
        g.update(ctx)  # one namespace: generator expressions inside `cond` cannot see eval()'s locals
        return bool(eval(fd["cond"], g))
    except Exception:
        return False
