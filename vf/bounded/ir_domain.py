"""
D_IR: the bounded-exhaustive domain of interface descriptions shared by C01-C06, C08, C13, C18 (DESIGN 4).
Deterministic; VERIF_SEED only adds random draws on top in the thorough tier.
"""
import itertools
import random
from collections import OrderedDict
from copy import deepcopy

TYPES = (None, "str", "int", "float", "bool", "Optional[str]", "Optional[int]", "Optional[bool]", "Optional[float]", "List[str]",
         "Literal['a', 'b']", "Union[int, str]", "Tuple[int, str]", "np.ndarray")
PROSE = (None, "the {n}", "The {n} value.", "{n}, (scaled) and `raw` at 2.5 sigma")
ABSENT = "<absent>"
DEFAULTS = (ABSENT, None, 0, -3, 7, 2.5, 0.0, True, False, "mnist", "```foo(1)```", "```(1, 2)```")

# which defaults a type can describe (the supported domain pairs a value with a type that fits it)
COMPAT = {
    None: DEFAULTS,
    "str": (ABSENT, "mnist"),
    "int": (ABSENT, 0, -3, 7),
    "float": (ABSENT, 2.5, 0.0),
    "bool": (ABSENT, True, False),
    "Optional[str]": (ABSENT, None, "mnist"),
    "Optional[int]": (ABSENT, None, 7, 0, -1),
    "Optional[bool]": (ABSENT, None, False, True),
    "Optional[float]": (ABSENT, None, 0.0, 2.5),
    "List[str]": (ABSENT, None),
    "Literal['a', 'b']": (ABSENT, "a"),
    "Union[int, str]": (ABSENT, 7, 0, "mnist"),
    "Tuple[int, str]": (ABSENT, "```(1, 2)```"),
    "np.ndarray": (ABSENT, None, "```foo(1)```"),
}
NAMES = ("alpha", "beta", "gamma")


def atom(name, typ, prose, default):
    p = OrderedDict()
    if typ is not None:
        p["typ"] = typ
    if prose is not None:
        p["doc"] = prose.format(n=name)
    if default is not ABSENT:
        p["default"] = default
    return p


def all_atoms(name):
    out = []
    for typ in TYPES:
        for prose in PROSE:
            for d in COMPAT[typ]:
                out.append(atom(name, typ, prose, d))
    return out


RETURNS = (
    None,
    {"typ": "int", "doc": "the result"},
    {"typ": "Tuple[int, str]", "doc": "the pair.", "default": "```(alpha, 'x')```"},
    {"typ": "int", "doc": "the result", "default": "```alpha```"},
    {"typ": "int", "doc": "the count", "default": 0},
)
SUMMARIES = ("Summary of f.", "Summary of f\nover two lines.")


def make_ir(params, returns=None, summary=SUMMARIES[0], kwargs=False, name="f", typ="static"):
    ps = OrderedDict((n, deepcopy(p)) for n, p in params)
    if kwargs:
        ps["kwargs"] = OrderedDict((("typ", "Optional[dict]"), ("doc", "extra options"), ("default", None)))
    return {
        "name": name,
        "type": typ,
        "doc": summary,
        "params": ps,
        "returns": None if returns is None else OrderedDict((("return_type", deepcopy(returns)),)),
    }


def _reduced_atoms(name):
    """quotient {default present/absent} x {type class} used for pairs and triples"""
    picks = [
        (None, "the {n}", ABSENT), (None, "the {n}", 7), ("str", "The {n} value.", "mnist"), ("int", "the {n}", ABSENT),
        ("int", "the {n}", -3), ("bool", "the {n}", True), ("Optional[str]", "the {n}", None), ("float", None, 2.5),
        ("Literal['a', 'b']", "the {n}", "a"), ("List[str]", "The {n} value.", ABSENT), ("Union[int, str]", "the {n}", 7),
        ("Tuple[int, str]", "the {n}", "```(1, 2)```"), ("Optional[int]", "the {n}", 0), ("Optional[bool]", "The {n} value.", False),
    ]
    return [atom(name, *p) for p in picks]


# edge atoms: shapes that two waves of seeded changes needed and the product above does not contain (prose that opens with "Optional" /
# "optional", a Literal member with a space, a default text with mixed quotes, a long str default that wraps, a required float)
EDGE_ATOMS = (
    ("Optional[int]", "Optional {n} of the run", None), ("int", "optional {n} of the run", 3), ("float", "optionally scaled {n}", 2.5),
    ("Literal['fast path', 'slow']", "the {n}", "slow"), ("Literal['fast path', 'slow']", "the {n} " + "very " * 12 + "long", "fast path"),
    ("str", "the {n}", "hello world and quite a few more words so that a wrapped line breaks inside the default text somewhere"),
    ("float", "the {n}", ABSENT), ("Optional[float]", "the {n}", ABSENT), ("str", "the {n}", "it's"), ("Optional[List[str]]", "the {n}", None),
    ("Union[int, float]", "the {n}", 2.5), ("Tuple[int, int]", "the {n}", "```(1, 2)```"), ("List[int]", "the {n}", "```[16, 32]```"),
    ("List[int]", "the {n}", "```n```"), ("int", "Optional {n} of the run", 3),
    # prose that wraps, with hyphenated words wherever the break may fall (at every docstring indentation)
    ("int", "the {n} of a multi-layer feed-forward high-level well-known state-of-the-art trade-off in a long-running fine-grained multi-layer feed-forward high-level set-up", 3),
)


def domain(tier="quick", seed=0):
    """list of (label, ir)"""
    out = []
    for e_i, (typ, prose, d) in enumerate(EDGE_ATOMS):
        out.append(("e%d" % e_i, make_ir([("alpha", atom("alpha", typ, prose, d))], RETURNS[e_i % 2])))
    # every return shape alone
    for r_i, r in enumerate(RETURNS):
        out.append(("ret%d" % r_i, make_ir([], r)))
    # every atom as a single parameter x 2 return shapes x summaries
    for a_i, a in enumerate(all_atoms("alpha")):
        for r_i in ((0, 1) if tier == "quick" else (0, 1, 2, 3)):
            out.append(("a%d.r%d" % (a_i, r_i), make_ir([("alpha", a)], RETURNS[r_i], SUMMARIES[a_i % 2])))
    # ordered pairs over the reduced atoms
    ra, rb = _reduced_atoms("alpha"), _reduced_atoms("beta")
    for i, a in enumerate(ra):
        for j, b in enumerate(rb):
            out.append(("p%d.%d" % (i, j), make_ir([("alpha", a), ("beta", b)], RETURNS[(i + j) % 2])))
    # covering triples + kwargs rows
    rc = _reduced_atoms("gamma")
    for i in range(len(ra)):
        out.append(("t%d" % i, make_ir([("alpha", ra[i]), ("beta", rb[(i + 3) % len(rb)]), ("gamma", rc[(i + 7) % len(rc)])], RETURNS[i % 5])))
        out.append(("k%d" % i, make_ir([("alpha", ra[i])], RETURNS[i % 2], kwargs=True)))
    if tier == "thorough":
        rnd = random.Random(seed)
        atoms = {n: all_atoms(n) for n in NAMES}
        for k in range(1500):
            n = rnd.randint(1, 3)
            ps = [(NAMES[q], rnd.choice(atoms[NAMES[q]])) for q in range(n)]
            out.append(("r%d" % k, make_ir(ps, rnd.choice(RETURNS), rnd.choice(SUMMARIES), kwargs=rnd.random() < 0.2)))
    return out


def nontrivial(ir):
    return bool(ir["params"]) or ir["returns"] is not None
