"""
Whole-conversion contracts outside the verifier's reach, checked at run time on the real functions over D_IR
(BOUNDED stand-in, DESIGN 4).  rt_<kind>(ir, options) = parse_kind(emit_kind(copy(ir))) compared with `ir` by an
independent oracle.  Nothing here calls doctrans to decide what is right.
"""
import ast
from collections import OrderedDict
from copy import deepcopy

from vf.bounded.ir_domain import ABSENT

STYLES = ("rest", "numpydoc", "google")
KINDS = ("rest", "numpydoc", "google", "class", "function", "method", "argparse")
NONE_SPELLINGS = (None, "None", "```(None)```", "```None```")


def _imports():
    from vf.pyvc.verify import preimport_meta

    preimport_meta()
    from doctrans import emit, parse
    from doctrans.source_transformer import to_code

    return emit, parse, to_code


def default_opts(kind):
    if kind in STYLES:
        return {"word_wrap": True, "emit_default_doc": True}
    if kind == "class":
        return {"word_wrap": True, "emit_default_doc": True}
    if kind in ("function", "method"):
        return {"function_type": "static" if kind == "function" else "self", "inline_types": True, "emit_as_kwonlyargs": True,
                "indent_level": 2 if kind == "method" else 1, "emit_default_doc": True, "word_wrap": True}
    if kind == "argparse":
        return {"word_wrap": True, "emit_default_doc": True}
    raise ValueError(kind)


def emit_artifact(kind, ir, opts):
    """-> ('text', str) for docstrings, ('ast', node) otherwise. The IR is deep-copied first."""
    emit, parse, to_code = _imports()
    ir = deepcopy(ir)
    if kind in STYLES:
        return "text", emit.docstring(ir, docstring_format=kind, word_wrap=opts["word_wrap"], emit_default_doc=opts["emit_default_doc"])
    if kind == "class":
        return "ast", emit.class_(ir, class_name="C", word_wrap=opts["word_wrap"], emit_default_doc=opts["emit_default_doc"])
    if kind in ("function", "method"):
        return "ast", emit.function(
            ir, function_name="f", function_type=opts["function_type"], word_wrap=opts["word_wrap"],
            emit_default_doc=opts["emit_default_doc"], inline_types=opts["inline_types"],
            emit_as_kwonlyargs=opts["emit_as_kwonlyargs"], indent_level=opts["indent_level"])
    if kind == "argparse":
        return "ast", emit.argparse_function(ir, function_name="set_cli_args", word_wrap=opts["word_wrap"], emit_default_doc=opts["emit_default_doc"])
    raise ValueError(kind)


def to_source(art):
    emit, parse, to_code = _imports()
    return art[1] if art[0] == "text" else to_code(art[1])


def parse_artifact(kind, art, opts, via_source=True):
    emit, parse, to_code = _imports()
    if kind in STYLES:
        return parse.docstring(art[1], emit_default_doc=True)
    node = art[1]
    if via_source:
        node = ast.parse(to_code(node)).body[0]
    if kind == "class":
        return parse.class_(node)
    if kind in ("function", "method"):
        return parse.function(node)
    if kind == "argparse":
        return parse.argparse_ast(node)
    raise ValueError(kind)


def roundtrip(kind, ir, opts):
    """-> (ir_out, None) or (None, 'ExcType: msg @ phase')"""
    try:
        art = emit_artifact(kind, ir, opts)
    except Exception as e:  # noqa
        return None, "%s in emit: %s" % (type(e).__name__, str(e)[:100])
    try:
        return parse_artifact(kind, art, opts), None
    except Exception as e:  # noqa
        return None, "%s in parse: %s" % (type(e).__name__, str(e)[:100])


# ------------------------------------------------------------------------------------------- oracle
def strip_default_sentence(doc):
    """the spec's own remover of a trailing default sentence (independent of doctrans' extract_default)"""
    if doc is None:
        return None
    for ann in (" Defaults to ", "Defaults to "):
        i = doc.rfind(ann)
        if i >= 0:
            return doc[:i].rstrip()
    return doc


def canon_doc(doc):
    if doc is None:
        return None
    d = strip_default_sentence(doc)
    d = " ".join(d.split())
    if d.endswith("."):
        d = d[:-1]
    return d or None


def unbacktick(v):
    if isinstance(v, str) and len(v) > 6 and v.startswith("```") and v.endswith("```"):
        v = v[3:-3]
        if v.startswith("(") and v.endswith(")") and _balanced(v[1:-1]):
            pass
    return v


def _balanced(s):
    d = 0
    for ch in s:
        if ch == "(":
            d += 1
        elif ch == ")":
            d -= 1
            if d < 0:
                return False
    return d == 0


def canon_default(p):
    """(present?, type name, value) with the IR's spellings of None identified and the back-tick wrapper removed"""
    if "default" not in p:
        return ("absent", None, None)
    v = p["default"]
    if v in NONE_SPELLINGS and not isinstance(v, bool):
        return ("none", None, None)
    if isinstance(v, str):
        # oracle rule 3: the back-tick wrapper of an expression default is representation noise
        t = unbacktick(v).strip()
        if t.startswith("(") and t.endswith(")") and "," not in t and _balanced(t[1:-1]):
            t = t[1:-1]
        return ("value", "str", t)
    return ("value", type(v).__name__, v)


def _kset(kind):
    return {kind} if isinstance(kind, str) else set(kind)


def diff_param(path, want, got, out, kind, opts=None):
    ks = _kset(kind)
    wt, gt = want.get("typ"), got.get("typ")
    if "argparse" in ks and wt is None and "default" not in want:
        wt = "str"
    if "argparse" in ks and path.startswith("params") and wt is not None and (wt.startswith(("Union[", "Tuple[")) or "." in wt):
        # N_argparse: inexpressible types fall back to str (or to the scalar type of the explicit default)
        ok_t = {"str", "Optional[str]"}
        if "default" in want and want["default"] is not None:
            ok_t |= {type(want["default"]).__name__, "Optional[%s]" % type(want["default"]).__name__}
        wt = gt if gt in ok_t else "str"  # N_argparse: a type argparse cannot express (here: none given) falls back to str
    if wt != gt:
        out.append({"path": path + ".typ", "want": wt, "got": gt})
    if "wrap" in ks:
        # relational comparison of two parses of the same description: only runs of whitespace may differ
        wd, gd = " ".join((want.get("doc") or "").split()) or None, " ".join((got.get("doc") or "").split()) or None
    else:
        wd, gd = canon_doc(want.get("doc")), canon_doc(got.get("doc"))
    if wd != gd:
        out.append({"path": path + ".doc", "want": wd, "got": gd})
    if (ks & set(STYLES)) and opts is not None and not opts.get("emit_default_doc", True):
        return  # without default text the defaults are by construction not in a docstring (C01's quantifier)
    wv, gv = canon_default(want), canon_default(got)
    if wv[0] == "absent" and "class" in ks:
        # N_class (the property's own documented normalisation): no default -> zero value of the type, or None
        z = {"int": 0, "float": 0.0, "str": "", "bool": False, "complex": 0j}.get(want.get("typ"), None)
        wv = ("none", None, None) if z is None else ("value", type(z).__name__, z)
    if "argparse" in ks:
        # N_argparse: a required option without default acquires the zero value of its type; an Optional one has
        # no default, which argparse cannot tell from an explicit None
        t = want.get("typ") or "str"
        if t.startswith("Optional"):
            if wv[0] in ("absent", "none") and gv[0] in ("absent", "none"):
                gv = wv
        elif wv[0] == "absent":
            z = {"int": 0, "float": 0.0, "str": "", "bool": False, "complex": 0j}.get(t, None)
            wv = ("none", None, None) if z is None else ("value", type(z).__name__, z)
            if wv[0] == "none" and gv[0] == "absent":
                gv = wv
    if wv != gv:
        out.append({"path": path + ".default", "want": wv, "got": gv})


def diff_ir(ir_in, ir_out, kind, opts=None):
    out = []
    if " ".join((ir_in.get("doc") or "").split()) != " ".join((ir_out.get("doc") or "").split()):
        out.append({"path": "doc", "want": ir_in.get("doc"), "got": ir_out.get("doc")})
    win = list(ir_in["params"].keys())
    wout = list((ir_out.get("params") or {}).keys())
    if win != wout:
        out.append({"path": "params.<names>", "want": win, "got": wout})
    for n in win:
        if n in (ir_out.get("params") or {}):
            diff_param("params." + n, ir_in["params"][n], ir_out["params"][n], out, kind, opts)
    rin = (ir_in.get("returns") or {}).get("return_type")
    rout = (ir_out.get("returns") or {}).get("return_type")
    if "argparse" in _kset(kind) and rin is not None and "default" not in rin:
        return out  # C04 claims only "a return entry that carries a default"
    if (rin is None) != (rout is None):
        if not (rin is None and rout == {}):
            out.append({"path": "returns.<presence>", "want": rin, "got": rout})
    elif rin is not None:
        diff_param("returns", rin, rout, out, kind, opts)
    return out


def chain(kinds, ir, opts_of):
    """emit/parse through every kind in turn -> (final ir, None) | (None, error)"""
    cur = ir
    for k in kinds:
        cur, err = roundtrip(k, _for_emit(cur), opts_of(k))
        if err:
            return None, "%s at hop %s" % (err, k)
    return cur, None


def _for_emit(ir):
    """a parsed IR as the next emitter's input (name/type/doc present; returns None allowed)"""
    ir = deepcopy(ir)
    ir.setdefault("name", "f")
    if ir.get("doc") is None:
        ir["doc"] = ""
    if ir.get("params") is None:
        ir["params"] = OrderedDict()
    ir.setdefault("returns", None)
    ir.pop("_internal", None)
    return ir
