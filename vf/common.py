"""Shared plumbing: evidence files, replay files, known findings, verdict lines, exit codes."""
import hashlib
import json
import os
import sys
import time

VERIF = os.path.dirname(os.path.dirname(os.path.abspath(__file__)))
# where evidence/ and replays/ are written: /verif itself, unless a developer tool (seed verification on scratch copies) redirects it
OUT = os.environ.get("VERIF_OUT") or VERIF
REPO = os.environ.get("DOCTRANS_REPO", "/repo")
EXIT_OK, EXIT_VIOLATION, EXIT_FAULT = 0, 1, 3


def jdefault(o):
    if isinstance(o, (set, frozenset)):
        return sorted(o, key=repr)
    if isinstance(o, bytes):
        return o.decode("latin-1")
    return repr(o)


def dumps(o, **kw):
    return json.dumps(o, default=jdefault, **kw)


def sha(o):
    return hashlib.sha256(dumps(o, sort_keys=True).encode()).hexdigest()


def load_findings():
    with open(os.path.join(VERIF, "known_findings.json")) as f:
        return json.load(f)


class Run:
    """one execution of one property's check"""

    def __init__(self, pid, tier=None, seed=None):
        self.pid = pid
        self.tier = tier or os.environ.get("VERIF_TIER") or "quick"
        if self.tier not in ("quick", "thorough"):
            self.tier = "quick"
        try:
            self.seed = int(seed if seed is not None else os.environ.get("VERIF_SEED", "0"))
        except ValueError:
            self.seed = 0
        self.t0 = time.time()
        self.violations = []
        self.known_hits = {}
        self.faults = []
        self.notes = []
        self.findings = load_findings()

    # -- findings ---------------------------------------------------------------------------
    def match_known(self, failure):
        """failure: dict(obligation=..., input=..., observed=...). -> finding id or None"""
        from vf import findings

        for fd in self.findings.get("open", []):
            if fd["property"] != self.pid and self.pid not in fd.get("also", []):
                continue
            if findings.matches(fd, failure):
                return fd
        return None

    def failure(self, obligation, what, payload, no_input=False):
        """Report a failed obligation / contract clause. Known findings are counted, others are violations."""
        failure = dict(payload)
        failure["obligation"] = obligation
        failure["property"] = self.pid
        fd = self.match_known(failure)
        if fd is not None:
            hit = self.known_hits.setdefault(fd["id"], {"finding": fd, "count": 0, "example": None})
            hit["count"] += 1
            if hit["example"] is None:
                hit["example"] = {"obligation": obligation, "what": what[:300]}
            return "known"
        self.violations.append({"obligation": obligation, "what": what, "payload": failure, "no_input": no_input})
        return "violation"

    def fault(self, msg):
        self.faults.append(msg)

    # -- output -----------------------------------------------------------------------------
    def write_replay(self, v):
        d = os.path.join(OUT, "replays", self.pid)
        os.makedirs(d, exist_ok=True)
        name = "%s-%s.json" % (self.pid, sha(v)[:12])
        path = os.path.join(d, name)
        with open(path, "wt") as f:
            f.write(dumps({"property": self.pid, "obligation": v["obligation"], "what": v["what"], "payload": v["payload"],
                           "no_failing_input_found": v["no_input"], "repo": REPO}, indent=1))
        return path

    def finish(self, level, coverage, assumptions, extra=None):
        wall = round(time.time() - self.t0, 2)
        tot = getattr(self, "_ded_totals", None)
        if tot and isinstance(coverage, dict):
            # every evidence file names the back ends that discharged its deductive obligations, the solver time and the per-obligation budget
            coverage.setdefault("by_backend", dict(tot["by_backend"]))
            coverage.setdefault("solver_ms_total", tot["solver_ms_total"])
            coverage.setdefault("n_undecided", tot["n_undecided"])
            coverage.setdefault("solver_budget_s_per_obligation", tot["budget_s"])
        os.makedirs(os.path.join(OUT, "evidence"), exist_ok=True)
        # group violations by obligation: one VIOLATION line per obligation (first example), all stored
        lines = []
        seen = {}
        for v in self.violations:
            key = v["obligation"]
            if key in seen:
                seen[key]["more"] += 1
                continue
            path = self.write_replay(v)
            seen[key] = {"path": path, "more": 0, "v": v}
        for key, info in seen.items():
            tail = " no-failing-input-found" if info["v"]["no_input"] else ""
            lines.append("VIOLATION property=%s replay=%s obligation=%s%s" % (self.pid, info["path"], key.replace(" ", "_"), tail))
        ev = {
            "property_id": self.pid,
            "tier": self.tier,
            "seed": self.seed,
            "level": level,
            "coverage": coverage,
            "assumptions": list(assumptions),
            "wall_s": wall,
            "violations": len(seen),
        }
        if extra:
            ev.update(extra)
        ev["known_findings_hit"] = [
            {"id": h["finding"]["id"], "what": h["finding"]["what"], "count": h["count"], "example": h["example"]}
            for h in self.known_hits.values()
        ]
        ev["violation_details"] = [
            {"obligation": k, "what": i["v"]["what"][:500], "replay": i["path"], "more_cases": i["more"]} for k, i in seen.items()
        ]
        ev["checker_faults"] = self.faults
        with open(os.path.join(OUT, "evidence", "%s.json" % self.pid), "wt") as f:
            f.write(dumps(ev, indent=1))
        for h in self.known_hits.values():
            print("KNOWN-FINDING: property=%s %s [%s; %d case(s) this run]" % (self.pid, h["finding"]["what"], h["finding"]["id"], h["count"]))
        for ln in lines:
            print(ln)
        if self.faults:
            for m in self.faults:
                print("CHECKER-FAULT property=%s %s" % (self.pid, m))
            return EXIT_FAULT
        if lines:
            return EXIT_VIOLATION
        print("OK property=%s tier=%s wall=%.1fs" % (self.pid, self.tier, wall))
        return EXIT_OK
