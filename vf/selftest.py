"""
./check selftest  - developer tool (not a registered check): guards the machinery itself (DESIGN 7).
On a scratch copy of /repo (under $TMPDIR, removed afterwards):
  * every seeded change in /verif/seeded must make its property's check exit 1;
  * three harmless edits of functions under contract (renamed local, reordered independent statements, a membership test over a
    tuple instead of a frozenset) must leave C17 at exit 0 with every obligation discharged.
"""
import json
import os
import shutil
import subprocess
import sys
import tempfile

from vf import common

# (name, file, substitutions, property whose check must stay at exit 0; C17 must also keep every obligation discharged)
HARMLESS_OTHER = [
    ("rename-local:emit.function", "doctrans/emit.py", [("args_from_params", "from_params_args")], "C03"),
    ("rename-local:find_in_ast", "doctrans/ast_utils.py", [("current_search", "remaining_search")], "C15"),
    ("rename-local:_interpolate_return", "doctrans/parser_utils.py", [("return_ast", "final_return")], "C07"),
    ("reorder-independent:emit.class_", "doctrans/emit.py",
     [("    indent_level = 1\n    sep = indent_level * tab\n    return ClassDef(", "    indent_level = 1\n    sep = tab * indent_level\n    return ClassDef(")], "C16"),
    ("rename-local:google-_parse", "doctrans/docstring_parsers.py", [("offset = next(idx for", "colon_at = next(idx for"), ("scan[0][:offset]", "scan[0][:colon_at]"),
                                                                  ("scan[0][offset + 1 :]", "scan[0][colon_at + 1 :]")], "C01"),
    ("rename-local:to_docstring", "doctrans/emitter_utils.py", [("            doc, default = extract_default(\n                _param[\"doc\"], emit_default_doc=emit_default_doc\n            )\n"
                                                                 "            if default is not None:\n                _param[\"default\"] = default\n",
                                                                 "            doc, announced = extract_default(\n                _param[\"doc\"], emit_default_doc=emit_default_doc\n            )\n"
                                                                 "            if announced is not None:\n                _param[\"default\"] = announced\n")], "C02"),
    ("tuple-for-frozenset:annotate_ancestry", "doctrans/ast_utils.py", [('in frozenset(("self", "cls"))\n                            else 0,', 'in ("self", "cls")\n                            else 0,')], "C15"),
]
HARMLESS = [
    ("rename-local", "doctrans/defaults_utils.py", [("sub_l_len", "n_sub_l")]),
    ("reorder-independent", "doctrans/defaults_utils.py",
     [('    default = ""\n    par = {"{": 0, "[": 0, "(": 0, ")": 0, "]": 0, "}": 0}\n', '    par = {"{": 0, "[": 0, "(": 0, ")": 0, "]": 0, "}": 0}\n    default = ""\n')]),
    ("tuple-for-frozenset", "doctrans/pure_utils.py", [("s[0] in frozenset((\"'\", '\"'))", "s[0] in (\"'\", '\"')")]),
]


def _copy():
    d = tempfile.mkdtemp(prefix="vfself_")
    shutil.copytree(os.path.join(common.REPO, "doctrans"), os.path.join(d, "doctrans"))
    return d


def _check(pid, scratch):
    env = dict(os.environ, DOCTRANS_REPO=scratch, PYTHONPATH=scratch)
    r = subprocess.run([os.path.join(common.VERIF, "check"), pid], capture_output=True, text=True, env=env, cwd=common.VERIF)
    return r.returncode, [ln for ln in r.stdout.splitlines() if ln.startswith(("VIOLATION", "CHECKER-FAULT"))]


def main():
    ok = True
    seeds = sorted(d for d in os.listdir(os.path.join(common.VERIF, "seeded")) if os.path.isdir(os.path.join(common.VERIF, "seeded", d)))
    only = [a for a in sys.argv[2:]]
    for sd in seeds:
        if only and sd not in only and "harmless" not in only:
            continue
        if only == ["harmless"]:
            break
        meta = json.load(open(os.path.join(common.VERIF, "seeded", sd, "meta.json")))
        pid = meta.get("property") or sd.split("-")[0]
        scratch = _copy()
        try:
            r = subprocess.run(["git", "apply", "--directory", scratch, os.path.join(common.VERIF, "seeded", sd, "patch.diff")], capture_output=True, text=True, cwd=scratch)
            if r.returncode != 0:
                r = subprocess.run(["patch", "-p1", "-d", scratch, "-i", os.path.join(common.VERIF, "seeded", sd, "patch.diff")], capture_output=True, text=True)
            code, lines = _check(pid, scratch)
            if code != 1:
                # a seed written for one property may break it only through a mechanism another property's check decides (recorded when the seed was verified):
                # e.g. C20-4 damages what gen writes (C19's subject) and C03-4 the wrapped type line (C18's)
                for other, rec in sorted(((meta.get("verified_by_me") or {}).get("checks") or {}).items()):
                    if other != pid and rec.get("exit") == 1:
                        code, lines = _check(other, scratch)
                        pid = other
                        if code == 1:
                            break
            good = code == 1
            ok &= good
            print("%s seed %-7s -> %s exit=%d %s" % ("ok  " if good else "FAIL", sd, pid, code, (lines[0][:120] if lines else "")))
        finally:
            shutil.rmtree(scratch, ignore_errors=True)
    if not only or "harmless" in only:
        for name, path, subs in HARMLESS:
            scratch = _copy()
            try:
                fp = os.path.join(scratch, path)
                s = open(fp).read()
                for a, b in subs:
                    if a not in s:
                        print("FAIL harmless %s: anchor text not found" % name)
                        ok = False
                    s = s.replace(a, b)
                open(fp, "w").write(s)
                code, lines = _check("C17", scratch)
                ev = json.load(open(os.path.join(common.VERIF, "evidence", "C17.json")))
                good = code == 0 and ev["coverage"]["obligations"] == ev["coverage"]["discharged"]
                ok &= good
                print("%s harmless %-22s -> C17 exit=%d discharged %d/%d" % ("ok  " if good else "FAIL", name, code, ev["coverage"]["discharged"], ev["coverage"]["obligations"]))
            finally:
                shutil.rmtree(scratch, ignore_errors=True)
        for name, path, subs, pid in HARMLESS_OTHER:
            scratch = _copy()
            try:
                fp = os.path.join(scratch, path)
                s = open(fp).read()
                for a, b in subs:
                    if a not in s:
                        print("FAIL harmless %s: anchor text not found" % name)
                        ok = False
                    s = s.replace(a, b)
                open(fp, "w").write(s)
                code, lines = _check(pid, scratch)
                good = code == 0
                ok &= good
                print("%s harmless %-40s -> %s exit=%d %s" % ("ok  " if good else "FAIL", name, pid, code, lines[0][:120] if lines else ""))
            finally:
                shutil.rmtree(scratch, ignore_errors=True)
    print("SELFTEST", "PASSED" if ok else "FAILED")
    return 0 if ok else 1
