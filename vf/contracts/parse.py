"""Sidecar contracts for doctrans/parse.py."""
from vf.pyvc.verify import Case, Clause, Contract

NONESTR = "```(None)```"


def _name(i):
    return ("node", "ast.Name", {"id": i, "ctx": ("node", "ast.Store", {})})


def _annassign(target, value):
    return ("node", "ast.AnnAssign", {"target": _name(target), "annotation": ("obj", "ast.expr"), "value": value, "simple": 1})


_INT = ("node", "ast.Constant", {"value": "int", "kind": None})
_STR = ("node", "ast.Constant", {"value": "str", "kind": None})
_NONE = ("node", "ast.Constant", {"value": None, "kind": None})
_PASS = ("node", "ast.Pass", {})
_METH = ("node", "ast.FunctionDef", {"name": "__call__", "body": ("list", [_PASS])})


def _cdef(body):
    return ("node", "ast.ClassDef", {"name": "str", "bases": ("list", []), "keywords": ("list", []), "body": ("list", body), "decorator_list": ("list", [])})


_PC_CASES = [
    Case("two-attrs", {"class_def": _cdef([_annassign("p0", _INT), _annassign("p1", _STR)]), "class_name": None, "merge_inner_function": None,
                       "infer_type": False, "word_wrap": True}),
    Case("attr-none,method", {"class_def": _cdef([_annassign("p0", _NONE), _METH, _annassign("p1", _INT)]), "class_name": None, "merge_inner_function": None,
                              "infer_type": False, "word_wrap": True}),
    Case("return_type-attr", {"class_def": _cdef([_annassign("p0", _INT), _annassign("return_type", _INT)]), "class_name": None, "merge_inner_function": None,
                              "infer_type": False, "word_wrap": True}),
    Case("empty", {"class_def": _cdef([_PASS]), "class_name": None, "merge_inner_function": None, "infer_type": False, "word_wrap": True}),
]

parse_class = Contract(
    "doctrans.parse:class_",
    properties=["C02", "C07", "C16"],
    note="an undocumented ClassDef (get_docstring is opaque and answers None) whose body is annotated assignments with int / str / None constants, "
         "a method, or nothing; to_code is opaque (the rendered annotation); _set_name_and_type and get_value are inlined",
    cases=_PC_CASES,
    use_contract_for=["doctrans.defaults_utils:needs_quoting"],
    ensures=[
        Clause("PC-head", "result['name'] is None and result['type'] == 'static' and result['doc'] == ''",
               note="no prose is invented (the description of an undocumented class carries no name unless class_name is given: the emitters are told the name separately)"),
        Clause("PC-params-2", "list(result['params'].keys()) == ['p0', 'p1']", when=["two-attrs", "attr-none,method"],
               note="C07: one parameter per annotated attribute, in source order"),
        Clause("PC-typ", "(log_to_code_results[0].rstrip('\\n')[-10:] == ', optional' or result['params']['p0']['typ'] == log_to_code_results[0].rstrip('\\n')) "
                         "and log_to_code_args[0][0] is class_def.body[0].annotation",
               when=["two-attrs", "attr-none,method", "return_type-attr"], note="C07: the type is the source text of the annotation"),
        Clause("PC-default-int", "result['params']['p0']['default'] == class_def.body[0].value.value and typeis(result['params']['p0']['default'], 'int')",
               when=["two-attrs", "return_type-attr"], note="C02: an int value is the default, as an int"),
        Clause("PC-default-none", "result['params']['p0']['default'] == %r" % NONESTR, when=["attr-none,method"], note="a None value is the None spelling"),
        Clause("PC-returns", "list(result['params'].keys()) == ['p0'] and list(result['returns'].keys()) == ['return_type'] "
                             "and result['returns']['return_type']['default'] == class_def.body[1].value.value", when=["return_type-attr"],
               note="the attribute called return_type is the return entry, not a parameter"),
        Clause("PC-no-returns", "result['returns'] is None", when=["two-attrs", "attr-none,method", "empty"]),
        Clause("PC-empty", "list(result['params'].keys()) == []", when=["empty"]),
        Clause("PC-body", "result['_internal']['body'] == [class_def.body[1]] and result['_internal']['from_name'] == class_def.name and result['_internal']['from_type'] == 'cls'",
               when=["attr-none,method"], note="C16: everything that is not an attribute is carried as the body (same statements)"),
        Clause("PC-body-empty", "result['_internal']['body'] == []", when=["two-attrs", "return_type-attr"]),
    ],
    canaries=["result['params'] == {}", "result['returns'] is None"],
)
parse_class.opaque = {"get_docstring": {"ret": "none"}, "to_code": {"ret": "str"}}

CONTRACTS = [parse_class]
