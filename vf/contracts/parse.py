"""Sidecar contracts for doctrans/parse.py."""
from vf.pyvc.verify import Case, Clause, Contract

NONESTR = "```(None)```"


def _name(i):
    return ("node", "ast.Name", {"id": i, "ctx": ("node", "ast.Store", {})})


def _annassign(target, value):
    return ("node", "ast.AnnAssign", {"target": _name(target), "annotation": ("obj", "ast.expr"), "value": value, "simple": 1})


_INT = ("node", "ast.Constant", {"value": "int", "kind": None})
_STR = ("node", "ast.Constant", {"value": "str", "kind": None})
_NONE = ("node", "ast.Constant", {"value": None, "kind": None})
_PASS = ("node", "ast.Pass", {})
_METH = ("node", "ast.FunctionDef", {"name": "__call__", "body": ("list", [_PASS])})


def _cdef(body):
    return ("node", "ast.ClassDef", {"name": "str", "bases": ("list", []), "keywords": ("list", []), "body": ("list", body), "decorator_list": ("list", [])})


_PC_CASES = [
    Case("two-attrs", {"class_def": _cdef([_annassign("p0", _INT), _annassign("p1", _STR)]), "class_name": None, "merge_inner_function": None,
                       "infer_type": False, "word_wrap": True}),
    Case("attr-none,method", {"class_def": _cdef([_annassign("p0", _NONE), _METH, _annassign("p1", _INT)]), "class_name": None, "merge_inner_function": None,
                              "infer_type": False, "word_wrap": True}),
    Case("return_type-attr", {"class_def": _cdef([_annassign("p0", _INT), _annassign("return_type", _INT)]), "class_name": None, "merge_inner_function": None,
                              "infer_type": False, "word_wrap": True}),
    Case("empty", {"class_def": _cdef([_PASS]), "class_name": None, "merge_inner_function": None, "infer_type": False, "word_wrap": True}),
]

parse_class = Contract(
    "doctrans.parse:class_",
    properties=["C02", "C07", "C16"],
    note="an undocumented ClassDef (get_docstring is opaque and answers None) whose body is annotated assignments with int / str / None constants, "
         "a method, or nothing; to_code is opaque (the rendered annotation); _set_name_and_type and get_value are inlined",
    cases=_PC_CASES,
    use_contract_for=["doctrans.defaults_utils:needs_quoting"],
    ensures=[
        Clause("PC-head", "result['name'] is None and result['type'] == 'static' and result['doc'] == ''",
               note="no prose is invented (the description of an undocumented class carries no name unless class_name is given: the emitters are told the name separately)"),
        Clause("PC-params-2", "list(result['params'].keys()) == ['p0', 'p1']", when=["two-attrs", "attr-none,method"],
               note="C07: one parameter per annotated attribute, in source order"),
        Clause("PC-typ", "(log_to_code_results[0].rstrip('\\n')[-10:] == ', optional' or result['params']['p0']['typ'] == log_to_code_results[0].rstrip('\\n')) "
                         "and log_to_code_args[0][0] is class_def.body[0].annotation",
               when=["two-attrs", "attr-none,method", "return_type-attr"], note="C07: the type is the source text of the annotation"),
        Clause("PC-default-int", "result['params']['p0']['default'] == class_def.body[0].value.value and typeis(result['params']['p0']['default'], 'int')",
               when=["two-attrs", "return_type-attr"], note="C02: an int value is the default, as an int"),
        Clause("PC-default-none", "result['params']['p0']['default'] == %r" % NONESTR, when=["attr-none,method"], note="a None value is the None spelling"),
        Clause("PC-returns", "list(result['params'].keys()) == ['p0'] and list(result['returns'].keys()) == ['return_type'] "
                             "and result['returns']['return_type']['default'] == class_def.body[1].value.value", when=["return_type-attr"],
               note="the attribute called return_type is the return entry, not a parameter"),
        Clause("PC-no-returns", "result['returns'] is None", when=["two-attrs", "attr-none,method", "empty"]),
        Clause("PC-empty", "list(result['params'].keys()) == []", when=["empty"]),
        Clause("PC-body", "result['_internal']['body'] == [class_def.body[1]] and result['_internal']['from_name'] == class_def.name and result['_internal']['from_type'] == 'cls'",
               when=["attr-none,method"], note="C16: everything that is not an attribute is carried as the body (same statements)"),
        Clause("PC-body-empty", "result['_internal']['body'] == []", when=["two-attrs", "return_type-attr"]),
        Clause("PC-frame", "unchanged(class_def, old_class_def)", note="C13: parsing does not alter the tree it was given"),
    ],
    canaries=["result['params'] == {}", "result['returns'] is None"],
)
parse_class.opaque = {"get_docstring": {"ret": "none"}, "to_code": {"ret": "str"}}

CONTRACTS = [parse_class]

# ------------------------------------------------------------------------------------------- parse.function (C03 / C07 / C13): undocumented definitions
def _arg(name, ann=None):
    return ("node", "ast.arg", {"arg": name, "annotation": ann, "type_comment": None})


def _fdef(args, defaults, kwonly=(), kw_defaults=(), body=None, kwarg=None, returns=None):
    return ("node", "ast.FunctionDef", {
        "name": "str", "decorator_list": ("list", []), "returns": returns, "type_comment": None,
        "body": ("list", body if body is not None else [_PASS]),
        "args": ("node", "ast.arguments", {"posonlyargs": ("list", []), "args": ("list", list(args)), "vararg": None, "kwonlyargs": ("list", list(kwonly)),
                                           "kw_defaults": ("list", list(kw_defaults)), "kwarg": kwarg, "defaults": ("list", list(defaults))})})


def _pf_case(name, fdef, assume=()):
    return Case(name, {"function_def": fdef, "infer_type": False, "word_wrap": True, "function_type": None, "function_name": None},
                assume=["function_def.name != ''"] + list(assume))


_RET0 = ("node", "ast.Return", {"value": _INT})
_PF_CASES = [
    _pf_case("positional,last-defaulted", _fdef([_arg("a"), _arg("b")], [_INT])),
    _pf_case("positional,all-defaulted", _fdef([_arg("a"), _arg("b")], [_INT, _STR])),
    _pf_case("positional,none-defaulted", _fdef([_arg("a"), _arg("b")], [])),
    _pf_case("method", _fdef([_arg("self"), _arg("a")], [_INT])),
    _pf_case("kwonly,mixed", _fdef([_arg("a")], [], kwonly=[_arg("k"), _arg("m")], kw_defaults=[None, _INT])),
    _pf_case("annotated", _fdef([_arg("a", ("obj", "ast.expr"))], [_INT])),
    _pf_case("returns-value", _fdef([_arg("a")], [], body=[_PASS, _RET0])),
]
_P = "result['params']"
_UNQ_B = "(D[1:-1] if len(D) >= 2 and D[0] == D[-1] and D[0] in ('\"', \"'\") else D)".replace("D", "function_def.args.defaults[1].value")

parse_function = Contract(
    "doctrans.parse:function",
    properties=["C03", "C07", "C13", "C16"],
    note="an undocumented FunctionDef (get_docstring is opaque and answers None) with positional / keyword-only arguments, with and without defaults, "
         "as function or method; to_code is opaque; ir_merge, func_arg2param, _set_name_and_type, _interpolate_return are inlined, needs_quoting by contract",
    cases=_PF_CASES,
    use_contract_for=["doctrans.defaults_utils:needs_quoting"],
    ensures=[
        Clause("PF-head", "result['name'] == function_def.name and result['type'] == ('self' if False else result['type'])", note="the definition's own name"),
        Clause("PF-type-static", "result['type'] == 'static'", when=[c.name for c in _PF_CASES if c.name != "method"]),
        Clause("PF-type-method", "result['type'] == 'self' and list(%s.keys()) == ['a']" % _P, when=["method"], note="C07: the receiver is not a parameter"),
        Clause("PF-names-2", "list(%s.keys()) == ['a', 'b']" % _P, when=["positional,last-defaulted", "positional,all-defaulted", "positional,none-defaulted"],
               note="C07: exactly the parameters Python sees, once each, in source order"),
        Clause("PF-last-defaulted", "('default' in %s['a']) == False and %s['b']['default'] == function_def.args.defaults[0].value" % (_P, _P), when=["positional,last-defaulted"],
               note="C07: a shorter defaults list belongs to the LAST positional parameters"),
        Clause("PF-all-defaulted", "%s['a']['default'] == function_def.args.defaults[0].value and (function_def.args.defaults[1].value in ('None', %r) or %s['b']['default'] == %s)" % (_P, NONESTR, _P, _UNQ_B),
               when=["positional,all-defaulted"], note="(a str default is unquoted once, as everywhere: _infer_default IDF-str; the two None spellings are PF-none-string)"),
        Clause("PF-none-string", "function_def.args.defaults[1].value != 'None' or %s['b']['default'] == 'None'" % _P, when=["positional,all-defaulted"],
               note="C07: a string default that happens to read 'None' is still that string (REFUTED on the pinned tree: finding D-nonestring - it is read as None)"),
        Clause("PF-none-defaulted", "('default' in %s['a']) == False and ('default' in %s['b']) == False" % (_P, _P), when=["positional,none-defaulted"], note="no default is invented"),
        Clause("PF-method-default", "%s['a']['default'] == function_def.args.defaults[0].value" % _P, when=["method"], note="defaults stay aligned after the receiver is dropped"),
        Clause("PF-kwonly", "list(%s.keys()) == ['a', 'k', 'm'] and ('default' in %s['k']) == False and %s['m']['default'] == function_def.args.kw_defaults[1].value" % (_P, _P, _P),
               when=["kwonly,mixed"], note="C07: keyword-only parameters follow the positional ones; a None in kw_defaults means no default"),
        Clause("PF-annotation", "(log__to_code_results[0].rstrip('\\n')[-10:] == ', optional' or %s['a']['typ'] == log__to_code_results[0].rstrip('\\n'))" % _P, when=["annotated"], note="the type is the source text of the annotation"),
        Clause("PF-untyped", "('typ' in %s['a']) == False or %s['a']['typ'] is None" % (_P, _P), when=["positional,none-defaulted"], note="no type is invented without infer_type"),
        Clause("PF-return", "result['returns']['return_type']['default'] == function_def.body[1].value.value", when=["returns-value"]),
        Clause("PF-no-return", "result['returns'] is None", when=[c.name for c in _PF_CASES if c.name != "returns-value"]),
        Clause("PF-body", "result['_internal']['from_name'] == function_def.name and len(result['_internal']['body']) == len(function_def.body) "
                          "and unchanged(result['_internal']['body'][0], function_def.body[0])", note="C16: the body is carried"),
        Clause("PF-frame", "unchanged(function_def, old_function_def)", note="C13: the caller's tree is not modified (the padding works on a deep copy)"),
    ],
    canaries=["result['returns'] is None", "len(result['params']) == 2"],
)
parse_function.opaque = {"get_docstring": {"ret": "none"}, "to_code": {"ret": "str"}, "_to_code": {"ret": "str"}}
CONTRACTS.append(parse_function)

# ------------------------------------------------------------------------------------------- law: a body there and back (C16-L)
_S_ASSIGN = ("node", "ast.Assign", {"targets": ("list", [("node", "ast.Name", {"id": ("lit", "total"), "ctx": ("node", "ast.Store", {})})]),
                                    "value": ("node", "ast.Constant", {"value": "int", "kind": None}), "type_comment": None})
_S_EXPR = ("node", "ast.Expr", {"value": ("node", "ast.Name", {"id": ("lit", "total"), "ctx": ("node", "ast.Load", {})})})
_S_RET0 = ("node", "ast.Return", {"value": ("node", "ast.Constant", {"value": "int", "kind": None})})
_S_RETBARE = ("node", "ast.Return", {"value": None})

function_body_roundtrip = Contract(
    "vf.contracts.laws:function_body_roundtrip",
    properties=["C16", "C03"],
    note="C16, deductively: parse.function followed by emit.function (both real, inlined) on an undocumented def with one parameter whose body is two statements, "
         "ends in `return <int>` or in a bare `return`; to_docstring / to_code / ast.parse are opaque",
    cases=[Case("two-statements", {"function_def": _fdef([_arg("a")], [], body=[_S_ASSIGN, _S_EXPR])}, assume=["function_def.name != ''"]),
           Case("ends-in-return-value", {"function_def": _fdef([_arg("a")], [], body=[_S_ASSIGN, _S_RET0])}, assume=["function_def.name != ''"]),
           Case("ends-in-bare-return", {"function_def": _fdef([_arg("a")], [], body=[_S_ASSIGN, _S_RETBARE])}, assume=["function_def.name != ''"])],
    use_contract_for=["doctrans.defaults_utils:needs_quoting"],
    ensures=[
        Clause("BRT-name", "result.name == function_def.name and [x.arg for x in result.args.args] == ['a']", note="same name, same parameter"),
        Clause("BRT-carried", "len(result.body) == 3 and unchanged(result.body[1], function_def.body[0]) and unchanged(result.body[2], function_def.body[1])",
               when=["two-statements", "ends-in-bare-return"], note="C16: after the docstring come the original statements, structurally identical and in order (a bare return included)"),
        Clause("BRT-return-value", "len(result.body) == 3 and unchanged(result.body[1], function_def.body[0]) and typeis(result.body[2], 'Return') and "
                                   "result.body[2].value is log_ast_parse_results[0].body[0].value and log_ast_parse_args[0][0] == str(function_def.body[1].value.value)",
               when=["ends-in-return-value"], note="C16: the final `return <int>` is kept once, re-created from the value's text - zero included (before 3ff6475 a zero was only "
                                                   "kept because the statement itself was carried); nothing else changes"),
        Clause("BRT-frame", "unchanged(function_def, old_function_def)", note="C13: the parsed tree is not modified"),
    ],
    canaries=["len(result.body) == 1"],
)
function_body_roundtrip.opaque = {"to_docstring": {"ret": "str", "havoc_prose": True}, "ast_parse_fix": {"ret": ("obj", "ast.expr")}, "get_docstring": {"ret": "none"},
                                  "to_code": {"ret": "str"}, "_to_code": {"ret": "str"}, "ast.parse": {"ret": ("obj", "ast.Module")}}
CONTRACTS.append(function_body_roundtrip)

# ------------------------------------------------------------------------------------------- law: a body re-homed into __call__ (C16-L, second half)
_S_USE = ("node", "ast.Expr", {"value": ("node", "ast.Name", {"id": ("lit", "a"), "ctx": ("node", "ast.Load", {})})})
_S_OTHER = ("node", "ast.Expr", {"value": ("node", "ast.Name", {"id": ("lit", "other"), "ctx": ("node", "ast.Load", {})})})

call_body_roundtrip = Contract(
    "vf.contracts.laws:call_body_roundtrip",
    properties=["C16"],
    note="C16, deductively: parse.function followed by emit.class_(emit_call=True) on an undocumented def f(a) whose body reads the parameter `a` and another name; "
         "to_docstring (and what is done to its text) is opaque",
    cases=[Case("reads-param-and-other", {"function_def": _fdef([_arg("a")], [], body=[_S_USE, _S_OTHER])}, assume=["function_def.name != ''"])],
    use_contract_for=["doctrans.defaults_utils:needs_quoting"],
    ensures=[
        Clause("CB-call", "typeis(result, 'ClassDef') and result.name == 'C' and typeis(result.body[-1], 'FunctionDef') and result.body[-1].name == '__call__' "
                          "and [x.arg for x in result.body[-1].args.args] == ['self']", note="the class ends with __call__(self)"),
        Clause("CB-param-rewritten", "typeis(result.body[-1].body[0].value, 'Attribute') and result.body[-1].body[0].value.attr == 'a' and result.body[-1].body[0].value.value.id == 'self'",
               note="C16: a reference to the parameter becomes self.a"),
        Clause("CB-other-kept", "typeis(result.body[-1].body[1].value, 'Name') and result.body[-1].body[1].value.id == 'other' and len(result.body[-1].body) == 2",
               note="C16: no other name is touched; no statement is added or dropped"),
        Clause("CB-frame", "unchanged(function_def, old_function_def)", note="C13: the parsed tree is not modified"),
    ],
    canaries=["len(result.body) == 1"],
)
call_body_roundtrip.opaque = {"to_docstring": {"ret": "str", "havoc_prose": True}, "get_docstring": {"ret": "none"}, "to_code": {"ret": "str"}, "_to_code": {"ret": "str"}}
CONTRACTS.append(call_body_roundtrip)

# ------------------------------------------------------------------------------------------- _merge_inner_function (C07 / C19: which __init__ is merged)
def _init(args):
    return ("node", "ast.FunctionDef", {"name": ("lit", "__init__"), "body": ("list", [_PASS]), "decorator_list": ("list", []), "returns": None,
                                        "args": ("node", "ast.arguments", {"posonlyargs": ("list", []), "args": ("list", [_arg(a) for a in args]), "vararg": None,
                                                                           "kwonlyargs": ("list", []), "kw_defaults": ("list", []), "kwarg": None, "defaults": ("list", [])})})


def _nested(name, body):
    return ("node", "ast.ClassDef", {"name": ("lit", name), "bases": ("list", []), "keywords": ("list", []), "body": ("list", body), "decorator_list": ("list", [])})


_MIF = {
    "own-init-after-nested": (_nested("Outer", [_nested("Inner", [_init(["self", "q"])]), _init(["self", "a"])]), "class_def.body[1]"),
    "own-init-before-nested": (_nested("Outer", [_init(["self", "a"]), _nested("Inner", [_init(["self", "q"])])]), "class_def.body[0]"),
    "only-own-init": (_nested("Outer", [_annassign("x", _INT), _init(["self", "a"])]), "class_def.body[1]"),
    "no-init": (_nested("Outer", [_annassign("x", _INT)]), None),
}

merge_inner_function = Contract(
    "doctrans.parse:_merge_inner_function",
    properties=["C07", "C19"],
    note="classes with their own __init__, a nested class that has an __init__ of its own (before / after), or none; parse.function and ir_merge are opaque and logged: "
         "the contract pins WHICH definition is parsed and merged (ast.walk is modelled breadth-first as in CPython)",
    cases=[Case(k, {"class_def": c, "infer_type": False, "intermediate_repr": ("dict", {"name": None, "params": ("dict", {})}), "merge_inner_function": ("lit", "__init__")})
           for k, (c, _) in _MIF.items()],
    ensures=[Clause("MIF-%s" % k, ("log_function_n == 1 and log_function_args[0][0] is %s and log_function_kwargs[0]['function_type'] == 'self' and log_ir_merge_n == 1 "
                                   "and log_ir_merge_kwargs[0]['other'] is log_function_results[0] and log_ir_merge_kwargs[0]['target'] is intermediate_repr" % want)
                    if want else "log_function_n == 0 and log_ir_merge_n == 0", when=[k],
                    note="C07 / C19: the interface merged into the class is that of the class's OWN __init__ - never a nested class's" if want else "no constructor, nothing merged")
             for k, (_, want) in _MIF.items()]
    + [Clause("MIF-same", "result is intermediate_repr")],
    canaries=["log_function_n == 0"],
)
merge_inner_function.opaque = {"function": {"ret": ("obj", None)}, "ir_merge": {"ret": "none", "effect": True}}
CONTRACTS.append(merge_inner_function)

# ------------------------------------------------------------------------------------------- parse.argparse_ast (C04: the parser half, whole function)
def _c(v):
    return ("node", "ast.Constant", {"value": v, "kind": None})


def _kwd(arg, value):
    return ("node", "ast.keyword", {"arg": ("lit", arg), "value": value})


def _add_argument(name, keywords):
    return ("node", "ast.Expr", {"value": ("node", "ast.Call", {
        "func": ("node", "ast.Attribute", {"attr": ("lit", "add_argument"), "value": ("node", "ast.Name", {"id": ("lit", "argument_parser"), "ctx": ("node", "ast.Load", {})}),
                                           "ctx": ("node", "ast.Load", {})}),
        "args": ("list", [_c(("lit", "--" + name))]), "keywords": ("list", keywords)})})


_DESC = ("node", "ast.Assign", {"targets": ("list", [("node", "ast.Attribute", {"attr": ("lit", "description"), "ctx": ("node", "ast.Store", {}),
                                                                                 "value": ("node", "ast.Name", {"id": ("lit", "argument_parser"), "ctx": ("node", "ast.Load", {})})})]),
                                "value": _c("str"), "type_comment": None})
_RET_PARSER = ("node", "ast.Return", {"value": ("node", "ast.Name", {"id": ("lit", "argument_parser"), "ctx": ("node", "ast.Load", {})})})
_TINT = _kwd("type", ("node", "ast.Name", {"id": ("lit", "int"), "ctx": ("node", "ast.Load", {})}))
_HELP1 = _kwd("help", _c(("lit", "the first")))
_HELP2 = _kwd("help", _c(("lit", "the second")))
_REQ = _kwd("required", _c(("lit", True)))


def _ap_fdef(body):
    return ("node", "ast.FunctionDef", {"name": ("lit", "set_cli_args"), "decorator_list": ("list", []), "returns": None, "type_comment": None, "body": ("list", body),
                                        "args": ("node", "ast.arguments", {"posonlyargs": ("list", []), "args": ("list", [_arg("argument_parser")]), "vararg": None,
                                                                           "kwonlyargs": ("list", []), "kw_defaults": ("list", []), "kwarg": None, "defaults": ("list", [])})})


parse_argparse = Contract(
    "doctrans.parse:argparse_ast",
    properties=["C04", "C16"],
    note="an argparse function without docstring (get_docstring answers None; parse_docstring is opaque): a description assignment, two add_argument calls with literal "
         "option names / help texts and symbolic int defaults, optionally an extra statement, and the return of the parser; parse_out_param and the recognisers are inlined",
    cases=[
        Case("two-options", {"function_def": _ap_fdef([_DESC, _add_argument("alpha", [_TINT, _HELP1, _REQ, _kwd("default", _c("int"))]),
                                                       _add_argument("beta", [_TINT, _HELP2, _kwd("default", _c("int"))]), _RET_PARSER]),
                             "function_type": None, "function_name": ("lit", "set_cli_args")}),
        Case("extra-statement", {"function_def": _ap_fdef([_DESC, _add_argument("alpha", [_TINT, _HELP1, _REQ, _kwd("default", _c("int"))]),
                                                           ("node", "ast.Expr", {"value": ("node", "ast.Name", {"id": ("lit", "extra"), "ctx": ("node", "ast.Load", {})})}), _RET_PARSER]),
                                 "function_type": None, "function_name": ("lit", "set_cli_args")}),
    ],
    ensures=[
        Clause("PA-head", "result['name'] == 'set_cli_args' and result['type'] == 'static' and result['doc'] == function_def.body[0].value.value",
               note="C04: the parser's description is the summary"),
        Clause("PA-options-2", "list(result['params'].keys()) == ['alpha', 'beta']", when=["two-options"], note="C04: one parameter per add_argument call, in order, named after the option"),
        Clause("PA-alpha", "result['params']['alpha']['typ'] == 'int' and result['params']['alpha']['doc'] == 'the first' "
                           "and result['params']['alpha']['default'] == function_def.body[1].value.keywords[3].value.value and typeis(result['params']['alpha']['default'], 'int')",
               note="C04: a required int option: plain type, its help text, its default with value and type"),
        Clause("PA-beta", "result['params']['beta']['typ'] == 'Optional[int]' and result['params']['beta']['default'] == function_def.body[2].value.keywords[2].value.value",
               when=["two-options"], note="a not-required option is Optional[...]; defaults do not leak between options"),
        Clause("PA-extra", "list(result['params'].keys()) == ['alpha'] and len(result['_internal']['body']) == 2 and result['_internal']['body'][0] is function_def.body[2] "
                           "and result['_internal']['body'][1] is function_def.body[3]", when=["extra-statement"],
               note="C16: statements that are neither the description nor an add_argument call are carried (the return included)"),
        Clause("PA-frame", "unchanged(function_def, old_function_def)", note="C13: the tree is not modified"),
    ],
    canaries=["result['params'] == {}"],
)
parse_argparse.opaque = {"get_docstring": {"ret": "none"}, "parse_docstring": {"ret": ("obj", None)}}
CONTRACTS.append(parse_argparse)

# ------------------------------------------------------------------------------------------- law: a whole description through argparse (C04-L)
argparse_function_roundtrip = Contract(
    "vf.contracts.laws:argparse_function_roundtrip",
    properties=["C04", "C05"],
    note="C04, deductively, for a description with a required int option and an Optional[int] option (literal names / prose, symbolic defaults) and a symbolic summary: "
         "emit.argparse_function followed by parse.argparse_ast, both real and inlined down to param2argparse_param / parse_out_param; the function's own docstring text is "
         "opaque and get_docstring answers None (so the docstring statement is carried as a body statement, which the clauses do not look at)",
    cases=[Case("two-options", {"ir": ("dict", {"name": "str", "doc": "str", "returns": None, "params": ("dict", {
        "alpha": ("dict", {"typ": ("lit", "int"), "doc": ("lit", "the first"), "default": "int"}),
        "beta": ("dict", {"typ": ("lit", "Optional[int]"), "doc": ("lit", "the second"), "default": "int"})})})},
                assume=["not (len(ir['doc']) > 2 and ir['doc'][0] == ir['doc'][-1] and ir['doc'][0] in ('\"', \"'\"))"])],
    ensures=[
        Clause("ART-names", "list(result['params'].keys()) == ['alpha', 'beta']", note="C04: names and order"),
        Clause("ART-alpha", "result['params']['alpha']['typ'] == 'int' and result['params']['alpha']['doc'] == 'the first' and result['params']['alpha']['default'] == old_ir['params']['alpha']['default'] "
                            "and typeis(result['params']['alpha']['default'], 'int')", note="C04: type, prose and default (value and type) of a required option"),
        Clause("ART-beta", "result['params']['beta']['typ'] == 'Optional[int]' and result['params']['beta']['doc'] == 'the second' and result['params']['beta']['default'] == old_ir['params']['beta']['default']",
               note="C04: the same for an optional option"),
        Clause("ART-summary", "result['doc'] == old_ir['doc']", note="the summary travels as the parser's description"),
        Clause("ART-frame", "unchanged(ir, old_ir)", note="C13"),
    ],
    canaries=["result['params']['alpha']['default'] == 0"],
)
argparse_function_roundtrip.opaque = {"docstring": {"ret": "str"}, "indent": {"ret": "str"}, "get_docstring": {"ret": "none"}, "parse_docstring": {"ret": ("obj", None)}}
CONTRACTS.append(argparse_function_roundtrip)

# ------------------------------------------------------------------------------------------- law: a whole description through a class (C02-L, attribute half)
_CLRT_BIG = Case("three-params+return", {"ir": ("dict", {"name": "str", "doc": "str", "params": ("dict", {
    "alpha": ("dict", {"typ": ("lit", "int"), "doc": "str", "default": "int"}),
    "beta": ("dict", {"typ": ("lit", "bool"), "doc": "str", "default": "bool"}),
    "gamma": ("dict", {"typ": ("lit", "int"), "doc": "str"})}),
    "returns": ("dict", {"return_type": ("dict", {"typ": ("lit", "int"), "doc": "str", "default": "int"})})})})
_CLRT_BIG.tier = "thorough"  # ~1500 paths, 7440 obligations, five to six minutes

class_roundtrip = Contract(
    "vf.contracts.laws:class_roundtrip",
    properties=["C02", "C05", "C13"],
    note="C02, deductively, for a description with an int parameter (symbolic default), a bool parameter (symbolic default), an int parameter without default and a return entry: "
         "emit.class_ followed by parse.class_, both real and inlined; to_docstring / to_code are opaque and get_docstring answers None, so what comes back is what the annotated "
         "attributes carry: names, order, defaults, the return entry as `return_type` (types and prose travel through the opaque docstring / renderer)",
    cases=[Case("one-param+return", {"ir": ("dict", {"name": "str", "doc": "str", "params": ("dict", {
        "alpha": ("dict", {"typ": ("lit", "int"), "doc": "str", "default": "int"})}),
        "returns": ("dict", {"return_type": ("dict", {"typ": ("lit", "int"), "doc": "str", "default": "int"})})})}),
           Case("bool+nodefault", {"ir": ("dict", {"name": "str", "doc": "str", "returns": None, "params": ("dict", {
               "beta": ("dict", {"typ": ("lit", "bool"), "doc": "str", "default": "bool"}),
               "gamma": ("dict", {"typ": ("lit", "int"), "doc": "str"})})})}),
           _CLRT_BIG],
    use_contract_for=["doctrans.defaults_utils:needs_quoting", "doctrans.defaults_utils:extract_default"],
    ensures=[
        Clause("CLRT-names", "list(result['params'].keys()) == ['alpha', 'beta', 'gamma']", when=["three-params+return"], note="C02: names and order; the return entry is not a parameter"),
        Clause("CLRT-names-1", "list(result['params'].keys()) == ['alpha'] and result['params']['alpha']['default'] == old_ir['params']['alpha']['default'] "
                               "and typeis(result['params']['alpha']['default'], 'int')", when=["one-param+return"], note="C02: the parameter with its default (value and type); the return entry is not a parameter"),
        Clause("CLRT-names-2", "list(result['params'].keys()) == ['beta', 'gamma'] and result['params']['beta']['default'] == old_ir['params']['beta']['default'] "
                               "and typeis(result['params']['beta']['default'], 'bool') and result['params']['gamma']['default'] == 0 and result['returns'] is None", when=["bool+nodefault"],
               note="C02: order; a bool default (False included); N_class: no default -> the zero value; no return entry is invented"),
        Clause("CLRT-defaults", "result['params']['alpha']['default'] == old_ir['params']['alpha']['default'] and typeis(result['params']['alpha']['default'], 'int') "
                                "and result['params']['beta']['default'] == old_ir['params']['beta']['default'] and typeis(result['params']['beta']['default'], 'bool')",
               when=["three-params+return"], note="C02: explicit defaults with value and Python type (0 and False included)"),
        Clause("CLRT-typ", "result['params']['alpha']['typ'] == 'int'", when=["three-params+return", "one-param+return"],
               note="C02: the scalar type (the renderer is assumed to write a Name node as its identifier)"),
        Clause("CLRT-typ-2", "result['params']['beta']['typ'] == 'bool' and result['params']['gamma']['typ'] == 'int'", when=["three-params+return", "bool+nodefault"]),
        Clause("CLRT-zero", "result['params']['gamma']['default'] == 0", when=["three-params+return"], note="N_class: no default -> the zero value of the type (the one permitted change)"),
        Clause("CLRT-return", "list(result['returns'].keys()) == ['return_type'] and result['returns']['return_type']['default'] == old_ir['returns']['return_type']['default']",
               when=["three-params+return", "one-param+return"], note="C02: the return entry travels as the reserved attribute and comes back as the return entry"),
        Clause("CLRT-frame", "unchanged(ir, old_ir)", note="C13: the description handed in is not modified"),
    ],
    canaries=["len(result['params']) == 0"],
)
class_roundtrip.opaque = {"to_docstring": {"ret": "str", "havoc_prose": True}, "get_docstring": {"ret": "none"}, "to_code": {"ret": "str", "unparse_names": True}}
CONTRACTS.append(class_roundtrip)

# ------------------------------------------------------------------------------------------- law: a chain of two kinds (C05-L)
chain_class_argparse = Contract(
    "vf.contracts.laws:chain_class_argparse",
    properties=["C05"],
    note="C05, deductively, for one chain (class then argparse) and a description with one int parameter with a symbolic default: all four conversions real and inlined; "
         "docstring texts are opaque and get_docstring answers None, so the chain carries what attributes and add_argument calls carry: name and default (value and type)",
    cases=[Case("one-int-param", {"ir": ("dict", {"name": "str", "doc": "str", "returns": None, "params": ("dict", {
        "alpha": ("dict", {"typ": ("lit", "int"), "doc": "str", "default": "int"})})})})],
    use_contract_for=["doctrans.defaults_utils:needs_quoting", "doctrans.defaults_utils:extract_default"],
    ensures=[
        Clause("CH-names", "list(result['params'].keys()) == ['alpha']", note="C05: the parameter survives both hops, once"),
        Clause("CH-default", "result['params']['alpha']['default'] == old_ir['params']['alpha']['default'] and typeis(result['params']['alpha']['default'], 'int')",
               note="C05: with its default - value and type, zero and negatives included"),
        Clause("CH-typ", "result['params']['alpha']['typ'] == 'int'", note="C05: and its scalar type (the renderer is assumed to write a Name node as its identifier)"),
        Clause("CH-frame", "unchanged(ir, old_ir)"),
    ],
    canaries=["result['params']['alpha']['default'] == 0"],
)
chain_class_argparse.opaque = {"to_docstring": {"ret": "str", "havoc_prose": True}, "get_docstring": {"ret": "none"}, "to_code": {"ret": "str", "unparse_names": True}, "docstring": {"ret": "str"}, "indent": {"ret": "str"},
                               "parse_docstring": {"ret": ("obj", None)}}
CONTRACTS.append(chain_class_argparse)

_CH_OPAQUE = {"to_docstring": {"ret": "str", "havoc_prose": True}, "get_docstring": {"ret": "none"}, "to_code": {"ret": "str", "unparse_names": True}, "_to_code": {"ret": "str", "unparse_names": True},
              "docstring": {"ret": "str"}, "indent": {"ret": "str"}, "parse_docstring": {"ret": ("obj", None)}, "ast_parse_fix": {"ret": ("obj", "ast.expr")}}
_CH_IR = ("dict", {"name": "str", "doc": "str", "returns": None, "params": ("dict", {"alpha": ("dict", {"typ": ("lit", "int"), "doc": ("lit", "the first"), "default": "int"})})})

chain_argparse_class = Contract(
    "vf.contracts.laws:chain_argparse_class",
    properties=["C05"],
    note="C05, deductively, for the chain argparse then class on a description with one int parameter with a symbolic default (as chain_class_argparse)",
    cases=[Case("one-int-param", {"ir": _CH_IR}, assume=["not (len(ir['doc']) > 2 and ir['doc'][0] == ir['doc'][-1] and ir['doc'][0] in ('\"', \"'\"))"])],
    use_contract_for=["doctrans.defaults_utils:needs_quoting", "doctrans.defaults_utils:extract_default"],
    ensures=[
        Clause("CH2-names", "list(result['params'].keys()) == ['alpha']"),
        Clause("CH2-default", "result['params']['alpha']['default'] == old_ir['params']['alpha']['default'] and typeis(result['params']['alpha']['default'], 'int')",
               note="C05: the default survives both hops with value and type"),
        Clause("CH2-typ", "result['params']['alpha']['typ'] == 'int'"),
        Clause("CH2-frame", "unchanged(ir, old_ir)"),
    ],
    canaries=["result['params']['alpha']['default'] == 0"],
)
chain_argparse_class.opaque = _CH_OPAQUE
CONTRACTS.append(chain_argparse_class)

chain_class_function = Contract(
    "vf.contracts.laws:chain_class_function",
    properties=["C05"],
    note="C05, deductively, for the chain class then function (signature) on the same description",
    cases=[Case("one-int-param", {"ir": _CH_IR})],
    use_contract_for=["doctrans.defaults_utils:needs_quoting", "doctrans.defaults_utils:extract_default"],
    ensures=[
        Clause("CH3-names", "list(result['params'].keys()) == ['alpha']"),
        Clause("CH3-default", "result['params']['alpha']['default'] == old_ir['params']['alpha']['default'] and typeis(result['params']['alpha']['default'], 'int')"),
        Clause("CH3-typ", "result['params']['alpha']['typ'] == 'int'"),
        Clause("CH3-frame", "unchanged(ir, old_ir)"),
    ],
    canaries=["result['params']['alpha']['default'] == 0"],
)
chain_class_function.opaque = _CH_OPAQUE
CONTRACTS.append(chain_class_function)


def _chain_contract(fname, what, assume=()):
    c = Contract(
        "vf.contracts.laws:" + fname,
        properties=["C05"],
        note="C05, deductively, for the chain %s on a description with one int parameter with a symbolic default (as chain_class_argparse)" % what,
        cases=[Case("one-int-param", {"ir": _CH_IR}, assume=list(assume))],
        use_contract_for=["doctrans.defaults_utils:needs_quoting", "doctrans.defaults_utils:extract_default"],
        ensures=[
            Clause("CHX-names", "list(result['params'].keys()) == ['alpha']"),
            Clause("CHX-default", "result['params']['alpha']['default'] == old_ir['params']['alpha']['default'] and typeis(result['params']['alpha']['default'], 'int')",
                   note="C05: the default survives both hops with value and type"),
            Clause("CHX-typ", "result['params']['alpha']['typ'] == 'int'"),
            Clause("CHX-frame", "unchanged(ir, old_ir)"),
        ],
        canaries=["result['params']['alpha']['default'] == 0"],
    )
    c.opaque = _CH_OPAQUE
    return c


_NQ_DOC = ["not (len(ir['doc']) > 2 and ir['doc'][0] == ir['doc'][-1] and ir['doc'][0] in ('\"', \"'\"))"]
# (function then argparse is not among them: with the function's docstring opaque the intermediate description has no summary, which the argparse emitter needs -
#  the modelled composite would not be the real one)
CONTRACTS += [_chain_contract("chain_function_class", "function then class"), _chain_contract("chain_argparse_function", "argparse then function", _NQ_DOC)]

# ------------------------------------------------------------------------------------------- law: the class round trip on the DOCUMENTED path
_DOCSTRING_IR = ("dict", {"name": None, "doc": "str", "params": ("dict", {"alpha": ("dict", {"doc": "str", "default": ("opt", "int")})}), "returns": None})
class_roundtrip_documented = Contract(
    "vf.contracts.laws:class_roundtrip_documented",
    properties=["C02", "C05"],
    note="the same composite as class_roundtrip, on the path the emitted (documented) class really takes: get_docstring answers SOME text and the docstring parser answers an "
         "ARBITRARY description of the parameter of the shape the emitted docstring can give (emit_types=False: any prose and no type; with or without a default "
         "of its own, which the prose may suggest): the attribute's default and type win, whatever the docstring said",
    cases=[Case("one-param", {"ir": ("dict", {"name": "str", "doc": "str", "returns": None, "params": ("dict", {
        "alpha": ("dict", {"typ": ("lit", "int"), "doc": "str", "default": "int"})})})})],
    use_contract_for=["doctrans.defaults_utils:needs_quoting", "doctrans.defaults_utils:extract_default"],
    ensures=[
        Clause("CLD-names", "list(result['params'].keys()) == ['alpha']"),
        Clause("CLD-default", "result['params']['alpha']['default'] == old_ir['params']['alpha']['default'] and typeis(result['params']['alpha']['default'], 'int')",
               note="C02: the attribute's value is the default - also when the docstring's own text suggested another one"),
        Clause("CLD-typ", "result['params']['alpha']['typ'] == 'int' or (result['params']['alpha']['typ'] == 'Optional[int]')",
               note="the annotation is the type (prose that opens with 'Optional' may wrap it: _set_name_and_type SNT-typ)"),
        Clause("CLD-frame", "unchanged(ir, old_ir)"),
    ],
    canaries=["result['params']['alpha']['default'] == 0", "result['params']['alpha']['default'] != 0"],
)
class_roundtrip_documented.opaque = {"to_docstring": {"ret": "str", "havoc_prose": True}, "get_docstring": {"ret": "str"}, "to_code": {"ret": "str", "unparse_names": True},
                                     "docstring": {"ret": _DOCSTRING_IR}}
CONTRACTS.append(class_roundtrip_documented)

# ------------------------------------------------------------------------------------------- law: the function round trip on the DOCUMENTED path
_DOCSTRING_IR_FN = ("dict", {"name": None, "doc": "str", "params": ("dict", {"p0": ("dict", {"doc": "str"}), "p1": ("dict", {"doc": "str"})}), "returns": None})
function_roundtrip_documented = Contract(
    "vf.contracts.laws:function_roundtrip_documented",
    properties=["C03", "C05"],
    note="the same composite as function_signature_roundtrip, on the path the emitted (documented) def really takes: get_docstring answers SOME text and the docstring parser "
         "answers an ARBITRARY description of the two parameters of the shape the emitted docstring gives (inline types: prose only; prose that announces no default): "
         "ir_merge (real, inlined) then fills types and defaults in from the signature",
    cases=[Case("positional", {"ir": ("dict", {"name": "str", "type": ("lit", "static"), "doc": "str", "returns": None, "params": ("dict", {
        "p0": ("dict", {"typ": ("lit", "int"), "doc": "str"}), "p1": ("dict", {"typ": ("lit", "int"), "doc": "str", "default": "int"})})}), "kwonly": False},
        assume=["ir['name'] != ''"])],
    use_contract_for=["doctrans.defaults_utils:needs_quoting", "doctrans.defaults_utils:extract_default"],
    ensures=[
        Clause("FRD-name", "result['name'] == old_ir['name']"),
        Clause("FRD-names", "list(result['params'].keys()) == ['p0', 'p1']", note="every parameter once, in order (docstring order = signature order)"),
        Clause("FRD-default", "result['params']['p1']['default'] == old_ir['params']['p1']['default'] and typeis(result['params']['p1']['default'], 'int')",
               note="C03: the signature's default is the default (zero included - ir_merge tests membership in none_types, not truthiness)"),
        Clause("FRD-typ", "result['params']['p1']['typ'] == 'int' or result['params']['p1']['typ'] == 'Optional[int]'",
               note="the annotation fills the type the docstring does not carry (prose that opens with 'Optional' may wrap it: SNT-typ)"),
        Clause("FRD-frame", "unchanged(ir, old_ir)"),
    ],
    canaries=["result['params']['p1']['default'] == 0"],
)
function_roundtrip_documented.opaque = {"to_docstring": {"ret": "str", "havoc_prose": True}, "ast_parse_fix": {"ret": ("obj", "ast.expr")}, "get_docstring": {"ret": "str"},
                                        "to_code": {"ret": "str", "unparse_names": True}, "_to_code": {"ret": "str", "unparse_names": True}, "docstring": {"ret": _DOCSTRING_IR_FN}}
CONTRACTS.append(function_roundtrip_documented)
function_roundtrip_documented.allow_unordered = True  # ir_merge's `&` loop: order-independence is the audit obligation unordered[parser_utils:ir_merge@...] (see parser_utils.ir_merge)

# ------------------------------------------------------------------------------------------- laws: the two-hop chains on the DOCUMENTED path
# get_docstring answers SOME text everywhere; parse.py's `docstring` (the docstring parser) answers an arbitrary description of the one parameter of the shape the
# emitted docstrings give (prose only: to_docstring(emit_types=False) / inline types), emit.py's `docstring` (the argparse emitter's own docstring) is a text.
_CHD_IR = ("dict", {"name": None, "doc": "str", "params": ("dict", {"alpha": ("dict", {"doc": "str"})}), "returns": None})
_CHD_OPAQUE = {"to_docstring": {"ret": "str", "havoc_prose": True}, "get_docstring": {"ret": "str"}, "to_code": {"ret": "str", "unparse_names": True},
               "_to_code": {"ret": "str", "unparse_names": True}, "doctrans.parse:docstring": {"ret": _CHD_IR}, "doctrans.emit:docstring": {"ret": "str"},
               "indent": {"ret": "str"}, "parse_docstring": {"ret": ("obj", None)}, "ast_parse_fix": {"ret": ("obj", "ast.expr")}}


def _chain_documented(fname, what, assume=()):
    c = Contract(
        "vf.contracts.laws:" + fname,
        properties=["C05"],
        note="C05, deductively, for the chain %s on the DOCUMENTED path of both hops (as class_roundtrip_documented / function_roundtrip_documented: the docstring parser's "
             "answer is an arbitrary description of the parameter, prose only): one int parameter with a symbolic default.  No claim about the type text: prose that opens "
             "with 'Optional' makes the first hop answer Optional[int] (SNT-typ), which the second hop writes through the opaque renderer" % what,
        cases=[Case("one-int-param", {"ir": _CH_IR}, assume=list(assume))],
        use_contract_for=["doctrans.defaults_utils:needs_quoting", "doctrans.defaults_utils:extract_default"],
        ensures=[
            Clause("CHD-names", "list(result['params'].keys()) == ['alpha']"),
            Clause("CHD-default", "'default' in result['params']['alpha'] and result['params']['alpha']['default'] == old_ir['params']['alpha']['default'] "
                                  "and typeis(result['params']['alpha']['default'], 'int')", note="C05: the default survives both hops with value and type"),
            Clause("CHD-frame", "unchanged(ir, old_ir)"),
        ],
        canaries=["result['params']['alpha']['default'] == 0"],
    )
    c.opaque = _CHD_OPAQUE
    c.allow_unordered = True  # ir_merge's `&` loop (audit obligation unordered[parser_utils:ir_merge@...])
    return c


CONTRACTS += [_chain_documented("chain_class_function_documented", "class then function"), _chain_documented("chain_function_class_documented", "function then class"),
              _chain_documented("chain_function_argparse_documented", "function then argparse", _NQ_DOC), _chain_documented("chain_class_argparse_documented", "class then argparse", _NQ_DOC),
              _chain_documented("chain_argparse_class_documented", "argparse then class", _NQ_DOC), _chain_documented("chain_argparse_function_documented", "argparse then function", _NQ_DOC)]
for _c in CONTRACTS:
    if _c.func == "vf.contracts.laws:chain_class_argparse_documented":
        _c.cases[0].tier = "thorough"  # ~1000 return paths, 80 s: part of the thorough tier only

import copy as _copy

argparse_function_roundtrip_documented = _copy.copy(argparse_function_roundtrip)
argparse_function_roundtrip_documented.func = "vf.contracts.laws:argparse_function_roundtrip_documented"
argparse_function_roundtrip_documented.note = ("the same composite and clauses as argparse_function_roundtrip on the path the emitted (documented) function really takes: get_docstring answers "
                                               "SOME text, so parse.argparse_ast skips the docstring statement (body[1:]) and hands the text to the (opaque) docstring parser")
argparse_function_roundtrip_documented.opaque = {"docstring": {"ret": "str"}, "indent": {"ret": "str"}, "get_docstring": {"ret": "str"}, "parse_docstring": {"ret": ("obj", None)}}
CONTRACTS.append(argparse_function_roundtrip_documented)
