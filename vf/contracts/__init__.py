"""All sidecar contracts."""
from . import ast_utils, conformance, defaults_utils, docstring_parsers, docstring_utils, emit, emitter_utils, parse, parser_utils, pure_utils

ALL_CONTRACTS = (pure_utils.CONTRACTS + defaults_utils.CONTRACTS + docstring_parsers.CONTRACTS + ast_utils.CONTRACTS
                 + conformance.CONTRACTS + parser_utils.CONTRACTS + emitter_utils.CONTRACTS + emit.CONTRACTS + parse.CONTRACTS + docstring_utils.CONTRACTS)
