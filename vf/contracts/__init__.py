"""All sidecar contracts."""
from . import defaults_utils, pure_utils

ALL_CONTRACTS = pure_utils.CONTRACTS + defaults_utils.CONTRACTS
