"""Sidecar contracts for doctrans/defaults_utils.py (DESIGN Appendix C)."""
from vf.pyvc.verify import Case, Clause, Contract, Lemma, Outcome

TOKENS = ("defaults to ", "defaults to\n", "Default value is ", "Default:")
STRIPPED = "pystrip(raw, ' \\t`')"
G = "({u}[:-2] if (not {u}.startswith('(')) and {u}.endswith(').') else {u})".format(u=STRIPPED)

_ED_DEFS = {
    "nowhere_cf": "lambda e: forall(lambda j: casefold(line[j:j + len(e)]) != casefold(e), 0, len(line) + 1)",
}

_SCAN_INV = [
    "default == sub_l[:_i]",
    "all(v >= 0 for v in par.values())",
    "(sum(par.values()) == 0) == nobr(sub_l, _i)",
    "forall(lambda j: not stop(sub_l, j), 0, _i)",
]

_NOTYP = ["typ=None,emit", "typ=None,remove", "typ=None,remove,norstrip"]

extract_default = Contract(
    "doctrans.defaults_utils:extract_default",
    properties=["C17", "C01", "C08"],
    note="location_within is replaced by its contract; the scan loop is cut at its invariant",
    cases=[
        Case("None", {"line": None, "rstrip_default": True, "default_search_announce": None, "typ": None, "emit_default_doc": True}),
        Case("typ=None,emit", {"line": "str", "rstrip_default": True, "default_search_announce": None, "typ": None, "emit_default_doc": True}),
        Case("typ=None,remove", {"line": "str", "rstrip_default": True, "default_search_announce": None, "typ": None, "emit_default_doc": False}),
        Case("typ=None,remove,norstrip", {"line": "str", "rstrip_default": False, "default_search_announce": None, "typ": None, "emit_default_doc": False}),
        Case("typ=str,emit", {"line": "str", "rstrip_default": True, "default_search_announce": None, "typ": "str", "emit_default_doc": True}),
    ],
    use_contract_for=["doctrans.pure_utils:location_within"],
    defs=_ED_DEFS,
    loops={1: {"header": "for (idx, ch) in enumerate(sub_l)", "inv": _SCAN_INV}},
    ghosts={
        "_start_idx, _end_idx, _found = location_within(": [("gs", "_start_idx"), ("ge", "_end_idx")],
        "rest_offset = _end_idx + len(default)": [("raw", "default"), ("sub", "sub_l")],
        "if not default.startswith('('):": [("text", "default")],
    },
    raises={"ValueError": "typ is not None", "SyntaxError": "typ is not None"},
    ensures=[
        Clause("E0", "result == (None, None)", when=["None"]),
        Clause("E1", "(result[0] == line and result[1] is None) or any(0 <= gs and gs + len(t) <= len(line) and "
               "casefold(line[gs:gs + len(t)]) == casefold(t) for t in %r)" % (TOKENS,),
               when=_NOTYP + ["typ=str,emit"],
               note="prose is altered / a default returned only if an announcement phrase occurs (at the witnessed "
                    "position gs): prose that announces no default is returned unaltered, with no default"),
        Clause("E6", "result[0] == line", when=["typ=None,emit", "typ=str,emit"]),
        Clause("E2a", "result[1] is None or raw == sub[:len(raw)]", when=_NOTYP, note="scan: the raw value is a prefix of the rest"),
        Clause("E2b", "result[1] is None or forall(lambda j: not stop(sub, j), 0, len(raw))", when=_NOTYP,
               note="scan: no stopping full stop inside the raw value"),
        Clause("E2c", "result[1] is None or len(raw) == len(sub) or stop(sub, len(raw))", when=_NOTYP,
               note="scan: the raw value ends at a stopping full stop or at the end of the text"),
        Clause("E3", "result[1] is None or text == %s" % G, when=_NOTYP, note="trim"),
        Clause("E4-int", "result[1] is None or not is_signed_int(text) or typeis(result[1], 'int')", when=_NOTYP,
               note="integers (negative and zero included) stay integers", uses=[("L-int", {"t": "text"})]),
        Clause("E4-intval", "result[1] is None or not is_decimal(text) or (typeis(result[1], 'int') and result[1] == str_to_int(text))", when=_NOTYP),
        Clause("E4-bool", "result[1] is None or text not in ('True', 'False') or (typeis(result[1], 'bool') and result[1] == (text == 'True'))", when=_NOTYP),
        Clause("E4-float", "result[1] is None or not (py_float_ok(text) and not py_int_ok(text)) or typeis(result[1], 'float')", when=_NOTYP,
               note="floats stay floats"),
        Clause("E4-str", "result[1] is None or py_float_ok(text) or text in ('True', 'False') or (typeis(result[1], 'str') and result[1] == text)", when=_NOTYP,
               note="anything else is returned as the text itself"),
        Clause("E7", "result[1] is None or result[0] == line[:max(gs - 1, 0)] + line[ge + len(raw) + prefix_len(line[ge + len(raw):], ' \\t\\n.'):]",
               when=["typ=None,remove"], note="removal returns the surrounding prose"),
        Clause("E7n", "result[1] is None or result[0] == line[:max(gs - 1, 0)] + line[ge + len(raw):]",
               when=["typ=None,remove,norstrip"]),
    ],
    canaries=["result[1] is None", "typeis(result[1], 'str')"],
    lemmas=[
        Lemma("L-int", {"t": "str"},
              "is_signed_int(t) == (is_decimal(t) or (t[:1] == '-' and is_decimal(t[1:])))",
              note="a signed integer text is a decimal text, or '-' followed by one"),
    ],
)



def _ed_witness(case, vals, gvals):
    """candidate inputs from a counter-model: the value text behind a plain announcement"""
    out = []
    for key in ("text", "raw"):
        t = gvals.get(key)
        if isinstance(t, str):
            for prose in ("x. Defaults to ", "Defaults to ", "the x (y). Default value is "):
                kw = {k: (v[1] if isinstance(v, tuple) and v and v[0] == "lit" else v) for k, v in case.params.items()}
                kw["line"] = prose + t
                for k, v in list(kw.items()):
                    if v in ("str", "int", "bool") and k != "line":
                        kw[k] = vals.get(k)
                out.append(kw)
    return out


extract_default.witness = _ed_witness

CONTRACTS = [extract_default]
