"""Sidecar contracts for doctrans/defaults_utils.py (DESIGN Appendix C)."""
from vf.pyvc.verify import Case, Clause, Contract, Lemma, Outcome

TOKENS = ("defaults to ", "defaults to\n", "Default value is ", "Default:")
STRIPPED = "pystrip(raw, ' \\t`')"
G = "({u}[:-2] if (not {u}.startswith('(')) and {u}.endswith(').') else {u})".format(u=STRIPPED)

_ED_DEFS = {
    "nowhere_cf": "lambda e: forall(lambda j: casefold(line[j:j + len(e)]) != casefold(e), 0, len(line) + 1)",
}

_SCAN_INV = [
    "default == sub_l[:_i]",
    "all(v >= 0 for v in par.values())",
    "(sum(par.values()) == 0) == nobr(sub_l, _i)",
    "forall(lambda j: not stop(sub_l, j), 0, _i)",
]

_NOTYP = ["typ=None,emit", "typ=None,remove", "typ=None,remove,norstrip"]

extract_default = Contract(
    "doctrans.defaults_utils:extract_default",
    properties=["C17", "C01", "C08"],
    note="location_within is replaced by its contract; the scan loop is cut at its invariant",
    cases=[
        Case("None", {"line": None, "rstrip_default": True, "default_search_announce": None, "typ": None, "emit_default_doc": True}),
        Case("typ=None,emit", {"line": "str", "rstrip_default": True, "default_search_announce": None, "typ": None, "emit_default_doc": True}),
        Case("typ=None,remove", {"line": "str", "rstrip_default": True, "default_search_announce": None, "typ": None, "emit_default_doc": False}),
        Case("typ=None,remove,norstrip", {"line": "str", "rstrip_default": False, "default_search_announce": None, "typ": None, "emit_default_doc": False}),
        Case("typ=str,emit", {"line": "str", "rstrip_default": True, "default_search_announce": None, "typ": "str", "emit_default_doc": True}),
    ],
    use_contract_for=["doctrans.pure_utils:location_within"],
    defs=_ED_DEFS,
    loops={1: {"header": "for (idx, ch) in enumerate(sub_l)", "inv": _SCAN_INV}},
    ghosts={
        "_start_idx, _end_idx, _found = location_within(": [("gs", "_start_idx"), ("ge", "_end_idx")],
        "rest_offset = _end_idx + len(default)": [("raw", "default"), ("sub", "sub_l")],
        "if not default.startswith('('):": [("text", "default")],
    },
    raises={"ValueError": "typ is not None", "SyntaxError": "typ is not None"},
    ensures=[
        Clause("E0", "result == (None, None)", when=["None"]),
        Clause("E1", "(result[0] == line and result[1] is None) or any(0 <= gs and gs + len(t) <= len(line) and "
               "casefold(line[gs:gs + len(t)]) == casefold(t) for t in %r)" % (TOKENS,),
               when=_NOTYP + ["typ=str,emit"],
               note="prose is altered / a default returned only if an announcement phrase occurs (at the witnessed "
                    "position gs): prose that announces no default is returned unaltered, with no default"),
        Clause("E1c", "all(nowhere_cf(t) for t in %r) or result[1] is not None" % (TOKENS,), when=_NOTYP,
               note="conversely: when an announcement phrase occurs, a default (possibly the empty text) is extracted"),
        Clause("E6", "result[0] == line", when=["typ=None,emit", "typ=str,emit"]),
        Clause("E2a", "result[1] is None or raw == sub[:len(raw)]", when=_NOTYP, note="scan: the raw value is a prefix of the rest"),
        Clause("E2b", "result[1] is None or forall(lambda j: not stop(sub, j), 0, len(raw))", when=_NOTYP,
               note="scan: no stopping full stop inside the raw value"),
        Clause("E2c", "result[1] is None or len(raw) == len(sub) or stop(sub, len(raw))", when=_NOTYP,
               note="scan: the raw value ends at a stopping full stop or at the end of the text"),
        Clause("E3", "result[1] is None or text == %s" % G, when=_NOTYP, note="trim"),
        Clause("E4-int", "result[1] is None or not is_signed_int(text) or typeis(result[1], 'int')", when=_NOTYP,
               note="integers (negative and zero included) stay integers", uses=[("L-int", {"t": "text"})]),
        Clause("E4-intval", "result[1] is None or not is_decimal(text) or (typeis(result[1], 'int') and result[1] == str_to_int(text))", when=_NOTYP),
        Clause("E4-bool", "result[1] is None or text not in ('True', 'False') or (typeis(result[1], 'bool') and result[1] == (text == 'True'))", when=_NOTYP),
        Clause("E4-float", "result[1] is None or not (py_float_ok(text) and not py_int_ok(text)) or typeis(result[1], 'float')", when=_NOTYP,
               note="floats stay floats"),
        Clause("E4-str", "result[1] is None or py_float_ok(text) or text in ('True', 'False') or (typeis(result[1], 'str') and result[1] == text)", when=_NOTYP,
               note="anything else is returned as the text itself"),
        Clause("E7", "result[1] is None or result[0] == line[:max(gs - 1, 0)] + line[ge + len(raw) + prefix_len(line[ge + len(raw):], ' \\t\\n.'):]",
               when=["typ=None,remove"], note="removal returns the surrounding prose"),
        Clause("E7n", "result[1] is None or result[0] == line[:max(gs - 1, 0)] + line[ge + len(raw):]",
               when=["typ=None,remove,norstrip"]),
    ],
    canaries=["result[1] is None", "typeis(result[1], 'str')"],
    lemmas=[
        Lemma("L-int", {"t": "str"},
              "is_signed_int(t) == (is_decimal(t) or (t[:1] == '-' and is_decimal(t[1:])))",
              note="a signed integer text is a decimal text, or '-' followed by one"),
        Lemma("L-intok", {"t": "str"},
              "not (is_decimal(t) or (t[:1] in ('-', '+') and is_decimal(t[1:]))) or py_int_ok(t)",
              note="what the code tests before calling int() is accepted by int()"),
    ],
    facts=[("L-intok", {"t": "text"})],
)



def _ed_witness(case, vals, gvals):
    """candidate inputs from a counter-model: the value text behind a plain announcement"""
    out = []
    for key in ("text", "raw"):
        t = gvals.get(key)
        if isinstance(t, str):
            for prose in ("x. Defaults to ", "Defaults to ", "the x (y). Default value is "):
                kw = {k: (v[1] if isinstance(v, tuple) and v and v[0] == "lit" else v) for k, v in case.params.items()}
                kw["line"] = prose + t
                for k, v in list(kw.items()):
                    if v in ("str", "int", "bool") and k != "line":
                        kw[k] = vals.get(k)
                out.append(kw)
    return out


extract_default.witness = _ed_witness

# as a callee (set_default_doc's removal branch, interpolate_defaults): one outcome per Python type of the extracted default.
# Every `holds` clause is one the function's own contract proves (E1, E6) or the definition of an uninterpreted, deterministic
# function of the prose (`ed_doc`: what removal returns) - "extract_default is a deterministic function of its arguments".
_ED_COMMON = [
    "not emit_default_doc or result[0] == line",
    "not (emit_default_doc == False and typ is None and default_search_announce is None and rstrip_default == True) or result[0] == ed_doc(line)",
]
# E1 with its witness position existentially quantified: a default is returned only if an announcement phrase occurs somewhere
_ED_ANNOUNCED = ["default_search_announce is not None or exists(lambda g: any(g + len(t) <= len(line) and casefold(line[g:g + len(t)]) == casefold(t) "
                 "for t in %r), 0, len(line) + 1)" % (TOKENS,)]
extract_default.outcomes = [
    Outcome("no-default", ("tuple", ["str", None]), ["result[0] == line"] + _ED_COMMON),
    Outcome("str", ("tuple", ["str", "str"]), _ED_COMMON + _ED_ANNOUNCED),
    Outcome("int", ("tuple", ["str", "int"]), _ED_COMMON + _ED_ANNOUNCED),
    Outcome("bool", ("tuple", ["str", "bool"]), _ED_COMMON + _ED_ANNOUNCED),
    Outcome("float", ("tuple", ["str", ("obj", "float")]), _ED_COMMON + _ED_ANNOUNCED),
]

needs_quoting = Contract(
    "doctrans.defaults_utils:needs_quoting",
    properties=["C17", "C08", "C02", "C18"],
    note="only the three branches before the type string is parsed are under contract; the `ast` part is "
         "an uninterpreted predicate nq_spec (CPython's needs_quoting in the bounded companion)",
    cases=[
        Case("None", {"typ": None}),
        Case("star", {"typ": "str"}, assume=["typ.startswith('*')"]),
        Case("str", {"typ": ("lit", "str")}),
        Case("Optional[str]", {"typ": ("lit", "Optional[str]")}),
        Case("general", {"typ": "str"}, assume=["not typ.startswith('*')", "typ not in ('str', 'Optional[str]')", "typ != ''"],  # (a type is a non-empty text; the absent type is None)
             stop_after="parsed_typ_ast = ast_parse_fix(typ)"),
    ],
    ghosts={"parsed_typ_ast = ast_parse_fix(typ)": [("g_norm", "typ")]},
    ensures=[
        Clause("NQ1", "result == False", when=["None", "star"]),
        Clause("NQ2", "result == True", when=["str", "Optional[str]"]),
        Clause("NQ-norm", "('\\n' in g_norm) == False and g_norm[:1] not in (' ', '\\t') and g_norm[-1:] not in (' ', '\\t')", when=["general"],
               note="C18: what is handed to the parser is the type text without line breaks (a wrapped type line re-joins) and without outer blanks"),
        Clause("NQ-norm-id", "('\\n' in typ) or g_norm == typ.strip()", when=["general"],
               note="a type text without line breaks is only stripped"),
    ],
    canaries=["result == True", "g_norm == typ"],
    outcomes=[Outcome("any", "bool", [
        "not (typ is None or typ.startswith('*')) or result == False",
        "typ not in ('str', 'Optional[str]') or result == True",
        "typ not in ('int', 'float', 'bool', 'complex') or result == False",  # decided by evaluation: props/C02.py NQ-scalars
        "typ is None or result == nq_spec(typ)",
    ])],
)

needs_quoting.opaque = {"ast_parse_fix": {"ret": "obj"}}
NONESTR = "```(None)```"


def _sdd_cases():
    out = [Case("p=None", {"param": ("tuple", ["str", None]), "emit_default_doc": True}),
           Case("nodoc", {"param": ("tuple", ["str", ("dict", {"default": "int"})]), "emit_default_doc": True})]
    for emit in (True, False):
        for dk, dspec in (("absent", None), ("int", "int"), ("str", "str"), ("None", ("lit", None)), ("NoneStr", ("lit", NONESTR))):
            for tk, tspec in (("notyp", None), ("typ", "str")):
                d = {"doc": "str"}
                if dk != "absent":
                    d["default"] = dspec
                if tspec:
                    d["typ"] = tspec
                out.append(Case("emit=%s,default=%s,%s" % (emit, dk, tk),
                                {"param": ("tuple", ["str", ("dict", d)]), "emit_default_doc": emit},
                                assume=["len(param[1]['doc']) >= 1"] + (["param[1]['default'] != %r" % NONESTR] if dk == "str" else [])))
    return out


_HAS = "('Defaults' in old_param[1]['doc'] or 'defaults' in old_param[1]['doc'])"
_EMITS = [c.name for c in _sdd_cases() if c.name.startswith("emit=True") and "absent" not in c.name]
_ALLDOC = [c.name for c in _sdd_cases() if c.name.startswith("emit=")]
_REM = [c.name for c in _sdd_cases() if c.name.startswith("emit=False")]
_DOT = "(old_param[1]['doc'] if old_param[1]['doc'][-1] in ('.', ',') else old_param[1]['doc'] + '.')"


def _rendered(dk, tk):
    """the default as it must appear in the sentence"""
    if dk in ("None", "NoneStr"):
        return "'None'"
    if dk == "int":
        return "str(old_param[1]['default'])"
    # str default: quoted iff the type needs quoting
    if tk == "typ":
        q = "(old_param[1]['default'] if len(old_param[1]['default']) == 0 or %s else '\"' + old_param[1]['default'] + '\"')" % (
            "(old_param[1]['default'][0] == old_param[1]['default'][-1] and old_param[1]['default'][0] in ('\"', \"'\"))")
        return "(%s if nq_spec(old_param[1]['typ']) else old_param[1]['default'])" % q
    return "old_param[1]['default']"


def _sdd_ensures():
    cl = [
        Clause("S0", "result[0] == param[0] and result[1] is param[1]", note="returns the same name and the same dict object"),
        Clause("S1", "result[1] is None", when=["p=None"]),
        Clause("S1b", "result[1] == old_param[1]", when=["nodoc"], note="no prose: nothing changes"),
        Clause("S4a", "not %s or result[1]['doc'] == old_param[1]['doc']" % _HAS, when=[c for c in _ALLDOC if c.startswith("emit=True")],
               note="an existing default sentence is never duplicated (append only when absent)"),
        Clause("S4b", "result[1]['doc'] == old_param[1]['doc']", when=[c for c in _ALLDOC if "absent" in c and c.startswith("emit=True")],
               note="no default: the prose is unchanged"),
        Clause("S2", "not %s or result[1]['doc'] == ed_doc(old_param[1]['doc'])" % _HAS, when=_REM,
               note="removal delegates to extract_default(..., emit_default_doc=False)"),
        Clause("S2b", "%s or result[1]['doc'] == old_param[1]['doc']" % _HAS, when=_REM),
    ]
    for c in _EMITS:
        _, dk, tk = c.split(",")
        dk = dk.split("=")[1]
        kw = "param[0].endswith('kwargs')"
        if dk in ("None", "NoneStr"):
            cl.append(Clause("S3[%s]" % c, "%s or %s or result[1]['doc'] == %s + ' Defaults to ' + %s" % (_HAS, kw, _DOT, _rendered(dk, tk)),
                             when=[c], note="rendering law: prose, a full stop unless one (or a comma) is there, then the sentence"))
            cl.append(Clause("S3k[%s]" % c, "%s or not %s or result[1]['doc'] == old_param[1]['doc']" % (_HAS, kw), when=[c],
                             note="a **kwargs parameter with a None default gets no sentence"))
            cl.append(Clause("S3n[%s]" % c, "%s or result[1]['default'] is None" % _HAS, when=[c]))
        else:
            cl.append(Clause("S3[%s]" % c, "%s or result[1]['doc'] == %s + ' Defaults to ' + %s" % (_HAS, _DOT, _rendered(dk, tk)),
                             when=[c], note="rendering law"))
            cl.append(Clause("S3d[%s]" % c, "result[1]['default'] == old_param[1]['default']", when=[c], note="frame: the default is untouched"))
    return cl


set_default_doc = Contract(
    "doctrans.defaults_utils:set_default_doc",
    properties=["C17", "C08", "C13"],
    cases=_sdd_cases(),
    use_contract_for=["doctrans.defaults_utils:needs_quoting", "doctrans.defaults_utils:extract_default"],
    ensures=_sdd_ensures(),
    canaries=["result[1]['doc'] == old_param[1]['doc']"],
)



def _sdd_witness(case, vals, gvals):
    """the uninterpreted needs_quoting predicate has no preimage in a model: try types that need quoting"""
    out = []
    spec = case.params.get("param") or ("tuple", [case.params.get("name"), case.params.get("p")])
    d = spec[1][1]
    if not (isinstance(d, tuple) and d[0] == "dict" and "typ" in d[1]):
        return out
    for typ in ("Union[int, str]", "str", "List[str]"):
        p = {}
        for k, vs in d[1].items():
            key = "param_1_%s" % k if "param" in case.params else "p_%s" % k
            p[k] = vals.get(key) if vs in ("str", "int", "bool") else (vs[1] if isinstance(vs, tuple) and vs[0] == "lit" else vs)
        p["typ"] = typ
        if not p.get("doc"):
            p["doc"] = "the x"
        if "param" in case.params:
            out.append({"param": ("x", p), "emit_default_doc": case.params["emit_default_doc"]})
        else:
            out.append({"name": "x", "p": p})
    return out


set_default_doc.witness = _sdd_witness

sdd_idempotent = Contract(
    "vf.contracts.laws:sdd_twice",
    properties=["C08"],
    note="C08.D1: applying set_default_doc twice equals applying it once (no sentence per pass)",
    cases=[Case(c.name, {"name": c.params["param"][1][0], "p": c.params["param"][1][1]},
                assume=["len(p['doc']) >= 1"] + (["p['default'] != %r" % NONESTR] if "default=str" in c.name else []))
           for c in _sdd_cases() if c.name.startswith("emit=True")],
    use_contract_for=["doctrans.defaults_utils:needs_quoting"],
    ensures=[Clause("SL1", "result[0] == result[1]", note="second application is a no-op")],
)

sdd_idempotent.witness = _sdd_witness


def _id_cases():
    out = []
    for req in (False, True):
        for tk, tspec in (("notyp", None), ("typ", "str")):
            d = {"doc": "str"}
            if tspec:
                d["typ"] = tspec
            out.append(Case("require=%s,%s" % (req, tk), {"param": ("tuple", ["str", ("dict", d)]), "default_search_announce": None,
                                                       "require_default": req, "emit_default_doc": True}))
    for tk, tspec in (("notyp", None), ("typ", "str")):
        d = {"doc": "str", "default": "str"}
        if tspec:
            d["typ"] = tspec
        out.append(Case("require=False,%s,has" % tk, {"param": ("tuple", ["str", ("dict", d)]), "default_search_announce": None,
                                                      "require_default": False, "emit_default_doc": True}))
    out.append(Case("nodoc,require", {"param": ("tuple", ["str", ("dict", {"typ": "str"})]), "default_search_announce": None,
                                      "require_default": True, "emit_default_doc": True}))
    return out


_UNQ = ("(g_default[1:-1] if len(g_default) >= 2 and g_default[0] == g_default[-1] and g_default[0] in ('\"', \"'\") else g_default)")

interpolate_defaults = Contract(
    "doctrans.emitter_utils:interpolate_defaults",
    properties=["C17", "C01"],
    note="extract_default is applied by contract (one outcome per type of the extracted default)",
    cases=_id_cases(),
    use_contract_for=["doctrans.defaults_utils:extract_default"],
    raises={"ValueError": "'typ' in param[1]", "SyntaxError": "'typ' in param[1]"},  # inherited from extract_default (a declared scalar type that does not describe the text)
    ghosts={"doc, default = extract_default(": [("g_default", "default")]},
    ensures=[
        Clause("ID1", "result[0] == param[0] and result[1] is param[1]", note="same name, same dict object"),
        Clause("ID2", "result[1]['doc'] == old_param[1]['doc']", when=[c.name for c in _id_cases() if c.name.startswith("require")],
               note="with default text kept the prose is unchanged"),
        Clause("ID3", "('typ' in old_param[1]) == ('typ' in result[1]) and (not ('typ' in result[1]) or result[1]['typ'] == old_param[1]['typ'])",
               note="frame: the type is untouched"),
        Clause("ID4", "g_default is None or not typeis(g_default, 'str') or result[1]['default'] == %s" % _UNQ,
               when=[c.name for c in _id_cases() if c.name.startswith("require")], note="a string default is stored unquoted (one layer)"),
        Clause("ID5", "g_default is None or typeis(g_default, 'str') or result[1]['default'] == g_default",
               when=[c.name for c in _id_cases() if c.name.startswith("require")], note="int / bool / float defaults are stored as extracted (type kept)"),
        Clause("ID9", "g_default is not None or result[1]['default'] == old_param[1]['default']", when=["require=False,notyp,has", "require=False,typ,has"],
               note="an entry's existing default survives when the prose announces none; when it announces one, ID4 / ID5 say the announced one wins"),
        Clause("ID6", "g_default is not None or ('default' in result[1]) == False", when=["require=False,notyp", "require=False,typ"],
               note="nothing announced and no default required: no default is invented"),
        Clause("ID7", "g_default is not None or result[1]['default'] == '```(None)```'", when=["require=True,notyp"],
               note="a required default without type is the None spelling"),
        Clause("ID8", "g_default is not None or (result[1]['typ'] == 'int' and result[1]['default'] == 0) or (result[1]['typ'] == 'str' and result[1]['default'] == '') "
                      "or (result[1]['typ'] == 'bool' and result[1]['default'] == False) or (result[1]['typ'] == 'float' and result[1]['default'] == 0.0) "
                      "or (result[1]['typ'] == 'complex' and result[1]['default'] == 0j) "
                      "or (result[1]['typ'] not in ('int', 'str', 'bool', 'float', 'complex') and result[1]['default'] == '```(None)```')",
               when=["require=True,typ"], note="a required default of a scalar type is its zero value, otherwise the None spelling"),
    ],
    canaries=["g_default is None"],
)



def _id_witness(case, vals, gvals):
    """extract_default is applied by contract, so a counter-model has no prose that produces its g_default: build prose that announces it"""
    out = []
    d = case.params["param"][1][1][1]
    g = gvals.get("g_default")
    texts = [repr(g) if not isinstance(g, str) else g] if g is not None else []
    for t in texts + ["5", "abc", "-3", "True"]:
        for prose in ("the x. Defaults to ", "Defaults to "):
            p = {"doc": prose + t}
            if "typ" in d:
                p["typ"] = vals.get("param_1_typ") or "str"
            if "default" in d:
                for old in (vals.get("param_1_default"), "previous", ""):
                    if old is not None:
                        out.append({"param": ("x", dict(p, default=old)), "default_search_announce": None,
                                    "require_default": case.params["require_default"], "emit_default_doc": True})
            else:
                out.append({"param": ("x", p), "default_search_announce": None, "require_default": case.params["require_default"], "emit_default_doc": True})
    return out


interpolate_defaults.witness = _id_witness



def _rdp_case(name, extra, emit_prop):
    d = {"doc": "str"}
    d.update(extra)
    return Case(name, {"param": ("tuple", ["str", ("dict", d)]), "emit_default_prop": emit_prop})


remove_default_from_param = Contract(
    "doctrans.defaults_utils:_remove_default_from_param",
    properties=["C01", "C17"],
    note="extract_default by contract (one outcome per type of the extracted default; ed_doc = what removal returns, proved as E7 / E7n)",
    cases=[_rdp_case("keep-prop", {}, True), _rdp_case("keep-prop,typ", {"typ": "str"}, True), _rdp_case("keep-prop,had-default", {"default": "int"}, True),
           _rdp_case("drop-prop", {}, False), _rdp_case("drop-prop,had-default", {"default": "int"}, False)],
    use_contract_for=["doctrans.defaults_utils:extract_default"],
    ghosts={"doc, default = extract_default(": [("g_doc", "doc"), ("g_default", "default")]},
    ensures=[
        Clause("RD-same", "result[0] == param[0] and result[1] is param[1]", note="same name, same dict object"),
        Clause("RD-doc", "result[1]['doc'] == ed_doc(old_param[1]['doc'])", note="the prose is the original prose with the default sentence removed"),
        Clause("RD-default", "('default' in result[1]) == (g_default is not None) and (g_default is None or result[1]['default'] == g_default)",
               when=["keep-prop", "keep-prop,typ", "keep-prop,had-default"],
               note="C17: the default property is exactly what the sentence announced (a stale one is replaced, none is invented)"),
        Clause("RD-dropped", "('default' in result[1]) == False", when=["drop-prop", "drop-prop,had-default"], note="emit_default_prop=False: no default property"),
        Clause("RD-typ", "('typ' in result[1]) == ('typ' in old_param[1]) and (('typ' in result[1]) == False or result[1]['typ'] == old_param[1]['typ'])", note="frame: the type is untouched"),
    ],
    canaries=["g_default is None", "'default' in result[1]"],
)

CONTRACTS = [extract_default, needs_quoting, set_default_doc, sdd_idempotent, interpolate_defaults, remove_default_from_param]
