"""Sidecar contracts for doctrans/ast_utils.py and doctrans/emitter_utils.py leaf functions."""
from vf.pyvc.verify import Case, Clause, Contract


def _fd(names):
    """symbolic FunctionDef whose positional arguments have symbolic names"""
    return ("node", "ast.FunctionDef", {
        "name": "str",
        "args": ("node", "ast.arguments", {"args": ("list", [("node", "ast.arg", {"arg": "str", "annotation": None}) for _ in names])}),
    })


get_function_type = Contract(
    "doctrans.ast_utils:get_function_type",
    properties=["C03", "C09"],
    note="argument lists of length 0..3 (the code inspects only element 0)",
    cases=[Case("args=%d" % n, {"function_def": _fd(range(n))}) for n in range(4)],
    ensures=[
        Clause("GFT0", "result == 'static'", when=["args=0"]),
        Clause("GFT1", "result == (function_def.args.args[0].arg if function_def.args.args[0].arg in ('self', 'cls') else 'static')",
               when=["args=1", "args=2", "args=3"], note="'self' / 'cls' iff the first positional argument has that name"),
    ],
    canaries=["result == 'static'"],
)

set_value = Contract(
    "doctrans.ast_utils:set_value",
    properties=["C02", "C06", "C08"],
    cases=[Case("str", {"value": "str", "kind": None}), Case("int", {"value": "int", "kind": None}),
           Case("None", {"value": None, "kind": None}), Case("bool", {"value": "bool", "kind": None})],
    ensures=[
        Clause("SV1", "typeis(result, 'Constant')", note="a Constant node"),
        Clause("SV2", "result.value == (value[1:-1] if len(value) > 2 and value[0] == value[-1] and value[0] in ('\"', \"'\") else value)",
               when=["str"], note="strips exactly one pair of matching quotes from strings longer than 2, otherwise identity"),
        Clause("SV3", "result.value == value", when=["int", "bool"]),
        Clause("SV4", "result.value is None", when=["None"]),
    ],
    canaries=["result.value == value"],
)

_STMT = ("node", "ast.Pass", {})
_M = "(intermediate_repr['_internal']['from_name'] == target_name and intermediate_repr['_internal']['from_type'] == target_type)"

get_internal_body = Contract(
    "doctrans.emitter_utils:get_internal_body",
    properties=["C16"],
    note="carried bodies of length 0..2 (only truthiness of the list matters)",
    cases=[Case("no-internal", {"target_name": "str", "target_type": "str", "intermediate_repr": ("dict", {"name": "str"})})]
    + [Case("body=%d" % n, {"target_name": "str", "target_type": "str",
                            "intermediate_repr": ("dict", {"_internal": ("dict", {"body": ("list", [_STMT] * n), "from_name": "str", "from_type": "str"})})})
       for n in range(3)],
    ensures=[
        Clause("GIB0", "result == ()", when=["no-internal", "body=0"]),
        Clause("GIB1", "(%s and result is intermediate_repr['_internal']['body']) or ((not %s) and result == ())" % (_M, _M),
               when=["body=1", "body=2"], note="the carried body iff name and type match the target, else an empty tuple"),
        Clause("GIB-frame", "unchanged(intermediate_repr, old_intermediate_repr)", note="frame: the IR is not modified"),
    ],
    canaries=["result == ()"],
)

_SELF = lambda ids: ("node", "doctrans.emitter_utils.RewriteName", {"node_ids": ids})  # noqa: E731
_NAME = ("node", "ast.Name", {"id": "str", "ctx": ("node", "ast.Load", {})})

rewrite_name = Contract(
    "doctrans.emitter_utils:RewriteName.visit_Name",
    properties=["C16"],
    note="node_ids: a tuple of 1..3 symbolic names (membership is all that matters)",
    cases=[Case("ids=%d" % n, {"self": _SELF(("tuple", ["str"] * n)), "node": _NAME}) for n in (1, 2, 3)],
    ensures=[
        Clause("RN1", "not (node.id in self.node_ids) or (typeis(result, 'Attribute') and result.attr == node.id "
                      "and typeis(result.value, 'Name') and result.value.id == 'self')",
               note="a reference to a parameter becomes self.<name>"),
        Clause("RN2", "(node.id in self.node_ids) or result is node", note="no other name is touched"),
    ],
    canaries=["result is node"],
)

_UNQ1 = "(D[1:-1] if len(D) > 2 and D[0] == D[-1] and D[0] in ('\"', \"'\") else D)".replace("D", "old_param[1]['default']")
NONESTR = "```(None)```"


def _p2a_case(name, typ, default, assume=()):
    d = {}
    if typ != "<absent>":
        d["typ"] = typ
    if default != "<absent>":
        d["default"] = default
    return Case(name, {"param": ("tuple", ["str", ("dict", d)])}, assume=list(assume))


param2ast = Contract(
    "doctrans.ast_utils:param2ast",
    properties=["C02", "C06"],
    note="scalar types, str (quoting) and untyped parameters; needs_quoting by contract; compound types go to _generic_param2ast, which parses "
         "type strings with ast and is outside the verified subset (bounded rt_class covers it)",
    cases=[
        _p2a_case("int,default", ("lit", "int"), "int"),
        _p2a_case("int,nodefault", ("lit", "int"), "<absent>"),
        _p2a_case("bool,default", ("lit", "bool"), "bool"),
        _p2a_case("str,default", ("lit", "str"), "str", assume=["param[1]['default'] != %r" % NONESTR]),
        _p2a_case("str,nodefault", ("lit", "str"), "<absent>"),
        _p2a_case("untyped,int", "<absent>", "int"),
        _p2a_case("untyped,nodefault", "<absent>", "<absent>"),
        # types that need quoting without being bare str (needs_quoting by contract: Optional[str] is one of its literal branches)
        _p2a_case("Optional[str],str", ("lit", "Optional[str]"), "str", assume=["param[1]['default'] != %r" % NONESTR]),
        _p2a_case("Optional[str],int", ("lit", "Optional[str]"), "int"),
        _p2a_case("Optional[str],bool", ("lit", "Optional[str]"), "bool"),
    ],
    use_contract_for=["doctrans.defaults_utils:needs_quoting"],
    ensures=[
        Clause("PA0", "typeis(result, 'AnnAssign') and result.target.id == param[0] and result.simple == 1", note="an annotated assignment to the parameter's name"),
        Clause("PA-ann-int", "result.annotation.id == 'int'", when=["int,default", "int,nodefault", "untyped,int"],
               note="the annotation is the declared (or, for an untyped parameter, the default's) scalar type"),
        Clause("PA-ann-bool", "result.annotation.id == 'bool'", when=["bool,default"]),
        Clause("PA-ann-str", "result.annotation.id == 'str'", when=["str,default", "str,nodefault"]),
        Clause("PA-ann-object", "result.annotation.id == 'object' and result.value.value is None", when=["untyped,nodefault"]),
        Clause("PA-val-int", "result.value.value == old_param[1]['default']", when=["int,default", "untyped,int", "bool,default"],
               note="an explicit scalar default is the assigned value (falsy ones included)"),
        Clause("PA-val-zero", "result.value.value == 0", when=["int,nodefault"], note="N_class: no default -> the zero value of the type"),
        Clause("PA-val-str", "result.value.value == %s" % _UNQ1, when=["str,default"],
               note="a str default is the assigned text, minus at most one pair of matching quotes"),
        Clause("PA-val-str-zero", "result.value.value == ''", when=["str,nodefault"]),
        Clause("PA-val-quoting-str", "result.value.value == %s" % _UNQ1, when=["Optional[str],str"],
               note="C02 / C06: a str default under a type that needs quoting is the assigned text - the empty string included"),
        Clause("PA-val-quoting-scalar", "result.value.value == old_param[1]['default']", when=["Optional[str],int", "Optional[str],bool"],
               note="C06: a falsy non-str default (0, False) under a type that mentions str is still the assigned value, not None"),
        Clause("PA-frame", "('doc' in param[1]) == False", note="no prose is invented"),
    ],
    canaries=["result.value.value == 0"],
)

CONTRACTS = [get_function_type, set_value, get_internal_body, rewrite_name, param2ast]

# ------------------------------------------------------------------------------------------- _parse_node_for_arg (C06 / C04: choices)
_C = ("node", "ast.Constant", {"value": "str", "kind": None})
_N = ("node", "ast.Name", {"id": "str", "ctx": ("node", "ast.Load", {})})
_E = ("node", "ast.Constant", {"value": ("lit", Ellipsis), "kind": None})


def _tup(elts):
    return ("node", "ast.Tuple", {"elts": ("list", list(elts)), "ctx": ("node", "ast.Load", {})})


_PNA_SHAPES = {"C": [_C], "CC": [_C, _C], "CCC": [_C, _C, _C], "N": [_N], "NN": [_N, _N], "CN": [_C, _N], "NC": [_N, _C], "NCC": [_N, _C, _C], "CNC": [_C, _N, _C]}
_ALLC = ["C", "CC", "CCC"]
_MIXED = [k for k in _PNA_SHAPES if k not in _ALLC]

parse_node_for_arg = Contract(
    "doctrans.ast_utils:_parse_node_for_arg",
    properties=["C06", "C04"],
    note="the tuple inside a subscripted type (Literal[...] / Union[...] / Tuple[...]): element shapes up to length 3 over Constant / Name; and a bare Name",
    cases=[Case("tuple:%s" % k, {"_required": "bool", "action": None, "choices": None, "node": _tup(v), "typ": "str"}) for k, v in _PNA_SHAPES.items()]
    + [Case("name", {"_required": "bool", "action": None, "choices": None, "node": _N, "typ": "str"})],
    ensures=[
        Clause("PN-choices-all", "result[2] == tuple(e.value for e in node.elts)", when=["tuple:%s" % k for k in _ALLC],
               note="a type that enumerates constants only (Literal['a', 'b']) offers exactly those values as choices, in order"),
        Clause("PN-choices-mixed", "result[2] is None", when=["tuple:%s" % k for k in _MIXED] + ["name"],
               note="C06: a type that mentions any non-constant alternative (Union[int, None], Tuple[int, ...]) restricts nothing: no choices"),
        Clause("PN-frame-tuple", "result[0] == _required and result[1] is None and result[3] == typ", when=["tuple:%s" % k for k in _PNA_SHAPES],
               note="a tuple node changes nothing else"),
        Clause("PN-name-required", "result[0] == (_required and node.id != 'Optional')", when=["name"], note="only Optional clears the required flag"),
        Clause("PN-name-typ", "result[3] == (typ if node.id in ('Optional', 'Union') else (node.id if node.id in ('int', 'float', 'complex', 'str', 'bool') else 'str'))",
               when=["name"], note="scalar names are the type; Optional / Union leave it; anything else falls back to str"),
        Clause("PN-name-action", "(result[1] == 'append') == (node.id == 'List') and (result[1] is None or result[1] == 'append')", when=["name"]),
    ],
    canaries=["result[2] is None", "result[0] == True"],
)
CONTRACTS.append(parse_node_for_arg)

# ------------------------------------------------------------------------------------------- find_in_ast (C15 / C10 / C14: dotted lookup)
def _loc(*names):
    return ("list", list(names))


def _ann(cls, attr):
    return ("node", "ast.AnnAssign", {"target": ("node", "ast.Name", {"id": attr, "ctx": ("node", "ast.Store", {})}), "annotation": None, "value": None,
                                      "simple": 1, "_location": _loc(cls, attr)})


def _arg(fn_loc, name, idx):
    return ("node", "ast.arg", {"arg": name, "annotation": None, "_location": _loc(*(fn_loc + [name])), "_idx": idx})


def _fn(loc, arg_names):
    return ("node", "ast.FunctionDef", {"name": loc[-1], "_location": _loc(*loc), "body": ("list", [("node", "ast.Pass", {})]),
                                        "args": ("node", "ast.arguments", {"args": ("list", [_arg(loc, a, i) for i, a in enumerate(arg_names)]),
                                                                           "defaults": ("list", []), "kwonlyargs": ("list", []), "kw_defaults": ("list", [])})})


def _cls(name, members):
    return ("node", "ast.ClassDef", {"name": name, "_location": _loc(name), "body": ("list", members)})


def _mod(body):
    return ("node", "ast.Module", {"body": ("list", body), "_location": _loc()})


# names are distinct literals: the contract is about the *shape* of the module (what precedes / follows the addressed node),
# which is what the lookup's cursor logic depends on; the bounded C15 sweep varies the names
_FIA_MODULES = {
    "class-attr": (_mod([_cls("A", [_ann("A", "x"), _ann("A", "y")]), _cls("B", [_ann("B", "z")])]), ["A", "y"], "node.body[0].body[1]"),
    "class-attr,2nd-class": (_mod([_cls("A", [_ann("A", "x")]), _cls("B", [_ann("B", "z"), _ann("B", "w")])]), ["B", "w"], "node.body[1].body[1]"),
    "method": (_mod([_cls("A", [_ann("A", "x"), _fn(["A", "m"], ["self", "p"])])]), ["A", "m"], "node.body[0].body[1]"),
    "method,def-after": (_mod([_cls("A", [_ann("A", "x"), _fn(["A", "m"], ["self", "p"])]), _fn(["g"], ["q"])]), ["A", "m"], "node.body[0].body[1]"),
    "attr,def-after": (_mod([_cls("A", [_ann("A", "x")]), _fn(["g"], ["q"])]), ["A", "x"], "node.body[0].body[0]"),
    "class,def-after": (_mod([_cls("A", [_ann("A", "x")]), _fn(["g"], ["q"])]), ["A"], "node.body[0]"),
    "function": (_mod([_cls("A", [_ann("A", "x")]), _fn(["g"], ["q"])]), ["g"], "node.body[1]"),
    "function-arg": (_mod([_fn(["g"], ["q", "r"])]), ["g", "r"], "node.body[0].args.args[1]"),
    "absent-attr": (_mod([_cls("A", [_ann("A", "x")]), _cls("B", [_ann("B", "z")])]), ["A", "nope"], None),
    "absent-top": (_mod([_cls("A", [_ann("A", "x")])]), ["Nope"], None),
}

find_in_ast = Contract(
    "doctrans.ast_utils:find_in_ast",
    properties=["C15", "C10", "C14", "C09"],
    note="annotated modules (every named node carries the _location annotate_ancestry gives it) of ten shapes: class attribute (first / second class), "
         "method, the same with a module-level def AFTER the class, top-level class / function, function argument, absent paths. Names are distinct "
         "literals (shared simple names and a def BEFORE the class are the listed finding F9 and are not part of this contract)",
    cases=[Case(k, {"search": ("list", [("lit", x) for x in srch]), "node": mod}) for k, (mod, srch, _) in _FIA_MODULES.items()],
    ensures=[Clause("FIA-%s" % k, ("result is %s" % want) if want else "result is None", when=[k],
                    note="C15: the dotted location resolves to exactly the addressed node" if want else "C15: an absent path resolves to nothing")
             for k, (_, _, want) in _FIA_MODULES.items()]
    + [Clause("FIA-search-kept", "unchanged(search, old_search)", note="the caller's search list is not consumed")],
    canaries=["result is None", "result is node"],
)
CONTRACTS.append(find_in_ast)

# ------------------------------------------------------------------------------------------- annotate_ancestry (C15 / C11: locations)
def _u_ann(attr):
    return ("node", "ast.AnnAssign", {"target": ("node", "ast.Name", {"id": attr, "ctx": ("node", "ast.Store", {})}), "annotation": None, "value": None, "simple": 1})


def _u_assign(name):
    return ("node", "ast.Assign", {"targets": ("list", [("node", "ast.Name", {"id": name, "ctx": ("node", "ast.Store", {})})]),
                                   "value": ("node", "ast.Constant", {"value": 5, "kind": None}), "type_comment": None})


def _u_doc(text):
    return ("node", "ast.Expr", {"value": ("node", "ast.Constant", {"value": text, "kind": None})})


def _u_fn(name, arg_names, kwonly=()):
    return ("node", "ast.FunctionDef", {"name": name, "body": ("list", [("node", "ast.Pass", {})]), "decorator_list": ("list", []), "returns": None,
                                        "args": ("node", "ast.arguments", {"posonlyargs": ("list", []), "args": ("list", [("node", "ast.arg", {"arg": a, "annotation": None}) for a in arg_names]),
                                                                           "vararg": None, "kwonlyargs": ("list", [("node", "ast.arg", {"arg": a, "annotation": None}) for a in kwonly]),
                                                                           "kw_defaults": ("list", []), "kwarg": None, "defaults": ("list", [])})})


def _u_cls(name, members):
    return ("node", "ast.ClassDef", {"name": name, "bases": ("list", []), "keywords": ("list", []), "body": ("list", members), "decorator_list": ("list", [])})


def _u_mod(body):
    return ("node", "ast.Module", {"body": ("list", body), "type_ignores": ("list", [])})


_AA_MODULES = {
    # name -> (module, {path expression: expected _location}, [path expressions that must NOT be located at a one-name address of a definition])
    "class+function": (_u_mod([_u_cls("A", [_u_ann("x"), _u_fn("m", ["self", "p"])]), _u_fn("g", ["q"], ["k"]), _u_assign("T"), _u_fn("h", ["s", "cl"]), _u_cls("K", [_u_fn("make", ["cls", "r"])])]),
                       {"node": [], "node.body[0]": ["A"], "node.body[0].body[0]": ["A", "x"], "node.body[0].body[1]": ["A", "m"],
                        "node.body[0].body[1].args.args[1]": ["A", "m", "p"], "node.body[1]": ["g"], "node.body[1].args.args[0]": ["g", "q"],
                        "node.body[1].args.kwonlyargs[0]": ["g", "k"], "node.body[2]": ["T"]}, []),
    "docstring-names-a-later-class": (_u_mod([_u_cls("E", [_u_doc("A")]), _u_cls("A", [_u_ann("x")])]),
                                      {"node.body[0]": ["E"], "node.body[1]": ["A"], "node.body[1].body[0]": ["A", "x"]}, ["node.body[0].body[0].value"]),
    "constant-before-any-definition": (_u_mod([_u_doc("A"), _u_cls("A", [_u_ann("x")])]), {"node.body[1]": ["A"]}, ["node.body[0].value"]),
    "constant-in-list-names-a-class": (_u_mod([_u_cls("A", [_u_ann("x")]),
                                               ("node", "ast.Assign", {"targets": ("list", [("node", "ast.Name", {"id": "__all__", "ctx": ("node", "ast.Store", {})})]),
                                                                       "value": ("node", "ast.List", {"elts": ("list", [("node", "ast.Constant", {"value": "A", "kind": None})]),
                                                                                                      "ctx": ("node", "ast.Load", {})}), "type_comment": None})]),
                                       {"node.body[0]": ["A"], "node.body[1]": ["__all__"]}, ["node.body[1].value.elts[0]"]),
}


def _aa_clauses():
    out = []
    for k, (_, want, not_named) in _AA_MODULES.items():
        for i, (pth, loc) in enumerate(want.items()):
            out.append(Clause("AA-%s-%d" % (k, i), "%s._location == %r" % (pth, loc), when=[k],
                              note="C15: every definition, attribute and argument is located at its dotted path"))
        for i, pth in enumerate(not_named):
            out.append(Clause("AA-%s-const%d" % (k, i), "(hasattr(%s, '_location') and len(%s._location) == 1) == False" % (pth, pth), when=[k],
                              note="C11 / C15: a string constant is never located at the one-name address of a definition that happens to have its text as name"))
    for pth, idx in (("node.body[0].body[1].args.args[0]", -1), ("node.body[0].body[1].args.args[1]", 0), ("node.body[1].args.args[0]", 0),
                     ("node.body[1].args.kwonlyargs[0]", 0), ("node.body[3].args.args[0]", 0), ("node.body[3].args.args[1]", 1),
                     ("node.body[4].body[0].args.args[0]", -1), ("node.body[4].body[0].args.args[1]", 0)):
        out.append(Clause("AA-idx-%s" % pth.replace("node.", "").replace(".", "_"), "%s._idx == %d" % (pth, idx), when=["class+function"],
                          note="C14 / C15: an argument's index counts from 0, not counting a receiver that is named exactly self or cls"))
    return out


annotate_ancestry = Contract(
    "doctrans.ast_utils:annotate_ancestry",
    properties=["C15", "C11", "C14"],
    note="un-annotated modules of four shapes (names are distinct literals); ast.walk / iter_child_nodes are modelled on the node records in CPython's order",
    cases=[Case(k, {"node": m}) for k, (m, _, _) in _AA_MODULES.items()],
    ensures=_aa_clauses() + [Clause("AA-same", "result is node", note="annotates in place")],
    canaries=["node.body[0]._location == []"],
)
CONTRACTS.append(annotate_ancestry)

# ------------------------------------------------------------------------------------------- it2literal (C14: evaluated input values -> Literal[...])
it2literal = Contract(
    "doctrans.ast_utils:it2literal",
    properties=["C14"],
    note="tuples of 1..3 int / str values (the values an evaluated input expression yields); set_value inlined",
    cases=[Case("ints=%d" % n, {"it": ("tuple", ["int"] * n)}) for n in (1, 2, 3)] + [Case("mixed", {"it": ("tuple", ["bool", "int", "str"])})],
    ensures=[
        Clause("IL-kind", "typeis(result, 'Subscript') and result.value.id == 'Literal'", note="a Literal[...] annotation"),
        Clause("IL-one", "result.slice.value == it[0]", when=["ints=1"], note="a single value is the subscript itself"),
        Clause("IL-all-2", "[e.value for e in result.slice.elts] == [it[0], it[1]]", when=["ints=2"],
               note="C14: every evaluated value appears, once per occurrence and in order - values that merely compare equal are not merged"),
        Clause("IL-all-3", "[e.value for e in result.slice.elts] == [it[0], it[1], it[2]]", when=["ints=3"]),
        Clause("IL-mixed", "len(result.slice.elts) == 3 and typeis(result.slice.elts[0].value, 'bool') and result.slice.elts[0].value == it[0] "
                           "and typeis(result.slice.elts[1].value, 'int') and result.slice.elts[1].value == it[1] and result.slice.elts[2].value == %s" %
               "(it[2][1:-1] if len(it[2]) > 2 and it[2][0] == it[2][-1] and it[2][0] in ('\"', \"'\") else it[2])", when=["mixed"],
               note="False / 0 and True / 1 stay distinct members (strings go through set_value: one pair of enclosing quotes is stripped)"),
    ],
    canaries=["len(it) == 1"],
)
CONTRACTS.append(it2literal)

# ------------------------------------------------------------------------------------------- infer_type_and_default (C04: defaults of argparse options)
infer_type_and_default = Contract(
    "doctrans.ast_utils:infer_type_and_default",
    properties=["C04", "C06"],
    note="scalar defaults (int / bool / plain str) and None; code-quoted strings, AST nodes, lists and dicts take other branches (bounded rt_argparse)",
    cases=[
        Case("int", {"action": None, "default": "int", "typ": "str", "required": "bool"}),
        Case("bool", {"action": None, "default": "bool", "typ": "str", "required": "bool"}),
        Case("str", {"action": None, "default": "str", "typ": "str", "required": "bool"},
             assume=["not (len(default) > 6 and default[:3] == '```' and default[-3:] == '```')"]),
        Case("None,Optional", {"action": None, "default": None, "typ": ("lit", "Optional[int]"), "required": "bool"}),
        Case("None,plain", {"action": None, "default": None, "typ": ("lit", "int"), "required": "bool"}),
        Case("None,Any", {"action": None, "default": None, "typ": ("lit", "Any"), "required": "bool"}),
    ],
    ensures=[
        Clause("ITD-frame", "result[0] is None and result[2] == required", note="action and the required flag are untouched by a scalar / None default"),
        Clause("ITD-value", "result[1] == default and typeis(result[1], 'int')", when=["int"], note="C04: the default value and its Python type are kept"),
        Clause("ITD-value-bool", "result[1] == default and typeis(result[1], 'bool')", when=["bool"]),
        Clause("ITD-value-str", "result[1] == default", when=["str"]),
        Clause("ITD-typ-int", "result[3] == 'int'", when=["int"], note="the option's type is the default's type"),
        Clause("ITD-typ-bool", "result[3] == 'bool'", when=["bool"]),
        Clause("ITD-typ-str", "result[3] == 'str'", when=["str"]),
        Clause("ITD-none", "result[1] is None", when=["None,Optional", "None,plain", "None,Any"]),
        Clause("ITD-none-typ", "result[3] == typ", when=["None,Optional", "None,Any"], note="an Optional / Any type survives a None default"),
        Clause("ITD-none-plain", "result[3] is None", when=["None,plain"], note="(a plain scalar type is dropped with a None default: finding A-none's mechanism)"),
    ],
    canaries=["result[3] == 'int'", "result[1] is None"],
)
CONTRACTS.append(infer_type_and_default)

# ------------------------------------------------------------------------------------------- param2argparse_param (C04: one option)
def _p2ap_case(name, typ, default="<absent>", assume=()):
    d = {"typ": ("lit", typ), "doc": ("lit", "the option")}
    if default != "<absent>":
        d["default"] = default
    return Case(name, {"param": ("tuple", [("lit", "opt"), ("dict", d)]), "word_wrap": False, "emit_default_doc": False}, assume=list(assume))


_KW = "{k.arg: k.value for k in result.value.keywords}"

param2argparse_param = Contract(
    "doctrans.ast_utils:param2argparse_param",
    properties=["C04", "C06"],
    note="one option called 'opt' with the literal prose 'the option' (so the default-sentence scan runs concretely), of type int / str / bool / float / Optional[int] / List[str] / Literal['a', 'b'], with and "
         "without an explicit default; the type string is a literal, so ast.parse really parses it; extract_default by contract; no word wrap",
    cases=[
        _p2ap_case("int,default", "int", "int"), _p2ap_case("int,nodefault", "int"),
        _p2ap_case("str,default", "str", "str", assume=["not (len(param[1]['default']) > 6 and param[1]['default'][:3] == '```' and param[1]['default'][-3:] == '```')",
                                                        "param[1]['default'] != '```(None)```'"]),
        _p2ap_case("bool,default", "bool", "bool"),
        _p2ap_case("Optional[int],nodefault", "Optional[int]"), _p2ap_case("Optional[int],default", "Optional[int]", "int"),
        _p2ap_case("List[str],nodefault", "List[str]"),
        _p2ap_case("Literal,default", "Literal['a', 'b']", ("lit", "a")),
    ],
    ensures=[
        Clause("P2A-call", "typeis(result, 'Expr') and typeis(result.value, 'Call') and result.value.func.attr == 'add_argument' and result.value.func.value.id == 'argument_parser' "
                           "and len(result.value.args) == 1 and result.value.args[0].value == '--opt'", note="argument_parser.add_argument('--opt', ...)"),
        Clause("P2A-help", "('help' in %s) and %s['help'].value == 'the option'" % (_KW, _KW), note="C04: the prose is the help text"),
        Clause("P2A-type-int", "('type' in %s) and %s['type'].id == 'int'" % (_KW, _KW), when=["int,default", "int,nodefault", "Optional[int],nodefault", "Optional[int],default"],
               note="C04: the scalar type of the option"),
        Clause("P2A-type-bool", "('type' in %s) and %s['type'].id == 'bool'" % (_KW, _KW), when=["bool,default"]),
        Clause("P2A-type-str", "('type' in %s) == False" % _KW, when=["str,default", "Literal,default"], note="str is argparse's default type: not written"),
        Clause("P2A-default", "('default' in %s) and %s['default'].value == old_param[1]['default']" % (_KW, _KW), when=["int,default", "bool,default", "Optional[int],default"],
               note="C04: an explicit default is emitted with its value (falsy ones included)"),
        Clause("P2A-no-default", "('default' in %s) == False" % _KW, when=["int,nodefault", "Optional[int],nodefault", "List[str],nodefault"], note="no default is invented"),
        Clause("P2A-required", "('required' in %s) == True and %s['required'].value == True" % (_KW, _KW), when=["int,default", "int,nodefault", "str,default", "bool,default"],
               note="a non-Optional scalar option is required"),
        Clause("P2A-optional", "('required' in %s) == False" % _KW, when=["Optional[int],nodefault", "Optional[int],default"], note="Optional[...] makes the option optional"),
        Clause("P2A-list", "('action' in %s) and %s['action'].value == 'append'" % (_KW, _KW), when=["List[str],nodefault"], note="List[...] options append"),
        Clause("P2A-choices", "('choices' in %s) and [e.value for e in %s['choices'].elts] == ['a', 'b']" % (_KW, _KW), when=["Literal,default"], note="C04 / C06: a Literal of constants offers exactly those choices"),
    ],
    canaries=["len(result.value.keywords) == 1"],
)
CONTRACTS.append(param2argparse_param)

# ------------------------------------------------------------------------------------------- law: one argparse option there and back (C04-L for scalars)
def _rt_case(name, typ, default="<absent>", assume=()):
    d = {"typ": ("lit", typ), "doc": ("lit", "the option")}
    if default != "<absent>":
        d["default"] = default
    return Case(name, {"param": ("tuple", [("lit", "opt"), ("dict", d)])}, assume=list(assume))


argparse_option_roundtrip = Contract(
    "vf.contracts.laws:argparse_option_roundtrip",
    properties=["C04", "C05"],
    note="C04 for ONE option, deductively: param2argparse_param followed by parse_out_param (both real functions, inlined) on an option with literal name / prose and a "
         "symbolic default: the description that comes back is the one that went in",
    cases=[_rt_case("int,default", "int", "int"), _rt_case("bool,default", "bool", "bool"), _rt_case("Optional[int],default", "Optional[int]", "int"),
           _rt_case("int,nodefault", "int"), _rt_case("Literal,default", "Literal['a', 'b']", ("lit", "a"))],
    ensures=[
        Clause("RT-name", "result[0] == 'opt'", note="the option's name"),
        Clause("RT-prose", "result[1]['doc'] == 'the option'", note="its prose"),
        Clause("RT-default", "('default' in result[1]) and result[1]['default'] == old_param[1]['default'] and typeis(result[1]['default'], 'int')", when=["int,default", "Optional[int],default"],
               note="C04: every explicit int default comes back with its value and type - zero and negatives included"),
        Clause("RT-default-bool", "('default' in result[1]) and result[1]['default'] == old_param[1]['default'] and typeis(result[1]['default'], 'bool')", when=["bool,default"]),
        Clause("RT-typ-int", "result[1]['typ'] == 'int'", when=["int,default", "int,nodefault"]),
        Clause("RT-typ-bool", "result[1]['typ'] == 'bool'", when=["bool,default"]),
        Clause("RT-typ-optional", "result[1]['typ'] == 'Optional[int]'", when=["Optional[int],default"], note="an optional option keeps its Optional[...] type"),
        Clause("RT-literal", "result[1]['typ'] == \"Literal['a', 'b']\" and result[1]['default'] == 'a'", when=["Literal,default"], note="choices come back as the Literal type"),
    ],
    canaries=["result[1]['default'] == 0"],
)
CONTRACTS.append(argparse_option_roundtrip)

# ------------------------------------------------------------------------------------------- law: one class attribute there and back (C02-L for scalars)
def _crt_case(name, typ, default="<absent>", assume=()):
    d = {"typ": ("lit", typ)}
    if default != "<absent>":
        d["default"] = default
    return Case(name, {"param": ("tuple", [("lit", "attr"), ("dict", d)])}, assume=list(assume))


_STR_OK = ["param[1]['default'] not in ('None', '```(None)```')", "not (len(param[1]['default']) > 6 and param[1]['default'][:3] == '```' and param[1]['default'][-3:] == '```')",
           "not (len(param[1]['default']) >= 2 and param[1]['default'][0] == param[1]['default'][-1] and param[1]['default'][0] in ('\"', \"'\"))"]

class_attribute_roundtrip = Contract(
    "vf.contracts.laws:class_attribute_roundtrip",
    properties=["C02", "C05"],
    note="C02 for ONE attribute, deductively: param2ast followed by parse.class_ (both real, inlined; get_docstring answers None, to_code is opaque - so the "
         "TYPE text is outside this law) on an attribute with a literal name and a symbolic default; str defaults that are a None spelling, code-quoted or "
         "themselves quoted are excluded (findings D-nonestring / the quote-stripping of set_value)",
    cases=[_crt_case("int,default", "int", "int"), _crt_case("bool,default", "bool", "bool"), _crt_case("str,default", "str", "str", assume=_STR_OK),
           _crt_case("int,nodefault", "int"), _crt_case("str,nodefault", "str")],
    use_contract_for=["doctrans.defaults_utils:needs_quoting"],
    ensures=[
        Clause("CRT-names", "list(result['params'].keys()) == ['attr']", note="the attribute comes back as the one parameter"),
        Clause("CRT-int", "result['params']['attr']['default'] == old_param[1]['default'] and typeis(result['params']['attr']['default'], 'int')", when=["int,default"],
               note="C02: every explicit int default comes back with its value and type - zero and negatives included"),
        Clause("CRT-bool", "result['params']['attr']['default'] == old_param[1]['default'] and typeis(result['params']['attr']['default'], 'bool')", when=["bool,default"]),
        Clause("CRT-str", "result['params']['attr']['default'] == old_param[1]['default']", when=["str,default"]),
        Clause("CRT-zero-int", "result['params']['attr']['default'] == 0", when=["int,nodefault"], note="N_class: no default -> the zero value of the type"),
        Clause("CRT-zero-str", "result['params']['attr']['default'] == ''", when=["str,nodefault"]),
        Clause("CRT-no-returns", "result['returns'] is None"),
    ],
    canaries=["result['params']['attr']['default'] == 0"],
)
class_attribute_roundtrip.opaque = {"get_docstring": {"ret": "none"}, "to_code": {"ret": "str"}}
CONTRACTS.append(class_attribute_roundtrip)

# ------------------------------------------------------------------------------------------- law: replace at a dotted location (C15-L / C11-L)
_REPL_ANN = ("node", "ast.AnnAssign", {"target": ("node", "ast.Name", {"id": ("lit", "x"), "ctx": ("node", "ast.Store", {})}), "annotation": None,
                                       "value": ("node", "ast.Constant", {"value": "int", "kind": None}), "simple": 1})
_REPL_CLS = _u_cls("A", [_u_ann("fresh")])
_RAL_MODULES = {
    # name -> (module, search, replacement, path of the addressed node | None, paths of nodes that must stay structurally the same)
    "class-attr": (_u_mod([_u_assign("x"), _u_cls("A", [_u_ann("x"), _u_ann("y")]), _u_cls("B", [_u_ann("x")]), _u_assign("T")]), ["A", "x"], _REPL_ANN,
                   "result[0].body[1].body[0]", ["result[0].body[0]", "result[0].body[1].body[1]", "result[0].body[2]", "result[0].body[3]"],
                   ["module.body[0]", "module.body[1].body[1]", "module.body[2]", "module.body[3]"]),
    "class": (_u_mod([_u_doc("A"), _u_cls("E", [_u_doc("A")]), _u_cls("A", [_u_ann("x")]), _u_fn("g", ["q"])]), ["A"], _REPL_CLS,
              "result[0].body[2]", ["result[0].body[0]", "result[0].body[1]", "result[0].body[3]"], ["module.body[0]", "module.body[1]", "module.body[3]"]),
    "absent": (_u_mod([_u_cls("A", [_u_ann("x")]), _u_assign("T")]), ["A", "nope"], _REPL_ANN, None, ["result[0].body[0]", "result[0].body[1]"], ["module.body[0]", "module.body[1]"]),
}


def _ral_clauses():
    out = []
    for k, (_, _, _, target, keep_now, keep_old) in _RAL_MODULES.items():
        if target:
            out.append(Clause("RAL-replaced[%s]" % k, "result[1] == True and %s is replacement" % target, when=[k],
                              note="C15: the addressed node - and it alone - is the replacement"))
        else:
            out.append(Clause("RAL-absent[%s]" % k, "result[1] == False", when=[k], note="C15: an absent location replaces nothing and says so"))
        for i, (now, old) in enumerate(zip(keep_now, keep_old)):
            out.append(Clause("RAL-others[%s]-%d" % (k, i), "%s is %s" % (now, old.replace("module.", "old_module.")), when=[k],
                              note="C11: every other statement is the very same node as before (same position, same object)"))
    out.append(Clause("RAL-same-module", "result[0] is module", note="the module node itself is kept"))
    return out


replace_at_location = Contract(
    "vf.contracts.laws:replace_at_location",
    properties=["C15", "C11", "C14", "C09"],
    note="C15 / C11, deductively: annotate_ancestry then RewriteAtQuery(...).visit (both real, inlined, with NodeTransformer's traversal modelled as in ast.py) on "
         "three module shapes: an attribute whose simple name also occurs in another class and as a module-level assignment before it, a class that is preceded by string constants equal to its name "
         "(a docstring-like statement and a sibling's docstring) and followed by a def, and an absent path",
    cases=[Case(k, {"module": m, "search": ("list", [("lit", x) for x in srch]), "replacement": repl}) for k, (m, srch, repl, _, _, _) in _RAL_MODULES.items()],
    ensures=_ral_clauses(),
    canaries=["result[1] == True"],
)
CONTRACTS.append(replace_at_location)

# ------------------------------------------------------------------------------------------- law: one property synchronised (C14-L)
sync_one_property = Contract(
    "vf.contracts.laws:sync_one_property",
    properties=["C14"],
    note="C14, deductively: sync_property (with the real find_in_ast, annotate_ancestry and RewriteAtQuery inlined) copies Cfg.x of an input module over Out.y of an "
         "output module that also holds another attribute, another class with an attribute called y, and a constant",
    cases=[Case("attr-to-attr", {"input_module": _u_mod([_u_cls("Cfg", [_u_ann("w"), _u_ann("x")])]),
                                 "output_module": _u_mod([_u_cls("Other", [_u_ann("y")]), _u_cls("Out", [_u_ann("z"), _u_ann("y")]), _u_assign("T")]), "output_param": ("lit", "Out.y")}),
           Case("attr-to-arg", {"input_module": _u_mod([_u_cls("Cfg", [_u_ann("w"), _u_ann("x")])]),
                                "output_module": _u_mod([_u_cls("Other", [_u_ann("y")]), _u_fn("Out", ["z", "y"], ["k"]), _u_assign("T")]), "output_param": ("lit", "Out.y")}),
           Case("attr-to-kwonly", {"input_module": _u_mod([_u_cls("Cfg", [_u_ann("w"), _u_ann("x")])]),
                                   "output_module": _u_mod([_u_fn("Out", ["z", "y"], ["k", "m"]), _u_assign("T")]), "output_param": ("lit", "Out.m")})],
    ensures=[
        Clause("SOP-arg", "[a.arg for a in result.body[1].args.args] == ['z', 'x'] and [a.arg for a in result.body[1].args.kwonlyargs] == ['k'] "
                          "and result.body[0] is old_output_module.body[0] and result.body[2] is old_output_module.body[2] and result.body[1].args.args[0] is old_output_module.body[1].args.args[0]",
               when=["attr-to-arg"], note="C14: an argument target: exactly the addressed argument is replaced (by the input's name), its neighbours and the rest of the module stay"),
        Clause("SOP-kwonly", "[a.arg for a in result.body[0].args.kwonlyargs] == ['k', 'x'] and [a.arg for a in result.body[0].args.args] == ['z', 'y'] "
                             "and result.body[0].args.kwonlyargs[0] is old_output_module.body[0].args.kwonlyargs[0]", when=["attr-to-kwonly"],
               note="C14: a keyword-only argument target: that argument - not the positional one at the same index - is replaced"),
        Clause("SOP-addressed", "unchanged(result.body[1].body[1], input_module.body[0].body[1]) and (result.body[1].body[1] is input_module.body[0].body[1]) == False", when=["attr-to-attr"],
               note="C14: the addressed output node is replaced by (a copy of) the addressed input node"),
        Clause("SOP-others", "result.body[0] is old_output_module.body[0] and result.body[1].body[0] is old_output_module.body[1].body[0] and result.body[2] is old_output_module.body[2] "
                             "and len(result.body) == 3 and len(result.body[1].body) == 2",
               when=["attr-to-attr"], note="C14: every other node of the output - the same-named attribute of the other class included - is the very same node, in place"),
        Clause("SOP-input-frame", "input_module.body[0].body[0] is old_input_module.body[0].body[0] and len(input_module.body[0].body) == 2", note="the input module keeps its statements"),
        Clause("SOP-same-module", "result is output_module"),
    ],
    canaries=["result is input_module"],
)
CONTRACTS.append(sync_one_property)
