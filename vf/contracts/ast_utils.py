"""Sidecar contracts for doctrans/ast_utils.py and doctrans/emitter_utils.py leaf functions."""
from vf.pyvc.verify import Case, Clause, Contract


def _fd(names):
    """symbolic FunctionDef whose positional arguments have symbolic names"""
    return ("node", "ast.FunctionDef", {
        "name": "str",
        "args": ("node", "ast.arguments", {"args": ("list", [("node", "ast.arg", {"arg": "str", "annotation": None}) for _ in names])}),
    })


get_function_type = Contract(
    "doctrans.ast_utils:get_function_type",
    properties=["C03", "C09"],
    note="argument lists of length 0..3 (the code inspects only element 0)",
    cases=[Case("args=%d" % n, {"function_def": _fd(range(n))}) for n in range(4)],
    ensures=[
        Clause("GFT0", "result == 'static'", when=["args=0"]),
        Clause("GFT1", "result == (function_def.args.args[0].arg if function_def.args.args[0].arg in ('self', 'cls') else 'static')",
               when=["args=1", "args=2", "args=3"], note="'self' / 'cls' iff the first positional argument has that name"),
    ],
    canaries=["result == 'static'"],
)

set_value = Contract(
    "doctrans.ast_utils:set_value",
    properties=["C02", "C06", "C08"],
    cases=[Case("str", {"value": "str", "kind": None}), Case("int", {"value": "int", "kind": None}),
           Case("None", {"value": None, "kind": None}), Case("bool", {"value": "bool", "kind": None})],
    ensures=[
        Clause("SV1", "typeis(result, 'Constant')", note="a Constant node"),
        Clause("SV2", "result.value == (value[1:-1] if len(value) > 2 and value[0] == value[-1] and value[0] in ('\"', \"'\") else value)",
               when=["str"], note="strips exactly one pair of matching quotes from strings longer than 2, otherwise identity"),
        Clause("SV3", "result.value == value", when=["int", "bool"]),
        Clause("SV4", "result.value is None", when=["None"]),
    ],
    canaries=["result.value == value"],
)

_STMT = ("node", "ast.Pass", {})
_M = "(intermediate_repr['_internal']['from_name'] == target_name and intermediate_repr['_internal']['from_type'] == target_type)"

get_internal_body = Contract(
    "doctrans.emitter_utils:get_internal_body",
    properties=["C16"],
    note="carried bodies of length 0..2 (only truthiness of the list matters)",
    cases=[Case("no-internal", {"target_name": "str", "target_type": "str", "intermediate_repr": ("dict", {"name": "str"})})]
    + [Case("body=%d" % n, {"target_name": "str", "target_type": "str",
                            "intermediate_repr": ("dict", {"_internal": ("dict", {"body": ("list", [_STMT] * n), "from_name": "str", "from_type": "str"})})})
       for n in range(3)],
    ensures=[
        Clause("GIB0", "result == ()", when=["no-internal", "body=0"]),
        Clause("GIB1", "(%s and result is intermediate_repr['_internal']['body']) or ((not %s) and result == ())" % (_M, _M),
               when=["body=1", "body=2"], note="the carried body iff name and type match the target, else an empty tuple"),
        Clause("GIB-frame", "unchanged(intermediate_repr, old_intermediate_repr)", note="frame: the IR is not modified"),
    ],
    canaries=["result == ()"],
)

_SELF = lambda ids: ("node", "doctrans.emitter_utils.RewriteName", {"node_ids": ids})  # noqa: E731
_NAME = ("node", "ast.Name", {"id": "str", "ctx": ("node", "ast.Load", {})})

rewrite_name = Contract(
    "doctrans.emitter_utils:RewriteName.visit_Name",
    properties=["C16"],
    note="node_ids: a tuple of 1..3 symbolic names (membership is all that matters)",
    cases=[Case("ids=%d" % n, {"self": _SELF(("tuple", ["str"] * n)), "node": _NAME}) for n in (1, 2, 3)],
    ensures=[
        Clause("RN1", "not (node.id in self.node_ids) or (typeis(result, 'Attribute') and result.attr == node.id "
                      "and typeis(result.value, 'Name') and result.value.id == 'self')",
               note="a reference to a parameter becomes self.<name>"),
        Clause("RN2", "(node.id in self.node_ids) or result is node", note="no other name is touched"),
    ],
    canaries=["result is node"],
)

CONTRACTS = [get_function_type, set_value, get_internal_body, rewrite_name]
