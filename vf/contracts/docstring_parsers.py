"""Sidecar contracts for doctrans/docstring_parsers.py."""
from vf.pyvc.verify import Case, Clause, Contract

_REST = "any(t in docstring for t in TOKENS.rest)"
_GOOGLE = "any(t in docstring for t in TOKENS.google)"

parse_docstring_style = Contract(
    "doctrans.docstring_parsers:parse_docstring",
    properties=["C01"],
    note="cut point after the style decision (the scan / parse phases are outside the verified subset and are covered by the "
         "bounded round-trip contract); the rule is stated relative to the module's own token constants, whose hygiene is D2",
    cases=[Case("str", {"docstring": "str"}), Case("None", {"docstring": None})],
    ghosts={"if docstring is None or any(map(partial(contains, docstring), TOKENS.rest)):": [("gstyle", "style")]},
    ensures=[
        Clause("D1-rest", "(gstyle is Style.rest) == %s" % _REST, when=["str"], note="ReST wins whenever one of its tokens occurs"),
        Clause("D1-google", "(gstyle is Style.google) == ((not %s) and %s)" % (_REST, _GOOGLE), when=["str"]),
        Clause("D1-numpydoc", "(gstyle is Style.numpydoc) == ((not %s) and (not %s))" % (_REST, _GOOGLE), when=["str"]),
        Clause("D1-none", "gstyle is Style.rest", when=["None"]),
    ],
    raises={"AssertionError": "False"},
    canaries=["gstyle is Style.rest"],
)
parse_docstring_style.stop_after = "if docstring is None or any(map(partial(contains, docstring), TOKENS.rest)):"

CONTRACTS = [parse_docstring_style]

# ------------------------------------------------------------------------------------------- _infer_default (C02.D3)
NONESTR = "```(None)```"


def _idf_case(name, typ, default, infer, assume=()):
    d = {"default": default}
    if typ != "<absent>":
        d["typ"] = typ
    return Case(name, {"_param": ("dict", d), "infer_type": infer}, assume=list(assume))


_D = "old__param['default']"
_UNQ = "(D[1:-1] if len(D) >= 2 and D[0] == D[-1] and D[0] in ('\"', \"'\") else D)".replace("D", _D)
_NOT_CQ = "not (len(%s) > 6 and %s[:3] == '```' and %s[-3:] == '```')" % (_D, _D, _D)

infer_default = Contract(
    "doctrans.docstring_parsers:_infer_default",
    properties=["C02", "C01", "C03"],
    note="defaults that are plain Python values (int / bool / str / None / the None spelling); AST-valued defaults are outside this contract; "
         "needs_quoting by contract",
    cases=[
        _idf_case("int,typed", ("lit", "int"), "int", False),
        _idf_case("int,untyped", "<absent>", "int", False),
        _idf_case("int,typ-None,infer", ("lit", None), "int", True),
        _idf_case("bool,untyped", "<absent>", "bool", False),
        _idf_case("str,typed-str", ("lit", "str"), "str", False, assume=["_param['default'] not in ('None', %r)" % NONESTR, _NOT_CQ.replace("old__param", "_param")]),
        _idf_case("str,untyped", "<absent>", "str", False, assume=["_param['default'] not in ('None', %r)" % NONESTR, _NOT_CQ.replace("old__param", "_param")]),
        _idf_case("None,typed", ("lit", "Optional[str]"), ("lit", None), False),
        _idf_case("NoneStr,untyped", "<absent>", ("lit", NONESTR), False),
    ],
    use_contract_for=["doctrans.defaults_utils:needs_quoting"],
    ensures=[
        Clause("IDF-int", "_param['default'] == %s and typeis(_param['default'], 'int')" % _D, when=["int,typed", "int,untyped", "int,typ-None,infer"],
               note="C02.D3: the value and Python type of an explicit int default are preserved"),
        Clause("IDF-bool", "_param['default'] == %s and typeis(_param['default'], 'bool')" % _D, when=["bool,untyped"]),
        Clause("IDF-typ-kept", "_param['typ'] == 'int'", when=["int,typed"], note="a given type is not replaced by an inferred one"),
        Clause("IDF-typ-inferred", "_param['typ'] == 'int'", when=["int,untyped", "int,typ-None,infer"], note="a missing type is the default's type name"),
        Clause("IDF-typ-bool", "_param['typ'] == 'bool'", when=["bool,untyped"]),
        Clause("IDF-str", "_param['default'] == %s" % _UNQ, when=["str,typed-str", "str,untyped"], note="a string default is unquoted exactly once"),
        Clause("IDF-str-typ", "(len(_param['default']) > 6 and _param['default'][:3] == '```' and _param['default'][-3:] == '```') "
                              "or ('typ' in _param and _param['typ'] == 'str')", when=["str,typed-str", "str,untyped"],
               note="the type is str (it is dropped only when unquoting reveals a code-quoted expression)"),
        Clause("IDF-none", "_param['default'] == %r" % NONESTR, when=["None,typed", "NoneStr,untyped"], note="None and its spellings become the None spelling"),
        Clause("IDF-none-typ", "_param['typ'] == 'Optional[str]'", when=["None,typed"]),
        Clause("IDF-none-untyped", "('typ' in _param) == False", when=["NoneStr,untyped"], note="no type is invented for a None default"),
        Clause("IDF-returns-none", "result is None"),
    ],
    canaries=["_param['default'] == 0"],
)

CONTRACTS.append(infer_default)

# ------------------------------------------------------------------------------------------- _set_name_and_type (C01/C02/C03 type faithfulness)
def _snt_case(name, typ="<absent>", doc="<absent>", default="<absent>", ww=False, infer=False, assume=(), pname="str"):
    d = {}
    if typ != "<absent>":
        d["typ"] = typ
    if doc != "<absent>":
        d["doc"] = doc
    if default != "<absent>":
        d["default"] = default
    return Case(name, {"param": ("tuple", [pname, ("dict", d)]), "infer_type": infer, "word_wrap": ww},
                assume=(["not param[0].endswith('kwargs')", "not param[0].startswith('**')"] if pname == "str" else []) + list(assume))


_T = "old_param[1]['typ']"
_DOC = "old_param[1]['doc']"
_GOPT = "(T[-10:] == ', optional' and len(T) >= 10)".replace("T", _T)
_T1 = "(('Optional[' + T[:-10] + ']') if G else T)".replace("T", _T).replace("G", _GOPT)
_DOCR = "%s.rstrip()" % _DOC
_ANN = "(R[:10] == '(Optional)' or R[:8] == 'Optional')".replace("R", _DOCR)

set_name_and_type = Contract(
    "doctrans.docstring_parsers:_set_name_and_type",
    properties=["C01", "C02", "C03"],
    note="ordinary parameter names (the **kwargs branch is a separate case); word_wrap=False (the re-joining of wrapped prose splits on newlines, "
         "outside the verified subset; bounded companion); the default branch goes through _infer_default by contract-free inlining only in the "
         "no-default cases below",
    cases=[
        _snt_case("typ,doc", "str", "str", assume=["param[1]['doc'] != ''"]),
        _snt_case("typ,emptydoc", "str", ("lit", "")),
        _snt_case("typ,nodoc", "str"),
        _snt_case("notyp,doc", doc="str", assume=["param[1]['doc'] != ''"]),
        _snt_case("kwargs", ("lit", "dict"), "str", pname=("lit", "**kwargs"), assume=["param[1]['doc'] != ''"]),
        _snt_case("kwargs,untyped", doc="str", pname=("lit", "kwargs"), assume=["param[1]['doc'] != ''"]),
    ],
    ensures=[
        Clause("SNT-name", "result[0] == old_param[0]", when=["typ,doc", "typ,emptydoc", "typ,nodoc", "notyp,doc"],
               note="the name of an ordinary parameter is kept"),
        Clause("SNT-same-dict", "result[1] is old_param[1]", note="the entry is updated in place and handed back"),
        Clause("SNT-doc", "result[1]['doc'] == %s" % _DOCR, when=["typ,doc", "notyp,doc"], note="prose loses trailing whitespace only"),
        Clause("SNT-doc-dropped", "('doc' in result[1]) == False", when=["typ,emptydoc", "typ,nodoc"], note="no empty prose entry is left"),
        Clause("SNT-typ", "result[1]['typ'] == (('Optional[' + %s + ']') if (%s and %s[:9] != 'Optional[') else %s)" % (_T1, _ANN, _T1, _T1), when=["typ,doc"],
               note="C0x type faithfulness: the declared type is changed only by the two documented rules - a trailing ', optional' (Google) and prose "
                    "that opens with 'Optional' / '(Optional)' - and never otherwise"),
        Clause("SNT-typ-nodoc", "result[1]['typ'] == %s" % _T1, when=["typ,emptydoc", "typ,nodoc"]),
        Clause("SNT-notyp", "('typ' in result[1]) == False", when=["notyp,doc"], note="no type is invented from prose"),
        Clause("SNT-kwargs", "result[0] == 'kwargs' and result[1]['typ'] == 'Optional[dict]' and result[1]['default'] == %r" % NONESTR,
               when=["kwargs", "kwargs,untyped"], note="the catch-all keyword parameter: stars stripped, Optional[dict], None default"),
        Clause("SNT-no-default", "('default' in result[1]) == False", when=["typ,doc", "typ,emptydoc", "typ,nodoc", "notyp,doc"],
               note="no default is invented for an ordinary parameter"),
    ],
    canaries=["result[0] == ''", "result[1]['typ'] == 'int'"],
)
CONTRACTS.append(set_name_and_type)


# ------------------------------------------------------------------------------------------- _set_param_values (ReST :type / :param lines)
set_param_values = Contract(
    "doctrans.docstring_parsers:_set_param_values",
    properties=["C01", "C03"],
    cases=[Case("type-line", {"input_str": "str", "val": "str"}, assume=["input_str.startswith(':type')"]),
           Case("other-line", {"input_str": "str", "val": "str"}, assume=["not input_str.startswith(':type')"])],
    ensures=[
        Clause("SPV-doc", "result == ('doc', val)", when=["other-line"], note="prose is taken as it stands"),
        Clause("SPV-typ-key", "result[0] == 'typ'", when=["type-line"]),
        Clause("SPV-typ-nobackticks", "('```' in result[1]) == False", when=["type-line"], note="the back-tick wrapper of a type is representation, not content"),
        Clause("SPV-typ-plain", "('```' in val) or val.startswith('**') or result[1] == val", when=["type-line"], note="a type written without back-ticks is taken verbatim"),
        Clause("SPV-typ-kwargs", "not val.startswith('**') or ('```' in val) or result[1] == 'dict'", when=["type-line"]),
    ],
    canaries=["result[0] == 'doc'", "result[1] == val"],
)
CONTRACTS.append(set_param_values)

# ------------------------------------------------------------------------------------------- _parse_phase_rest (C01 / C03: the ReST parser half)
def _line(*parts):
    return ("strcat", list(parts))


def _ppr_case(name, lines, returns_none=True, ret_tokens=(":return", ":rtype")):
    return Case(name, {"intermediate_repr": ("dict", {"name": None, "doc": ("lit", ""), "params": ("dict", {}), "returns": None}),
                       "scanned": ("list", [("tuple", [tok, ln]) for tok, ln in lines]), "default_search_announce": None, "infer_type": False,
                       "word_wrap": False, "emit_default_prop": True, "emit_default_doc": True, "return_tokens": ("lit", tuple(ret_tokens))},
                assume=[])


_NO_DEFAULT_TEXT = "all(nowhere_cf_in(t, %s) for t in ('defaults to ', 'defaults to\\n', 'Default value is ', 'Default:'))"
_PPR_CASES = [
    _ppr_case("summary+type", [(False, _line("str")), (True, _line(":type x: ```", "str", "```"))]),
    _ppr_case("type-only", [(True, _line(":type x: ", "str"))]),
    _ppr_case("summary-only", [(False, _line("str"))]),
    _ppr_case("param-only", [(True, _line(":param x: ", "str"))]),
]
_PPR_CASES[-1].tier = "thorough"  # ~500 paths (two passes through interpolate_defaults x _set_name_and_type): two minutes

parse_phase_rest = Contract(
    "doctrans.docstring_parsers:_parse_phase_rest",
    properties=["C01", "C03"],
    note="scanned token lists of three shapes whose lines have a literal skeleton (':param x: <prose>', ':type x: <type>') and symbolic prose / type text; "
         "no word wrap, default text kept; interpolate_defaults / _set_name_and_type / _set_param_values / update_d are inlined, extract_default and needs_quoting "
         "by contract.  (The scanner that produces the token list iterates over characters with a list-valued stack: outside the verified subset, bounded rt.)",
    cases=_PPR_CASES,
    use_contract_for=["doctrans.defaults_utils:extract_default", "doctrans.defaults_utils:needs_quoting"],
    ghosts={"val = line[nxt_colon + 1:].strip()": [("g_val", "val")]},
    ensures=[
        Clause("PPR-names-1", "list(intermediate_repr['params'].keys()) == ['x']", when=["summary+type", "type-only", "param-only"],
               note="C01: one parameter per :param / :type line, named as written"),
        Clause("PPR-no-params", "list(intermediate_repr['params'].keys()) == []", when=["summary-only"]),
        Clause("PPR-summary", "intermediate_repr['doc'] == scanned[0][1].strip()", when=["summary+type", "summary-only"], note="the text before the first token is the summary"),
        Clause("PPR-typ-backticks", "('```' in intermediate_repr['params']['x']['typ']) == False", when=["summary+type"],
               note="the back-tick wrapper of a type is removed"),
        Clause("PPR-typ-plain", "('```' in g_val) or intermediate_repr['params']['x']['typ'][:9] == 'Optional[' or g_val[:2] == '**' "
                                "or intermediate_repr['params']['x']['typ'] == g_val", when=["type-only"],
               note="a type written without back-ticks is the stripped text after ':type x:' (unless it ends in ', optional' -> Optional[...], or names **kwargs)"),
        Clause("PPR-val", "g_val == scanned[0][1][8:].strip()", when=["type-only"], note="the value of a line is the stripped text after the second colon"),
        Clause("PPR-prose", "('doc' in intermediate_repr['params']['x']) == False or intermediate_repr['params']['x']['doc'] == g_val", when=["param-only"],
               note="C01: the prose is the stripped text after ':param x:' (default text kept)"),
        Clause("PPR-returns-none", "intermediate_repr['returns'] is None", note="no return entry is invented"),
    ],
    canaries=["intermediate_repr['doc'] == ''"],
)
CONTRACTS.append(parse_phase_rest)

# ------------------------------------------------------------------------------------------- _parse_phase_numpydoc_and_google, numpydoc half (C01: the numpydoc parser)
def _npd_case(name, params, returns=(), assume=()):
    from doctrans.docstring_parsers import Style

    return Case(name, {"intermediate_repr": ("dict", {"name": None, "type": ("lit", "static"), "doc": ("lit", ""), "params": ("dict", {}), "returns": None}),
                       "scanned": ("dict", {"doc": "str", "Parameters\n----------": ("list", [("list", list(p)) for p in params] + [("list", [("lit", "")])]),
                                            "Returns\n-------": ("list", [("list", list(r)) for r in returns])}),
                       "default_search_announce": None, "infer_type": False, "word_wrap": False, "style": ("lit", Style.numpydoc),
                       "arg_tokens": ("lit", ("Parameters\n----------",)), "return_tokens": ("lit", ("Returns\n-------",)), "emit_default_prop": True, "emit_default_doc": True},
                assume=list(assume))


_WSCH = "(' ', '\\t', '\\n', '\\r', '\\x0b', '\\x0c', '\\x1c', '\\x1d', '\\x1e', '\\x1f', '\\x85', '\\xa0')"
_NPD_P = "old_scanned['Parameters\\n----------']"
_NPD_X = "intermediate_repr['params']['x']"
_NPD_R = "old_scanned['Returns\\n-------']"
_NPD_RT = "intermediate_repr['returns']['return_type']"
_NPD_T, _NPD_D = "scanned['Parameters\\n----------'][0][0][4:]", "scanned['Parameters\\n----------'][0][1][4:]"
_NPD_L0, _NPD_L1 = "scanned['Parameters\\n----------'][0][0]", "scanned['Parameters\\n----------'][0][1]"
_TIGHT = ["len(%s) > 4" % _NPD_L0, "len(%s) > 4" % _NPD_L1] + ["(%s in %s) == False" % (e, _WSCH) for e in (
    _NPD_L0 + "[4]", _NPD_L0 + "[len(%s) - 1]" % _NPD_L0, _NPD_L1 + "[4]", _NPD_L1 + "[len(%s) - 1]" % _NPD_L1)]
parse_phase_numpydoc = Contract(
    "doctrans.docstring_parsers:_parse_phase_numpydoc_and_google",
    properties=["C01"],
    note="numpydoc style: scanned sections whose lines have a literal skeleton ('x : <type>', '    <prose>'; for the return entry '<type>', '    <prose>') and symbolic type / "
         "prose text, as the scanner hands them over (with its closing [''] block); interpolate_defaults / _set_name_and_type are inlined, extract_default and needs_quoting by "
         "contract; the nested helper keeps its flag in an attribute of the function object (modelled per path).  The Google half walks the characters of a line "
         "(`next(idx for idx, ch in enumerate(line) if ch == ':')`): outside the verified subset, bounded rt",
    cases=[_npd_case("one-param", [[_line("x : ", "str"), _line("    ", "str")]]),
           _npd_case("one-param,tight", [[_line("x : ", "str"), _line("    ", "str")]], assume=_TIGHT),
           _npd_case("return-only", [], [[_line("str"), _line("    ", "str")]])],
    use_contract_for=["doctrans.defaults_utils:extract_default", "doctrans.defaults_utils:needs_quoting"],
    ensures=[
        Clause("NPD-names", "list(intermediate_repr['params'].keys()) == ['x']", when=["one-param", "one-param,tight"], note="C01: one parameter per 'name : type' block, named as written"),
        Clause("NPD-no-params", "list(intermediate_repr['params'].keys()) == []", when=["return-only"], note="no parameter is invented"),
        Clause("NPD-summary", "intermediate_repr['doc'] == old_scanned['doc']", note="the summary is the scanner's"),
        Clause("NPD-typ", "('typ' in %s) == False or ('```' in %s[0][0]) or %s[0][0].endswith(', optional') or %s['typ'] == 'Optional[' + %s[0][0][4:] + ']' or %s['typ'] == %s[0][0][4:]"
                          % (_NPD_X, _NPD_P, _NPD_P, _NPD_X, _NPD_P, _NPD_X, _NPD_P),
               when=["one-param,tight"], note="C01: a type written without outer blanks comes back verbatim (prose that opens with 'Optional' wraps it in Optional[...]; "
                                              "a trailing ', optional' is the numpydoc spelling of the same)"),
        Clause("NPD-typ-kept", "'typ' in %s or ('default' in %s and typeis(%s['default'], 'str'))" % (_NPD_X, _NPD_X, _NPD_X), when=["one-param,tight"],
               note="a type that was written is not dropped - except by _infer_default when the prose announces a code-quoted default (finding C-typdrop)"),
        Clause("NPD-prose", "'doc' in %s and %s['doc'] == %s[0][1][4:]" % (_NPD_X, _NPD_X, _NPD_P), when=["one-param,tight"],
               note="C01: prose without outer blanks is returned verbatim (default text kept)"),
        Clause("NPD-prose-part", "('doc' in %s) == False or (%s['doc'] in %s[0][1])" % (_NPD_X, _NPD_X, _NPD_P), when=["one-param"],
               note="in every case the prose is a part of the line: nothing is added to it"),
        Clause("NPD-returns-none", "intermediate_repr['returns'] is None", when=["one-param", "one-param,tight"], note="no return entry is invented"),
        Clause("NPD-return", "list(intermediate_repr['returns'].keys()) == ['return_type']", when=["return-only"], note="the Returns section becomes the one return entry"),
        Clause("NPD-return-typ", "('typ' in %s) == False or %s[0][0].endswith(', optional') or %s['typ'] == 'Optional[' + %s[0][0] + ']' or %s['typ'] == %s[0][0]"
                                 % (_NPD_RT, _NPD_R, _NPD_RT, _NPD_R, _NPD_RT, _NPD_R), when=["return-only"], note="C01: the return type is the first line of the section, verbatim"),
        Clause("NPD-return-typ-kept", "'typ' in %s or ('default' in %s and typeis(%s['default'], 'str'))" % (_NPD_RT, _NPD_RT, _NPD_RT), when=["return-only"]),
        Clause("NPD-return-prose-part", "('doc' in %s) == False or (%s['doc'] in %s[0][1])" % (_NPD_RT, _NPD_RT, _NPD_R), when=["return-only"],
               note="the return prose is a part of the section's second line"),
    ],
    canaries=["intermediate_repr['doc'] == ''"],
)
CONTRACTS.append(parse_phase_numpydoc)

# ------------------------------------------------------------------------------------------- _parse_phase_numpydoc_and_google, Google half
def _ggl_case(name, params, returns=(), assume=()):
    from doctrans.docstring_parsers import Style

    return Case(name, {"intermediate_repr": ("dict", {"name": None, "type": ("lit", "static"), "doc": ("lit", ""), "params": ("dict", {}), "returns": None}),
                       "scanned": ("dict", {"doc": "str", "Args:": ("list", [("list", [p]) for p in params]), "Returns:": ("list", list(returns))}),
                       "default_search_announce": None, "infer_type": False, "word_wrap": False, "style": ("lit", Style.google),
                       "arg_tokens": ("lit", ("Args:",)), "return_tokens": ("lit", ("Returns:",)), "emit_default_prop": True, "emit_default_doc": True},
                assume=list(assume))


_GG_L = "scanned['Args:'][0][0]"
_GG_OL = "old_scanned['Args:'][0][0]"
_GG_X = "intermediate_repr['params']['x']"
parse_phase_numpydoc.cases.append(_ggl_case("google,one-param", [_line("  x (", "str", "): ", "str")], ))
parse_phase_numpydoc.cases.append(_ggl_case("google,second-without-prose", [_line("  x (int): ", "str"), _line("  y (", "str", "): ")]))
parse_phase_numpydoc.cases[-1].tier = "thorough"  # ~280 return paths, 80 s: part of the thorough tier only (the bounded round trip decides the same change in the quick tier)
parse_phase_numpydoc.ensures += [
    Clause("GGL-both", "list(intermediate_repr['params'].keys()) == ['x', 'y']", when=["google,second-without-prose"],
           note="C01 (Google): a typed parameter without prose ('  y (T): ') is a parameter like any other - it neither ends the list nor swallows the ones after it (seed C01-5)"),
    Clause("GGL-summary-2", "intermediate_repr['doc'] == old_scanned['doc']", when=["google,second-without-prose"], note="and its line is not appended to the summary"),
    Clause("GGL-names", "list(intermediate_repr['params'].keys()) == ['x']", when=["google,one-param"], note="C01 (Google): one parameter per 'name (type): prose' line, named as written"),
    Clause("GGL-summary", "intermediate_repr['doc'] == old_scanned['doc']", when=["google,one-param"]),
    Clause("GGL-returns-none", "intermediate_repr['returns'] is None", when=["google,one-param"]),
    Clause("GGL-typ", "('typ' in %s) == False or %s['typ'][:9] == 'Optional[' or %s['typ'][:6] == 'Union[' or %s['typ'][:8] == 'Literal[' or %s.startswith('  x (' + %s['typ'] + '): ')"
                      % (_GG_X, _GG_X, _GG_X, _GG_X, _GG_OL, _GG_X), when=["google,one-param"],
           note="C01 (Google): the type is the text between the parentheses, verbatim (unless it is rewritten to Optional[...] / Union[...] / Literal[...] by the documented conventions)"),
    Clause("GGL-typ-kept", "'typ' in %s or ('default' in %s and typeis(%s['default'], 'str'))" % (_GG_X, _GG_X, _GG_X), when=["google,one-param"],
           note="a written type is dropped only by the C-typdrop finding"),
    Clause("GGL-prose-part", "('doc' in %s) == False or (%s['doc'] in %s)" % (_GG_X, _GG_X, _GG_OL), when=["google,one-param"], note="the prose is a part of the line: nothing is added to it"),
]
parse_phase_numpydoc.note += (".  Google cases: 'Args:' lines with the literal skeleton '  x (<type>): <prose>'; the line is walked character by character for its first colon - "
                              "decided on the literal skeleton for a type text without a colon (structstr.py)")
