"""Sidecar contracts for doctrans/docstring_parsers.py."""
from vf.pyvc.verify import Case, Clause, Contract

_REST = "any(t in docstring for t in TOKENS.rest)"
_GOOGLE = "any(t in docstring for t in TOKENS.google)"

parse_docstring_style = Contract(
    "doctrans.docstring_parsers:parse_docstring",
    properties=["C01"],
    note="cut point after the style decision (the scan / parse phases are outside the verified subset and are covered by the "
         "bounded round-trip contract); the rule is stated relative to the module's own token constants, whose hygiene is D2",
    cases=[Case("str", {"docstring": "str"}), Case("None", {"docstring": None})],
    ghosts={"if docstring is None or any(map(partial(contains, docstring), TOKENS.rest)):": [("gstyle", "style")]},
    ensures=[
        Clause("D1-rest", "(gstyle is Style.rest) == %s" % _REST, when=["str"], note="ReST wins whenever one of its tokens occurs"),
        Clause("D1-google", "(gstyle is Style.google) == ((not %s) and %s)" % (_REST, _GOOGLE), when=["str"]),
        Clause("D1-numpydoc", "(gstyle is Style.numpydoc) == ((not %s) and (not %s))" % (_REST, _GOOGLE), when=["str"]),
        Clause("D1-none", "gstyle is Style.rest", when=["None"]),
    ],
    raises={"AssertionError": "False"},
    canaries=["gstyle is Style.rest"],
)
parse_docstring_style.stop_after = "if docstring is None or any(map(partial(contains, docstring), TOKENS.rest)):"

CONTRACTS = [parse_docstring_style]
