"""Sidecar contracts for doctrans/conformance.py and doctrans/emit.py:file — effect-log contracts (DESIGN 2.2, Appendix C)."""
import ast

from vf.pyvc.verify import Case, Clause, Contract

_OPAQUE = {
    "path.realpath": {"ret": "str"}, "path.expanduser": {"ret": "str"}, "path.isfile": {"ret": "bool"},
    "emit.file": {"ret": "none", "effect": True}, "open": {"ret": ("obj", None), "effect": False},
    "ast_parse": {"ret": ("obj", "ast.Module")}, "find_in_ast": {"ret": "obj"}, "emit_func": {"ret": ("obj", "ast.FunctionDef")},
    "_default_options": {"ret": "kwargs-thunk"}, "cmp_ast": {"ret": "bool"}, "RewriteAtQuery": {"ret": "obj"}, "print": {"ret": "none"},
}
_FILE_OF = lambda k: "(log_emit_file_kwargs[%d]['filename'] if 'filename' in log_emit_file_kwargs[%d] else log_emit_file_args[%d][1])" % (k, k, k)  # noqa: E731
_MODE_OF = lambda k: "log_emit_file_kwargs[%d]['mode']" % k  # noqa: E731

conform_filename = Contract(
    "doctrans.conformance:_conform_filename",
    properties=["C09", "C10", "C20"],
    note="library and repo calls are opaque (logged); the contract is over the effect log: which emit.file calls happen, on which file, in which "
         "mode, and what flag is returned. Search paths of length 1 and 2; FunctionDef and ClassDef targets",
    cases=[
        Case("search=1,FunctionDef", {"filename": "str", "search": ("list", ["str"]), "emit_func": "obj", "replacement_node_ir": "obj",
                                      "type_wanted": ("native", ast.FunctionDef)}),
        Case("search=2,FunctionDef", {"filename": "str", "search": ("list", ["str", "str"]), "emit_func": "obj", "replacement_node_ir": "obj",
                                      "type_wanted": ("native", ast.FunctionDef)}),
    ],
    ensures=[
        Clause("K-count", "log_effects in ((), ('emit.file',))", note="at most one write per call, and only through emit.file"),
        Clause("K-flag", "bool(result[1]) == (len(log_effects) == 1)", note="C10.D1: the returned flag is true exactly when a write happened"),
        Clause("K-name", "result[0] == now_filename", note="the (normalised) file name is returned"),
        Clause("K-only-this-file", "len(log_effects) == 0 or %s == now_filename" % _FILE_OF(0), note="C10.D2: no other file is written"),
        Clause("K-create", "log_path_isfile_results[0] or (len(log_effects) == 1 and %s == 'wt' and result[1] is True)" % _MODE_OF(0),
               note="C09.D1: a missing file is created with one 'wt' write and reported"),
        Clause("K-append", "not log_path_isfile_results[0] or log_find_in_ast_n == 0 or not (log_find_in_ast_results[0] is None) "
                           "or (len(log_effects) == 1 and %s == 'a' and result[1] is True)" % _MODE_OF(0),
               note="C09.D1: a file without the definition gets exactly one append"),
        Clause("K-agree", "not log_path_isfile_results[0] or log_cmp_ast_n == 0 or not log_cmp_ast_results[0] or (len(log_effects) == 0 and result[1] is False)",
               note="C10: a definition already equal to the emission causes no write and is reported unchanged"),
        Clause("K-replace", "not log_path_isfile_results[0] or log_cmp_ast_n == 0 or log_cmp_ast_results[0] or len(log_effects) == 0 or %s == 'wt'" % _MODE_OF(0),
               note="a rewrite of an existing file re-emits the whole module ('wt')"),
    ],
    raises={"AssertionError": True},
    canaries=["len(log_effects) == 0"],
)
conform_filename.opaque = _OPAQUE


# ------------------------------------------------------------------------------------------- emit.file
_FILE_OPAQUE = {
    ".read": {"ret": "str"}, ".write": {"ret": "none", "effect": True},
    "to_code": {"ret": "str"}, "format_str": {"ret": "str"}, "Mode": {"ret": "obj"}, "set": {"ret": "obj"},
    "open": {"ret": ("obj", None), "effect": True}, "path.isfile": {"ret": "bool"}, "Module": {"ret": ("obj", "ast.Module")},
}
emit_file = Contract(
    "doctrans.emit:file",
    properties=["C20", "C11", "C10"],
    note="to_code / black / open are opaque and logged in order; the contract is about ORDER: everything that can raise while rendering happens "
         "before the file is opened for writing, and exactly one write follows",
    cases=[
        Case("wt,black", {"node": ("obj", "ast.Module"), "filename": "str", "mode": ("lit", "wt"), "skip_black": ("lit", False)}),
        Case("wt,noblack", {"node": ("obj", "ast.Module"), "filename": "str", "mode": ("lit", "wt"), "skip_black": ("lit", True)}),
        Case("a,black", {"node": ("obj", "ast.Module"), "filename": "str", "mode": ("lit", "a"), "skip_black": ("lit", False)}),
        Case("wt,classdef", {"node": ("obj", "ast.ClassDef"), "filename": "str", "mode": ("lit", "wt"), "skip_black": ("lit", False)}),
    ],
    ensures=[
        Clause("F-render-first", "log_pos_open[-1] > log_pos_to_code[-1] and (len(log_pos_format_str) == 0 or log_pos_open[-1] > log_pos_format_str[-1])",
               note="C20.D2: the source is fully rendered (and formatted) before the file is opened for writing"),
        Clause("F-open-target", "log_open_args[-1][0] == filename and log_open_args[-1][1] == mode", note="the last open is on the target, in the requested mode"),
        Clause("F-one-write", "log__write_n == 1 and log_pos__write[0] > log_pos_open[-1]",
               note="after the last open there is exactly one write (and none before)"),
        Clause("F-written-text", "log__write_args[0][0] == (log_format_str_results[0] if len(log_pos_format_str) == 1 else log_to_code_results[0])",
               when=["wt,black", "wt,noblack", "wt,classdef"], note="what is written is the rendered (and, unless skipped, formatted) source - nothing else"),
        Clause("F-fresh-line", "log__read_n == 0 or log__write_args[0][0] == (('\\n' + log_format_str_results[0]) if (log__read_results[0] != '' and log__read_results[0][-1:] != '\\n') "
                               "else log_format_str_results[0])", when=["a,black"],
               note="C11: appended text starts on a line of its own: a newline is put in front exactly when the existing text is non-empty and does not end in one "
                    "(a file that ends in blanks or tabs still needs it)"),
        Clause("F-black", "(len(log_pos_format_str) == 1) == (not skip_black)", note="black runs iff it was not skipped"),
        Clause("F-wrap", "(log_Module_n == 1) == (not typeis(node, 'Module'))", note="a bare ClassDef / FunctionDef is wrapped into a Module"),
        Clause("F-append-after-format", "len(log_pos_open) == 1 or len(log_pos_format_str) == 0 or log_pos_open[0] > log_pos_format_str[-1]",
               when=["a,black"], note="C11.D3: the fresh-line prefix is decided after formatting (black strips leading blank lines)"),
        Clause("F-append-reads-first", "mode != 'a' or len(log_pos_open) == 1 or log_open_args[0][1] == 'rt'",
               when=["a,black"], note="C11.D3: in append mode the existing text is only read (to start on a fresh line)"),
    ],
    canaries=["len(log_pos_format_str) == 0"],
)
emit_file.opaque = _FILE_OPAQUE

# ------------------------------------------------------------------------------------------- RewriteAtQuery
_RW_SELF = ("node", "doctrans.ast_utils.RewriteAtQuery", {"search": ("list", ["str"]), "replacement_node": ("obj", "ast.ClassDef"), "replaced": "bool"})
_RW_NODE = ("node", "ast.ClassDef", {"_location": ("list", ["str"]), "name": "str"})
_RW_NODE2 = ("node", "ast.ClassDef", {"_location": ("list", ["str", "str"]), "name": "str"})

rewrite_generic_visit = Contract(
    "doctrans.ast_utils:RewriteAtQuery.generic_visit",
    properties=["C11", "C09", "C14", "C15"],
    note="library traversal (NodeTransformer.generic_visit) is trusted to return the node it was given when nothing below matches",
    cases=[Case("loc=1", {"self": _RW_SELF, "node": _RW_NODE}), Case("loc=2", {"self": _RW_SELF, "node": _RW_NODE2}),
           Case("no-location", {"self": _RW_SELF, "node": ("node", "ast.Pass", {})})],
    ensures=[
        Clause("RW1", "not ((not old_self.replaced) and node._location == self.search) or (result is self.replacement_node and self.replaced == True)",
               when=["loc=1", "loc=2"], note="the first node whose location equals the search path is replaced, and the fact is recorded"),
        Clause("RW2", "((not old_self.replaced) and node._location == self.search) or (result is node and self.replaced == old_self.replaced)",
               when=["loc=1", "loc=2"], note="every other node is left alone and the flag is untouched"),
        Clause("RW3", "result is node and self.replaced == old_self.replaced", when=["no-location"]),
        Clause("RW-frame", "self.search == old_self.search and self.replacement_node is old_self.replacement_node", note="nothing else of the transformer changes"),
    ],
    canaries=["result is node"],
)

CONTRACTS = [conform_filename, emit_file, rewrite_generic_visit]

# ------------------------------------------------------------------------------------------- sync_properties
_SP_OPAQUE = {
    "path.realpath": {"ret": "str"}, "path.expanduser": {"ret": "str"}, "open": {"ret": ("obj", None)},
    "ast_parse": {"ret": ("obj", "ast.Module")}, "sync_property": {"ret": ("obj", "ast.Module")}, "emit.file": {"ret": "none", "effect": True},
}


def _sp_case(n):
    return Case("pairs=%d" % n, {"input_eval": "bool", "input_filename": "str", "input_params": ("list", ["str"] * n), "output_filename": "str",
                                 "output_params": ("list", ["str"] * n), "output_param_wrap": None})


sync_properties = Contract(
    "doctrans.sync_properties:sync_properties",
    properties=["C14", "C20"],
    note="1..3 input/output pairs; sync_property, the parser and emit.file are opaque and logged",
    cases=[_sp_case(1), _sp_case(2), _sp_case(3),
           Case("same-input-twice", {"input_eval": "bool", "input_filename": "str", "input_params": ("list", [("lit", "alpha"), ("lit", "alpha")]), "output_filename": "str",
                                     "output_params": ("list", [("lit", "gamma"), ("lit", "Out.kind")]), "output_param_wrap": None})],
    ensures=[
        Clause("SP-one-write", "log_effects == ('emit.file',) and log_order[-1] == 'emit.file'", note="C14.D1: exactly one write, after every pair has been applied"),
        Clause("SP-target", "log_emit_file_args[0][1] == output_filename and log_emit_file_kwargs[0]['mode'] == 'wt'", note="the write goes to the output file"),
        Clause("SP-reads-only", "all(a[1] == 'rt' for a in log_open_args)", note="both files are opened for reading only (the input file is never written)"),
        Clause("SP-every-pair", "log_sync_property_n == len(input_params)", note="every input/output pair is applied"),
        Clause("SP-pairs-in-order", "log_sync_property_n == 2 and log_sync_property_args[0][1] == 'alpha' and log_sync_property_args[0][4] == 'gamma' "
                                    "and log_sync_property_args[1][1] == 'alpha' and log_sync_property_args[1][4] == 'Out.kind'", when=["same-input-twice"],
               note="C14: an input address that serves two outputs is applied to both, in the order given (seed C14-6 folds the pairs through a dict)"),
        Clause("SP-chained", "log_emit_file_args[0][0] is log_sync_property_results[-1]", note="what is written is the result of the last replacement"),
    ],
    raises={"AssertionError": "False"},
    canaries=["log_sync_property_n == 1"],
)
sync_properties.opaque = _SP_OPAQUE

CONTRACTS.append(sync_properties)

# ------------------------------------------------------------------------------------------- ground_truth
_GT_OPAQUE = {
    "_get_name_from_namespace": {"ret": "str"}, "open": {"ret": ("obj", None)}, "ast_parse": {"ret": ("obj", "ast.Module")},
    "find_in_ast": {"ret": "obj"}, "parse_func": {"ret": "obj"}, "_default_options": {"ret": "kwargs-thunk"}, "strip_split": {"ret": "obj"},
    "OrderedDict": {"ret": "obj"}, "_conform_filename": {"ret": "obj", "effect": True}, "emit.file": {"ret": "none", "effect": True},
}


def _ns(truth, classes, functions, argparse_functions):
    def files(n, tag):
        return None if n is None else ("list", ["str"] * n)

    return ("node", "argparse.Namespace", {
        "truth": ("lit", truth),
        "classes": files(classes, "c"), "class_names": None if classes is None else ("list", ["str"]),
        "functions": files(functions, "f"), "function_names": None if functions is None else ("list", ["str"]),
        "argparse_functions": files(argparse_functions, "a"), "argparse_function_names": None if argparse_functions is None else ("list", ["str"]),
    })


ground_truth = Contract(
    "doctrans.conformance:ground_truth",
    properties=["C20", "C10", "C09"],
    note="the Namespace is a record with symbolic file names; parsing, lookup and _conform_filename are opaque and logged",
    cases=[
        Case("three-kinds", {"args": _ns("class", 1, 1, 1), "truth_file": "str"}),
        Case("two-kinds", {"args": _ns("function", 1, 1, None), "truth_file": "str"}),
        Case("two-files-one-kind", {"args": _ns("argparse_function", 2, None, 1), "truth_file": "str"}),
    ],
    ensures=[
        Clause("GT-truth-read-only", "log_open_n == 1 and log_open_args[0][0] == truth_file and log_open_args[0][1] == 'rt'",
               note="C10: the truth file is opened once, for reading"),
        Clause("GT-writes-only-via-conform", "log_emit_file_n == 0", note="ground_truth itself never writes: every write goes through _conform_filename"),
        Clause("GT-order[three]", "tuple(k['filename'] for k in log__conform_filename_kwargs) == (args.argparse_functions[0], args.classes[0], args.functions[0])",
               when=["three-kinds"], note="C20.D4: targets are processed one after the other, in a fixed order, each exactly once"),
        Clause("GT-order[two]", "tuple(k['filename'] for k in log__conform_filename_kwargs) == (args.classes[0], args.functions[0])",
               when=["two-kinds"], note="a kind that was not given is skipped (C09.D4)"),
        Clause("GT-order[two-files]", "tuple(k['filename'] for k in log__conform_filename_kwargs) == (args.argparse_functions[0], args.classes[0], args.classes[1])",
               when=["two-files-one-kind"]),
        Clause("GT-after-parse", "log_pos__conform_filename[0] > log_pos_parse_func[0]", note="the truth is parsed once, before any target is touched"),
    ],
    raises={"AssertionError": "False"},
    canaries=["log__conform_filename_n == 2"],
)
ground_truth.opaque = _GT_OPAQUE
CONTRACTS.append(ground_truth)

# ------------------------------------------------------------------------------------------- RewriteAtQuery.visit_FunctionDef
def _arg(loc_len=2):
    return ("node", "ast.arg", {"arg": "str", "annotation": None, "_location": ("list", ["str"] * loc_len), "_idx": "int"})


def _vfd_case(npos, nkw):
    return Case("pos=%d,kw=%d" % (npos, nkw), {
        "self": ("node", "doctrans.ast_utils.RewriteAtQuery", {"search": ("list", ["str", "str"]), "replacement_node": ("node", "ast.arg", {"arg": "str", "annotation": ("obj", "ast.Name")}),
                                                               "replaced": ("lit", False)}),
        "node": ("node", "ast.FunctionDef", {"name": "str", "_location": ("list", ["str"]),
                                             "args": ("node", "ast.arguments", {"args": ("list", [_arg() for _ in range(npos)]),
                                                                                "kwonlyargs": ("list", [_arg() for _ in range(nkw)]),
                                                                                "defaults": ("list", [("obj", "ast.Constant")] * npos)})}),
    })


def _frame(attr, n):
    parts = []
    for i in range(n):
        first = " and ".join(["True"] + ["not (old_node.args.%s[%d]._location == self.search)" % (attr, j) for j in range(i)])
        parts.append("((node.args.%s[%d] is old_node.args.%s[%d]) == (not (node._location == self.search[:-1] and old_node.args.%s[%d]._location == self.search and (%s))))"
                     % (attr, i, attr, i, attr, i, first))
    return " and ".join(parts) if parts else "True"


visit_function_def = Contract(
    "doctrans.ast_utils:RewriteAtQuery.visit_FunctionDef",
    properties=["C14", "C11", "C15"],
    note="argument replacement (the replacement is already an ast.arg; emit_arg is opaque); argument lists of length <= 2 + 2",
    cases=[_vfd_case(2, 0), _vfd_case(2, 1), _vfd_case(1, 2), _vfd_case(0, 2)],
    ensures=[
        Clause("VF-node", "result is node", note="the function node itself is kept"),
        Clause("VF-pos-frame[2]", _frame("args", 2), when=["pos=2,kw=0", "pos=2,kw=1"],
               note="C14.D3 / C11.D2: a positional argument is replaced iff its location is the searched one (first match); every other stays the same object"),
        Clause("VF-pos-frame[1]", _frame("args", 1), when=["pos=1,kw=2"]),
        Clause("VF-kw-frame[1]", _frame("kwonlyargs", 1), when=["pos=2,kw=1"],
               note="a keyword-only argument is replaced iff its location is the searched one; positional arguments are not touched on its behalf"),
        Clause("VF-kw-frame[2]", _frame("kwonlyargs", 2), when=["pos=1,kw=2", "pos=0,kw=2"]),
        Clause("VF-lengths", "len(node.args.args) == len(old_node.args.args) and len(node.args.kwonlyargs) == len(old_node.args.kwonlyargs)",
               note="no argument is added or dropped"),
        Clause("VF-defaults", "all(node.args.defaults[i] is old_node.args.defaults[i] for i in range(len(old_node.args.defaults)))",
               note="replacing with a bare argument leaves the defaults alone"),
    ],
    raises={"AssertionError": "False"},
    canaries=["node.args.args[0] is old_node.args.args[0]"] ,
)
visit_function_def.opaque = {"emit_arg": {"ret": ("obj", "ast.arg")}, "get_value": {"ret": "obj"}}
CONTRACTS.append(visit_function_def)

# ------------------------------------------------------------------------------------------- sync_property (C14: the wrap template)
_SPR_OPAQUE = {
    "strip_split": {"ret": "obj"}, "list": {"ret": "obj"}, "annotate_ancestry": {"ret": "obj"}, "find_in_ast": {"ret": ("obj", "ast.AnnAssign")},
    "to_code": {"ret": "str"}, "ast.parse": {"ret": ("obj", "ast.Module")}, "RewriteAtQuery": {"ret": ("obj", "RewriteAtQuery")},
}
_WRAPS = {"opt": "Optional[{output_param}]", "union": "Optional[Union[{output_param}, str]]"}


def _spr_case(name, wrap):
    return Case(name, {"input_eval": ("lit", False), "input_param": "str", "input_ast": ("obj", "ast.Module"), "input_filename": "str",
                       "output_param": "str", "output_param_wrap": None if wrap is None else ("lit", wrap), "output_ast": ("obj", "ast.Module")})


sync_property = Contract(
    "doctrans.sync_properties:sync_property",
    properties=["C14"],
    note="non-eval mode; lookup, rendering, parsing and the rewriter are opaque and logged; two wrap templates and none",
    cases=[_spr_case("wrap=None", None)] + [_spr_case("wrap=" + k, v) for k, v in _WRAPS.items()],
    ensures=[
        Clause("SY-wrap-opt", "g_ann is None or log_ast_parse_n == 1 and log_ast_parse_args[0][0] == 'Optional[' + log_to_code_results[0] + ']' "
                              "and log_to_code_args[0][0] is g_ann", when=["wrap=opt"],
               note="C14: with a wrap template the copied annotation is ALWAYS the template applied to the input's annotation - whatever that annotation looks like"),
        Clause("SY-wrap-union", "g_ann is None or log_ast_parse_n == 1 and log_ast_parse_args[0][0] == 'Optional[Union[' + log_to_code_results[0] + ', str]]'", when=["wrap=union"]),
        Clause("SY-annotation-set", "g_ann is None or (log_setattr_n == 1 and log_setattr_args[0][0] is g_rep and "
                                    "log_setattr_args[0][1] == 'annotation' and log_setattr_args[0][2] is log_ast_parse_results[0].body[0].value)",
               when=["wrap=opt", "wrap=union"], note="the parsed, wrapped expression becomes the annotation of the node that is copied"),
        Clause("SY-nowrap", "log_ast_parse_n == 0 and log_to_code_n == 0", when=["wrap=None"], note="without a template the node is copied as it is"),
        Clause("SY-replacement", "log_RewriteAtQuery_kwargs[0]['replacement_node'] is g_rep and g_rep is deepcopy(log_find_in_ast_results[0])",
               note="what is written into the output is a copy of the node found in the input (since 94e721b: the input's own node is neither wrapped in place nor shared between two outputs)"),
    ],
    ghosts={"assert replacement_node is not None": [("g_ann", "replacement_node.annotation"), ("g_rep", "replacement_node")]},
    raises={"AssertionError": True, "NotImplementedError": True},
    canaries=["log_ast_parse_n == 0"],
)
sync_property.opaque = _SPR_OPAQUE
CONTRACTS.append(sync_property)
