"""Sidecar contracts for doctrans/docstring_utils.py: the per-parameter line codec of the three docstring styles (emitter half)."""
from vf.pyvc.verify import Case, Clause, Contract


def _eps_case(name, style, pname, entry, assume=()):
    return Case(name, {"param": ("tuple", [pname, ("dict", entry)]), "style": ("lit", style), "emit_doc": True, "emit_type": True,
                       "word_wrap": False, "emit_default_doc": False},
                assume=list(assume) + (["('Defaults' in param[1]['doc']) == False", "('defaults' in param[1]['doc']) == False"] if "doc" in entry else []))


_TD = {"typ": "str", "doc": "str"}
_NE = ["param[1]['doc'] != ''", "param[1]['typ'] != ''"]
_CASES = [
    _eps_case("rest,param", "rest", "str", _TD, _NE + ["param[0] != 'return_type'"]),
    _eps_case("rest,param,untyped", "rest", "str", {"doc": "str"}, ["param[1]['doc'] != ''", "param[0] != 'return_type'"]),
    _eps_case("rest,param,noprose", "rest", "str", {"typ": "str"}, ["param[1]['typ'] != ''", "param[0] != 'return_type'"]),
    _eps_case("rest,return", "rest", ("lit", "return_type"), _TD, _NE),
    _eps_case("numpydoc,param", "numpydoc", "str", _TD, _NE + ["param[0] != 'return_type'"]),
    _eps_case("numpydoc,param,untyped", "numpydoc", "str", {"doc": "str"}, ["param[1]['doc'] != ''", "param[0] != 'return_type'", "param[0] != ''"]),
    _eps_case("numpydoc,return", "numpydoc", ("lit", "return_type"), _TD, _NE),
    _eps_case("google,param", "google", "str", _TD, _NE + ["param[0] != 'return_type'"]),
    _eps_case("google,param,untyped", "google", "str", {"doc": "str"}, ["param[1]['doc'] != ''", "param[0] != 'return_type'"]),
    _eps_case("google,return", "google", ("lit", "return_type"), _TD, _NE),
]
_N, _T, _D = "old_param[0]", "old_param[1]['typ']", "old_param[1]['doc']"

emit_param_str = Contract(
    "doctrans.docstring_utils:emit_param_str",
    properties=["C01", "C03", "C18"],
    note="no word wrap (fill is the identity), default text off, entries without a default (set_default_doc is inlined and leaves such prose alone); "
         "indent_all_but_first / textwrap.indent are opaque (they only add leading blanks to continuation lines): the contract pins WHAT text is laid out, per style",
    cases=_CASES,
    ensures=[
        Clause("EPS-rest", "log_indent_all_but_first_n == 2 and log_indent_all_but_first_args[0][0] == ':param ' + %s + ': ' + %s "
                           "and log_indent_all_but_first_args[1][0] == ':type ' + %s + ': ```' + %s + '```' "
                           "and result == log_indent_all_but_first_results[0] + '\\n' + log_indent_all_but_first_results[1]" % (_N, _D, _N, _T),
               when=["rest,param"], note="C01 (ReST): a ':param name: prose' line then a ':type name: ```type```' line - name, prose and type verbatim, in that order"),
        Clause("EPS-rest-untyped", "log_indent_all_but_first_n == 1 and log_indent_all_but_first_args[0][0] == ':param ' + %s + ': ' + %s and result == log_indent_all_but_first_results[0]" % (_N, _D),
               when=["rest,param,untyped"], note="no type line is invented"),
        Clause("EPS-rest-noprose", "log_indent_all_but_first_n == 1 and log_indent_all_but_first_args[0][0] == ':type ' + %s + ': ```' + %s + '```'" % (_N, _T),
               when=["rest,param,noprose"], note="no prose line is invented"),
        Clause("EPS-rest-return", "log_indent_all_but_first_args[0][0] == ':returns: ' + %s and log_indent_all_but_first_args[1][0] == ':rtype: ```' + %s + '```'" % (_D, _T),
               when=["rest,return"], note="the return entry uses :returns: / :rtype:"),
        Clause("EPS-numpydoc", "result == %s + ' : ' + %s + (('\\n' + log_indent_results[0]) if log_indent_results[0] != '' else '') and log_indent_args[0][0] == %s" % (_N, _T, _D), when=["numpydoc,param"],
               note="C01 (numpydoc): 'name : type' then the indented prose"),
        Clause("EPS-numpydoc-untyped", "result[:len(%s)] == %s" % (_N, _N), when=["numpydoc,param,untyped"],
               note="C01: the name line of an untyped parameter is emitted too (REFUTED on the pinned tree: finding N-untyped - only the prose is emitted)"),
        Clause("EPS-numpydoc-return", "result == %s + (('\\n' + log_indent_results[0]) if log_indent_results[0] != '' else '') and log_indent_args[0][0] == %s" % (_T, _D), when=["numpydoc,return"]),
        Clause("EPS-google", "result == '  ' + %s + ' (' + %s + '): ' + %s" % (_N, _T, _D), when=["google,param"], note="C01 (Google): '  name (type): prose'"),
        Clause("EPS-google-untyped", "result == '  ' + %s + ' (): ' + %s" % (_N, _D), when=["google,param,untyped"], note="C01: the name of an untyped parameter is emitted too (REFUTED on the pinned tree: finding G-untyped - the whole header is dropped)"),
        Clause("EPS-google-return", "result == '  ' + %s + ':' + '\\n   ' + %s" % (_T, _D), when=["google,return"]),
        Clause("EPS-frame", "unchanged(param, old_param)", note="the entry is not modified"),
    ],
    canaries=["result == ''"],
)
emit_param_str.opaque = {"indent_all_but_first": {"ret": "str"}, "indent": {"ret": "str"}}
CONTRACTS = [emit_param_str]
