"""Enumerated corpora for the BOUNDED runtime companion of the contracts (vf.bounded.contract_rt): the same contract texts are
evaluated by CPython on the real function; every record is also an engine / CPython cross-check.  key -> f(tier, seed) -> [kwargs]"""
import itertools
import random

NONESTR = "```(None)```"


def _snt(tier, seed):
    names = ["x", "dataset_name", "kwargs", "**kwargs", "as_numpy", "*args"]
    typs = ["<absent>", "int", "str", "Optional[int]", "int, optional", "dict", "Optional[dict]", "Union[int, str], optional", ", optional", "Optionally"]
    docs = ["<absent>", "", "the x", "the x  ", "Optional thing", "(Optional) thing", "optional thing", "(optional) thing", "OPTIONAL x", "Optionally y",
            " Optional", "an Optional", "x\n  y", "  ", "optionally"]
    out = []
    for n, t, d in itertools.product(names, typs, docs):
        p = {}
        if t != "<absent>":
            p["typ"] = t
        if d != "<absent>":
            p["doc"] = d
        out.append({"param": (n, p), "infer_type": False, "word_wrap": False})
    return out


def _idf(tier, seed):
    docs = ["the x", "the x. Defaults to 5", "Defaults to -3", "x. Defaults to 'abc'", 'x. Defaults to "a b"', "x. Default value is True", "x. Defaults to 2.5",
            "x. Defaults to hello\n    world", "x. Defaults to ", "x. defaults to 7.", "x. Defaults to ```(1, 2)```", "", "Defaults to None"]
    out = []
    for doc, typ, dflt, req in itertools.product(docs, ("<absent>", "str", "int", "Optional[str]"), ("<absent>", "old", "", "'q'"), (False, True)):
        if typ == "int" and doc not in ("the x", "the x. Defaults to 5", "Defaults to -3", "x. defaults to 7.", ""):
            continue  # the declared type must describe the announced value (int('abc') raises by design)
        p = {"doc": doc}
        if typ != "<absent>":
            p["typ"] = typ
        if dflt != "<absent>":
            p["default"] = dflt
        out.append({"param": ("x", p), "default_search_announce": None, "require_default": req, "emit_default_doc": True})
    return out


def _rdp(tier, seed):
    docs = ["the x", "the x. Defaults to 5", "Defaults to -3", "x. Defaults to 'abc'", "x. Default value is True", "x. Defaults to 2.5", "x. Defaults to ",
            "x. defaults to 7.", "x. Defaults to ```(1, 2)```", "", "Defaults to None", "first. Defaults to 4. second sentence", "x (y). Default: abc"]
    out = []
    for doc, extra, prop in itertools.product(docs, ({}, {"typ": "str"}, {"default": 9}), (True, False)):
        if extra.get("typ") == "str" and ("'" not in doc and "Defaults" in doc or "Default" in doc and "'" not in doc):
            continue  # a declared str type requires a quoted literal (extract_default raises otherwise, by design)
        out.append({"param": ("x", dict({"doc": doc}, **extra)), "emit_default_prop": prop})
    return out


def _sdd(tier, seed):
    docs = ["the x", "the x.", "port to use instead of the default one", "DEFAULT is unset", "Default value", "the x. Defaults to 5", "uses defaults", "the x,",
            "x. Defaults to", "x. Defaults to "]
    out = []
    for name, doc, typ, dflt, emit in itertools.product(("x", "kwargs"), docs, ("<absent>", "str", "int", "Optional[str]"),
                                                        ("<absent>", 5, "abc", "", None, NONESTR, "'q'"), (True, False)):
        if typ == "int" and not (dflt == "<absent>" or isinstance(dflt, int)):
            continue
        p = {"doc": doc}
        if typ != "<absent>":
            p["typ"] = typ
        if dflt != "<absent>":
            p["default"] = dflt
        out.append({"param": (name, p), "emit_default_doc": emit})
    return out


CORPORA = {
    "doctrans.defaults_utils:set_default_doc": _sdd,
    "doctrans.defaults_utils:_remove_default_from_param": _rdp,
    "doctrans.emitter_utils:interpolate_defaults": _idf,
    "doctrans.docstring_parsers:_set_name_and_type": _snt,
}
