"""Sidecar contracts for doctrans/pure_utils.py (DESIGN Appendix C)."""
from vf.pyvc.verify import Case, Clause, Contract, Outcome

Q = "(len({0}) >= 1 and {0}[0] == {0}[-1] and {0}[0] in ('\"', \"'\"))"

unquote = Contract(
    "doctrans.pure_utils:unquote",
    properties=["C08", "C17"],
    cases=[Case("str", {"input_str": "str"}), Case("None", {"input_str": None})],
    ensures=[
        Clause("U1", "result == (input_str[1:-1] if len(input_str) >= 2 and %s else input_str)" % Q.format("input_str"), when=["str"],
               note="removes exactly one pair of matching quotes, otherwise identity"),
        Clause("U2", "len(result) <= len(input_str)", when=["str"]),
        Clause("U3", "result is None", when=["None"]),
    ],
    canaries=["result != input_str[1:-1]"],
)

code_quoted = Contract(
    "doctrans.pure_utils:code_quoted",
    properties=["C17", "C08"],
    cases=[Case("str", {"s": "str"}), Case("None", {"s": None}), Case("int", {"s": "int"})],
    ensures=[
        Clause("CQ1", "result == (len(s) > 6 and s[:3] == '```' and s[-3:] == '```')", when=["str"]),
        Clause("CQ2", "not result or s[3:-3] != ''", when=["str"]),
        Clause("CQ3", "result == False", when=["None", "int"]),
    ],
    canaries=["result == False"],
)

quote = Contract(
    "doctrans.pure_utils:quote",
    properties=["C08", "C17"],
    cases=[
        Case("str", {"s": "str", "mark": '"'}),
        Case("None", {"s": None, "mark": '"'}),
        Case("str,mark", {"s": "str", "mark": "str"}),
    ],
    ensures=[
        Clause("Q1", "result == (s if len(s) == 0 or %s else mark + s + mark)" % Q.format("s"), when=["str", "str,mark"],
               note="already quoted or empty: identity; otherwise wrapped once"),
        Clause("Q3", "result is None", when=["None"]),
    ],
    canaries=["result == s"],
)

_LW_DEFS = {
    "occ": "lambda e, j: cmp(container[j:j + len(e)], e)",
    "nowhere": "lambda e: forall(lambda j: not cmp(container[j:j + len(e)], e), 0, len(container) + 1)",
}
_LW_FOUND = [
    "0 <= result[0] and result[1] == result[0] + len(result[2]) and result[1] <= len(container)",
    "cmp(container[result[0]:result[1]], result[2])",
    "any(result[2] == e for e in iterable)",
    "forall(lambda j: not cmp(container[j:j + len(result[2])], result[2]), 0, result[0])",
    "any(result[2] == iterable[m] and all(nowhere(iterable[q]) for q in range(m)) for m in range(len(iterable)))",
]
_LW_NONE = ["all(nowhere(e) for e in iterable)"]


def _lw_cases():
    out = []
    for k in (1, 2, 3, 4):
        out.append(Case("tokens=%d" % k, {"container": "str", "iterable": ("tuple", ["str"] * k), "cmp": "pred2"}))
    return out


location_within = Contract(
    "doctrans.pure_utils:location_within",
    properties=["C17"],
    note="outer loop unrolled for token tuples of length 1..4 (every call site in /repo passes 1 or 4 tokens); "
         "inner loop cut at its invariant, i.e. proved for containers of every length",
    cases=_lw_cases(),
    requires=[
        "forall_str(lambda a, b: not cmp(a, b) or len(a) == len(b))",
        "forall_str(lambda a, b: cmp(a, b) == cmp(b, a))",
    ],
    defs=_LW_DEFS,
    loops={
        2: {
            "header": "for i in range(container_len)",
            "inv": ["forall(lambda j: not cmp(container[j:j + elem_len], elem), 0, _i)"],
            "after": ["forall(lambda j: not cmp(container[j:j + elem_len], elem), 0, container_len + 1)"],
        }
    },
    ensures=[Clause("LW-F%d" % (i + 1), "result[2] is None or (%s)" % t) for i, t in enumerate(_LW_FOUND)]
    + [Clause("LW-N1", "result[2] is not None or (result[0] == -1 and result[1] == -1 and %s)" % _LW_NONE[0])],
    outcomes=[
        Outcome("found", ("tuple", ["int", "int", "str"]), _LW_FOUND),
        Outcome("none", ("lit", (-1, -1, None)), _LW_NONE),
    ],
    canaries=["result[2] is None"],
)

quote_idem = Contract(
    "vf.contracts.laws:quote_twice",
    properties=["C08"],
    cases=[Case("str", {"s": "str"}), Case("None", {"s": None})],
    ensures=[Clause("QL1", "result[0] == result[1]", note="quote(quote(s)) == quote(s)")],
)

unquote_quote = Contract(
    "vf.contracts.laws:unquote_quote",
    properties=["C08", "C17"],
    cases=[Case("str", {"s": "str"})],
    ensures=[Clause("QL2", "len(s) == 0 or %s or result == s" % Q.format("s"),
                    note="unquote(quote(s)) == s for non-empty text that is not already quoted")],
    canaries=["result != s"],
)

CONTRACTS = [unquote, code_quoted, quote, location_within, quote_idem, unquote_quote]

# ------------------------------------------------------------------------------------------- paren_wrap_code / update_d (helpers of the default codec)
paren_wrap_code = Contract(
    "doctrans.pure_utils:paren_wrap_code",
    properties=["C03", "C02"],
    note="this interpreter is >= 3.9 (PY_GTE_3_9 is read from the real module)",
    cases=[Case("nonempty", {"code": "str"}, assume=["len(code) > 0"]), Case("empty", {"code": ("lit", "")})],
    ensures=[
        Clause("PW1", "result == (code if (code[0] + code[-1]) in ('()', '[]', '{}') else '(' + code + ')')", when=["nonempty"],
               note="an expression default is wrapped in exactly one pair of parentheses unless it is already bracketed"),
        Clause("PW2", "result[1:-1] == code or result == code", when=["nonempty"], note="nothing but the outer pair is added"),
    ],
    raises={"IndexError": "code == ''"},
    canaries=["result == code"],
)

update_d = Contract(
    "doctrans.pure_utils:update_d",
    properties=["C01"],
    cases=[Case("arg", {"d": ("dict", {"typ": "str", "doc": "str"}), "arg": ("dict", {"doc": "str", "default": "int"})}),
           Case("no-arg", {"d": ("dict", {"typ": "str"}), "arg": None}),
           Case("empty-arg", {"d": ("dict", {"typ": "str"}), "arg": ("dict", {})})],
    ensures=[
        Clause("UD-same", "result is d", note="updates in place and hands the same dict back"),
        Clause("UD-arg", "list(d.keys()) == ['typ', 'doc', 'default'] and d['typ'] == old_d['typ'] and d['doc'] == arg['doc'] and d['default'] == arg['default']", when=["arg"],
               note="keys of arg win, other keys and the key order are kept"),
        Clause("UD-noop", "unchanged(d, old_d)", when=["no-arg", "empty-arg"]),
        Clause("UD-arg-frame", "arg is None or unchanged(arg, old_arg)", note="the source dict is not modified"),
    ],
    canaries=["len(d) == 1"],
)
CONTRACTS += [paren_wrap_code, update_d]

# ------------------------------------------------------------------------------------------- indent_all_but_first (C01 / C18: the layout helper of every docstring line)
indent_all_but_first = Contract(
    "doctrans.pure_utils:indent_all_but_first",
    properties=["C01", "C18"],
    note="for a text of ONE line (no line boundary): textwrap.indent is modelled (prefix + text unless blank), split('\\n') of a text without '\\n' is [text]; "
         "texts of several lines are the bounded stand-in's",
    cases=[Case("one-line,level=%d" % k, {"s": "str", "indent_level": ("lit", k), "wipe_indents": False},
                assume=["all((c in s) == False for c in '\\n\\r\\x0b\\x0c\\x1c\\x1d\\x1e\\x85')"]) for k in (0, 1, 2, -1)],
    ensures=[
        Clause("IABF-one-line", "s.endswith(result) and result[:1] not in (' ', '\\t', '\\x1f', '\\xa0')",
               note="a one-line text is returned without leading blanks and otherwise verbatim (a suffix of it): nothing is indented, nothing appended"),
        Clause("IABF-verbatim", "s[:1] in (' ', '\\t', '\\x1f', '\\xa0') or result == s", note="in particular a line that opens with ':' or a letter is returned as it is"),
    ],
    canaries=["result == ''"],
)
indent_all_but_first.split_forks = True
CONTRACTS.append(indent_all_but_first)

# ------------------------------------------------------------------------------------------- strip_split (C15 / C14 / C09: how a dotted address becomes a search path)
_SEG = ("str-without", ".")
_SS_REST = "param[param.find('.') + 1:]"
strip_split = Contract(
    "doctrans.pure_utils:strip_split",
    properties=["C15", "C14", "C09"],
    note="dotted addresses with a literal skeleton: '<a>', '<a>.<b>', '<a>.<b>.<c>' with symbolic segments that contain no dot (str.split and str.find are decided on "
         "the skeleton: exact, structstr.py); `map(str.strip, <list>)` is executed element by element; the lazy map result is compared as the list of its items",
    cases=[Case("one", {"param": "str", "sep": ("lit", ".")}, assume=["('.' in param) == False"]),
           Case("two", {"param": ("strcat", [_SEG, ".", _SEG]), "sep": ("lit", ".")}),
           Case("three", {"param": ("strcat", [_SEG, ".", _SEG, ".", _SEG]), "sep": ("lit", ".")})],
    ensures=[
        Clause("SS-one", "list(result) == [param.strip()]", when=["one"], note="an address without a dot is one segment (blank ends removed)"),
        Clause("SS-two", "list(result) == [param[:param.find('.')].strip(), param[param.find('.') + 1:].strip()]", when=["two"],
               note="C15: 'A.b' addresses b inside A - two segments, in order, each exactly the text between the dots without its blank ends; nothing dropped, nothing merged"),
        Clause("SS-three", "list(result) == [param[:param.find('.')].strip(), %s[:%s.find('.')].strip(), %s[%s.find('.') + 1:].strip()]" % ((_SS_REST,) * 4), when=["three"],
               note="three levels: three segments - the texts before the first dot, between the two dots and after the second, each without its blank ends"),
    ],
    canaries=["list(result)[0] == param[:len(list(result)[0])]"],  # must be refutable: a segment with a leading blank comes back without it
)
strip_split.split_forks = True
CONTRACTS.append(strip_split)
