"""Sidecar contracts for doctrans/parser_utils.py: ir_merge and _join_non_none (C07.D2-D4)."""
from vf.pyvc.verify import Case, Clause, Contract


def _p(doc="str", typ="str", default="int"):
    d = {"doc": doc}
    if typ is not None:
        d["typ"] = typ
    if default != "<absent>":
        d["default"] = default
    return ("dict", d)


def _ir(params, returns=None):
    return ("dict", {"params": ("dict", params), "returns": returns})


_T_B_VARIANTS = {
    "typ-none,default-absent": _p("str", ("lit", None), "<absent>"),
    "typ-str,default-None": _p("str", "str", ("lit", None)),
    "typ-str,default-int": _p("str", "str", "int"),
    "typ-none,default-NoneStr": _p("str", ("lit", None), ("lit", "```(None)```")),
}
_O_B = _p("str", "str", "int")

_cases = []
for _k, _tb in _T_B_VARIANTS.items():
    _cases.append(Case("shared[%s]" % _k, {
        "target": _ir({"a": _p(), "b": _tb}),
        "other": _ir({"b": _O_B, "c": _p(), "d": _p("str", ("lit", None), "<absent>")}),
    }))
# the signature's default is a *text* (a class merged with its __init__ hands over plain values): '' is a default like any other (seed C07-8)
_cases.append(Case("shared[typ-str,default-None;other-default-str]", {
    "target": _ir({"a": _p(), "b": _T_B_VARIANTS["typ-str,default-None"]}),
    "other": _ir({"b": _p("str", "str", "str"), "c": _p(), "d": _p("str", ("lit", None), "<absent>")}),
}))
_cases.append(Case("target-empty", {"target": _ir({}), "other": _ir({"b": _O_B, "c": _p()})}))
_cases.append(Case("other-empty", {"target": _ir({"a": _p(), "b": _p()}), "other": _ir({})}))
_SHARED = [c.name for c in _cases if c.name.startswith("shared")]
_TB = "old_target['params']['b']"
_OB = "old_other['params']['b']"

ir_merge = Contract(
    "doctrans.parser_utils:ir_merge",
    properties=["C07", "C12"],
    note="key shapes are enumerated (target {a, b} / other {b, c, d} and the empty cases), every value is symbolic; the `&` loop is executed in one "
         "order, which is justified by the audit obligation unordered[parser_utils:ir_merge@other_params.keys() & target_params.keys()] "
         "(per-key local writes over an intersection of key views)",
    cases=_cases,
    ensures=[
        Clause("M0", "result is target", note="the target IR is returned (updated in place)"),
        Clause("M1", "list(result['params'].keys()) == ['a', 'b', 'c', 'd']", when=_SHARED,
               note="C07.D2: keys of the target in order, then the keys of the other IR that the target lacks, in the other's order: none dropped, none twice"),
        Clause("M2-doc", "result['params']['b']['doc'] == (%s['doc'] if len(%s['doc']) > 0 else %s['doc'])" % (_TB, _TB, _OB), when=_SHARED,
               note="C07.D3: documented prose wins; the other's prose fills a gap"),
        Clause("M2-typ", "result['params']['b']['typ'] == %s['typ']" % _TB, when=["shared[typ-str,default-None]", "shared[typ-str,default-int]"],
               note="C07.D3: a documented type wins"),
        Clause("M2-typ-gap", "(len(%s['typ']) > 0 and result['params']['b']['typ'] == %s['typ']) or (len(%s['typ']) == 0 and result['params']['b']['typ'] is None)" % (_OB, _OB, _OB),
               when=["shared[typ-none,default-absent]", "shared[typ-none,default-NoneStr]"], note="C07.D3: the signature's annotation fills a missing type"),
        Clause("M2-default-kept", "result['params']['b']['default'] == %s['default']" % _TB, when=["shared[typ-str,default-int]"],
               note="an explicit documented default is kept"),
        Clause("M2-default-filled", "result['params']['b']['default'] == %s['default']" % _OB,
               when=["shared[typ-none,default-absent]", "shared[typ-str,default-None]", "shared[typ-none,default-NoneStr]"],
               note="a missing / None default is filled from the signature"),
        Clause("M2-default-filled-text", "%s['default'] in ('None', '(None)') or result['params']['b']['default'] == %s['default']" % (_OB, _OB),
               when=["shared[typ-str,default-None;other-default-str]"],
               note="C07: the signature fills the gap with whatever default it has - the empty text included; only the spellings of None count as 'no default'"),
        Clause("M3", "result['params']['c'] is other['params']['c'] and result['params']['d'] is other['params']['d'] and result['params']['a'] is target['params']['a']",
               when=_SHARED, note="parameters only one side knows are carried as they are"),
        Clause("M4", "result['params'] is other['params']", when=["target-empty"], note="nothing documented: the signature's parameters are taken over"),
        Clause("M5", "list(result['params'].keys()) == ['a', 'b'] and unchanged(result['params'], old_target['params'])", when=["other-empty"]),
        Clause("M-frame-other", "unchanged(other['params'], old_other['params'])", note="the other IR's parameters are not modified"),
    ],
    canaries=["result['params']['b']['doc'] == %s['doc']" % _TB],
)
ir_merge.allow_unordered = True

_J = ("dict", {"typ": "str", "doc": ("lit", None)})
join_non_none = Contract(
    "doctrans.parser_utils:_join_non_none",
    properties=["C07", "C12"],
    note="key shapes enumerated; the frozenset loop is executed in one order, justified by per-key local writes (audit) - the key ORDER inside the "
         "returned parameter dict is the listed assumption of C12",
    cases=[
        Case("both", {"primacy": ("dict", {"typ": "str", "doc": ("lit", None)}), "other": ("dict", {"typ": "str", "doc": "str", "default": "int"})}),
        Case("primacy-empty", {"primacy": ("dict", {}), "other": ("dict", {"typ": "str"})}),
        Case("other-empty", {"primacy": ("dict", {"typ": "str"}), "other": ("dict", {})}),
    ],
    ensures=[
        Clause("J1", "result is primacy and result['typ'] == old_primacy['typ'] and result['doc'] == other['doc'] and result['default'] == other['default']",
               when=["both"], note="values the primary dict has win; None / missing ones are taken from the other"),
        Clause("J2", "result is other", when=["primacy-empty"]),
        Clause("J3", "result is primacy and unchanged(result, old_primacy)", when=["other-empty"]),
        Clause("J-frame", "unchanged(other, old_other)", note="the other dict is not modified"),
    ],
    canaries=["result is other"],
)
join_non_none.allow_unordered = True

CONTRACTS = [ir_merge, join_non_none]

# ------------------------------------------------------------------------------------------- _interpolate_return (C03 / C07: the return entry)
_RET_INT = ("node", "ast.Return", {"value": ("node", "ast.Constant", {"value": "int", "kind": None})})
_RET_NAME = ("node", "ast.Return", {"value": ("node", "ast.Name", {"id": "str", "ctx": ("node", "ast.Load", {})})})
_NM = ("node", "ast.Name", {"id": "str", "ctx": ("node", "ast.Load", {})})
_RET_EXPR = ("node", "ast.Return", {"value": ("node", "ast.BinOp", {"left": _NM, "op": ("node", "ast.Add", {}), "right": _NM})})
_PASS = ("node", "ast.Pass", {})


def _fdef(body, returns=None):
    return ("node", "ast.FunctionDef", {"name": "str", "body": ("list", body), "returns": returns})


def _ir_ret(entry):
    d = {"name": "str"}
    if entry is not None:
        d["returns"] = ("dict", {"return_type": ("dict", entry)})
    return ("dict", d)


_IRET_CASES = [
    Case("int,no-entry", {"function_def": _fdef([_PASS, _RET_INT]), "intermediate_repr": _ir_ret(None)}),
    Case("int,entry-doc", {"function_def": _fdef([_PASS, _RET_INT]), "intermediate_repr": _ir_ret({"doc": "str"})}),
    Case("int,entry-default", {"function_def": _fdef([_PASS, _RET_INT]), "intermediate_repr": _ir_ret({"doc": "str", "default": "str"})}),
    Case("int,entry-typ", {"function_def": _fdef([_RET_INT]), "intermediate_repr": _ir_ret({"doc": "str", "typ": "str", "default": "str"})}),
    Case("name,entry-default", {"function_def": _fdef([_PASS, _RET_NAME]), "intermediate_repr": _ir_ret({"doc": "str", "default": "str"})}),
    Case("name,no-entry", {"function_def": _fdef([_RET_NAME, _PASS]), "intermediate_repr": _ir_ret(None)}),
    Case("expr,entry-default", {"function_def": _fdef([_PASS, _RET_EXPR]), "intermediate_repr": _ir_ret({"doc": "str", "default": "str"})}),
    Case("expr,no-entry", {"function_def": _fdef([_RET_EXPR]), "intermediate_repr": _ir_ret(None)}),
    Case("no-return,entry", {"function_def": _fdef([_PASS]), "intermediate_repr": _ir_ret({"doc": "str", "default": "str"})}),
    Case("no-return,no-entry", {"function_def": _fdef([_PASS, _PASS]), "intermediate_repr": _ir_ret(None)}),
    Case("annotated,no-return", {"function_def": _fdef([_PASS], ("node", "ast.Name", {"id": "str", "ctx": ("node", "ast.Load", {})})), "intermediate_repr": _ir_ret(None)}),
]
_INT_CASES = [c.name for c in _IRET_CASES if c.name.startswith("int,")]
_NAME_CASES = [c.name for c in _IRET_CASES if c.name.startswith("name,")]
_EXPR_CASES = [c.name for c in _IRET_CASES if c.name.startswith("expr,")]
_THE_RETURN = "[s for s in function_def.body if typeis(s, 'Return')][0]"
_RT = "result['returns']['return_type']"

interpolate_return = Contract(
    "doctrans.parser_utils:_interpolate_return",
    properties=["C03", "C07"],
    note="bodies of 1-2 statements whose return (if any) yields an int constant or a name; to_code is opaque (its result is the rendered source of "
         "the node it was given: logged); what the return entry held before (prose-derived default, scalar type) is symbolic",
    cases=_IRET_CASES,
    ensures=[
        Clause("IR-same", "result is intermediate_repr", note="the description is updated in place and handed back"),
        Clause("IR-int", "%s['default'] == [s for s in function_def.body if typeis(s, 'Return')][0].value.value and typeis(%s['default'], 'int')" % (_RT, _RT),
               when=_INT_CASES, note="C07: the return entry's default is the value the function really returns - whatever default the docstring's prose suggested before"),
        Clause("IR-name", "%s['default'] == %s.value.id" % (_RT, _THE_RETURN), when=_NAME_CASES,
               note="a returned name is carried as that name - overriding any earlier default"),
        Clause("IR-expr", "%s['default'] == '```' + log_to_code_results[0].rstrip('\\n') + '```' and log_to_code_args[0][0] is %s.value" % (_RT, _THE_RETURN),
               when=_EXPR_CASES, note="any other return expression is carried as its rendered source in back-ticks - again overriding any earlier default"),
        Clause("IR-typ-scalar-dropped", "('typ' in %s) == ('[' in old_intermediate_repr['returns']['return_type']['typ'])" % _RT, when=["int,entry-typ"],
               note="a documented scalar return type gives way to inference from the value; a subscripted one is kept"),
        Clause("IR-doc-kept", "%s['doc'] == old_intermediate_repr['returns']['return_type']['doc']" % _RT,
               when=["int,entry-doc", "int,entry-default", "int,entry-typ", "name,entry-default", "expr,entry-default", "no-return,entry"], note="frame: prose untouched"),
        Clause("IR-noreturn", "unchanged(intermediate_repr, old_intermediate_repr)", when=["no-return,entry", "no-return,no-entry"],
               note="without a valued return statement and without an annotation nothing changes"),
        Clause("IR-annotation", "%s['typ'] == log_to_code_results[0].rstrip('\\n') and log_to_code_args[0][0] is function_def.returns and ('default' in %s) == False" % (_RT, _RT),
               when=["annotated,no-return"], note="the annotation is the return type; no default is invented"),
        Clause("IR-name-kept", "result['name'] == old_intermediate_repr['name']", note="frame"),
    ],
    canaries=["'returns' in result", "result['name'] == ''"],
)
interpolate_return.opaque = {"to_code": {"ret": "str"}}
CONTRACTS.append(interpolate_return)
