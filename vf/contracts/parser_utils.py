"""Sidecar contracts for doctrans/parser_utils.py: ir_merge and _join_non_none (C07.D2-D4)."""
from vf.pyvc.verify import Case, Clause, Contract


def _p(doc="str", typ="str", default="int"):
    d = {"doc": doc}
    if typ is not None:
        d["typ"] = typ
    if default != "<absent>":
        d["default"] = default
    return ("dict", d)


def _ir(params, returns=None):
    return ("dict", {"params": ("dict", params), "returns": returns})


_T_B_VARIANTS = {
    "typ-none,default-absent": _p("str", ("lit", None), "<absent>"),
    "typ-str,default-None": _p("str", "str", ("lit", None)),
    "typ-str,default-int": _p("str", "str", "int"),
    "typ-none,default-NoneStr": _p("str", ("lit", None), ("lit", "```(None)```")),
}
_O_B = _p("str", "str", "int")

_cases = []
for _k, _tb in _T_B_VARIANTS.items():
    _cases.append(Case("shared[%s]" % _k, {
        "target": _ir({"a": _p(), "b": _tb}),
        "other": _ir({"b": _O_B, "c": _p(), "d": _p("str", ("lit", None), "<absent>")}),
    }))
_cases.append(Case("target-empty", {"target": _ir({}), "other": _ir({"b": _O_B, "c": _p()})}))
_cases.append(Case("other-empty", {"target": _ir({"a": _p(), "b": _p()}), "other": _ir({})}))
_SHARED = [c.name for c in _cases if c.name.startswith("shared")]
_TB = "old_target['params']['b']"
_OB = "old_other['params']['b']"

ir_merge = Contract(
    "doctrans.parser_utils:ir_merge",
    properties=["C07", "C12"],
    note="key shapes are enumerated (target {a, b} / other {b, c, d} and the empty cases), every value is symbolic; the `&` loop is executed in one "
         "order, which is justified by the audit obligation unordered[parser_utils:ir_merge@other_params.keys() & target_params.keys()] "
         "(per-key local writes over an intersection of key views)",
    cases=_cases,
    ensures=[
        Clause("M0", "result is target", note="the target IR is returned (updated in place)"),
        Clause("M1", "list(result['params'].keys()) == ['a', 'b', 'c', 'd']", when=_SHARED,
               note="C07.D2: keys of the target in order, then the keys of the other IR that the target lacks, in the other's order: none dropped, none twice"),
        Clause("M2-doc", "result['params']['b']['doc'] == (%s['doc'] if len(%s['doc']) > 0 else %s['doc'])" % (_TB, _TB, _OB), when=_SHARED,
               note="C07.D3: documented prose wins; the other's prose fills a gap"),
        Clause("M2-typ", "result['params']['b']['typ'] == %s['typ']" % _TB, when=["shared[typ-str,default-None]", "shared[typ-str,default-int]"],
               note="C07.D3: a documented type wins"),
        Clause("M2-typ-gap", "(len(%s['typ']) > 0 and result['params']['b']['typ'] == %s['typ']) or (len(%s['typ']) == 0 and result['params']['b']['typ'] is None)" % (_OB, _OB, _OB),
               when=["shared[typ-none,default-absent]", "shared[typ-none,default-NoneStr]"], note="C07.D3: the signature's annotation fills a missing type"),
        Clause("M2-default-kept", "result['params']['b']['default'] == %s['default']" % _TB, when=["shared[typ-str,default-int]"],
               note="an explicit documented default is kept"),
        Clause("M2-default-filled", "result['params']['b']['default'] == %s['default']" % _OB,
               when=["shared[typ-none,default-absent]", "shared[typ-str,default-None]", "shared[typ-none,default-NoneStr]"],
               note="a missing / None default is filled from the signature"),
        Clause("M3", "result['params']['c'] is other['params']['c'] and result['params']['d'] is other['params']['d'] and result['params']['a'] is target['params']['a']",
               when=_SHARED, note="parameters only one side knows are carried as they are"),
        Clause("M4", "result['params'] is other['params']", when=["target-empty"], note="nothing documented: the signature's parameters are taken over"),
        Clause("M5", "list(result['params'].keys()) == ['a', 'b'] and unchanged(result['params'], old_target['params'])", when=["other-empty"]),
        Clause("M-frame-other", "unchanged(other['params'], old_other['params'])", note="the other IR's parameters are not modified"),
    ],
    canaries=["result['params']['b']['doc'] == %s['doc']" % _TB],
)
ir_merge.allow_unordered = True

_J = ("dict", {"typ": "str", "doc": ("lit", None)})
join_non_none = Contract(
    "doctrans.parser_utils:_join_non_none",
    properties=["C07", "C12"],
    note="key shapes enumerated; the frozenset loop is executed in one order, justified by per-key local writes (audit) - the key ORDER inside the "
         "returned parameter dict is the listed assumption of C12",
    cases=[
        Case("both", {"primacy": ("dict", {"typ": "str", "doc": ("lit", None)}), "other": ("dict", {"typ": "str", "doc": "str", "default": "int"})}),
        Case("primacy-empty", {"primacy": ("dict", {}), "other": ("dict", {"typ": "str"})}),
        Case("other-empty", {"primacy": ("dict", {"typ": "str"}), "other": ("dict", {})}),
    ],
    ensures=[
        Clause("J1", "result is primacy and result['typ'] == old_primacy['typ'] and result['doc'] == other['doc'] and result['default'] == other['default']",
               when=["both"], note="values the primary dict has win; None / missing ones are taken from the other"),
        Clause("J2", "result is other", when=["primacy-empty"]),
        Clause("J3", "result is primacy and unchanged(result, old_primacy)", when=["other-empty"]),
        Clause("J-frame", "unchanged(other, old_other)", note="the other dict is not modified"),
    ],
    canaries=["result is other"],
)
join_non_none.allow_unordered = True

CONTRACTS = [ir_merge, join_non_none]
