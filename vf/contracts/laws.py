"""
Laws: small sidecar functions that *compose real repo functions*; the symbolic executor runs them on the
real source of the callees (inlined), so an algebraic law (idempotence, inverse) is an ordinary contract.
The bodies below are executed symbolically AND by CPython (bounded companion).
"""
from doctrans.defaults_utils import set_default_doc
from doctrans.pure_utils import quote, unquote


def quote_twice(s):
    return quote(quote(s)), quote(s)


def unquote_quote(s):
    return unquote(quote(s))


def sdd_twice(name, p):
    """set_default_doc applied twice vs once (on the same dict object, as the emitters do)"""
    r1 = set_default_doc((name, p), emit_default_doc=True)
    once = dict(r1[1])
    r2 = set_default_doc((name, r1[1]), emit_default_doc=True)
    return once, r2[1]
