"""
Laws: small sidecar functions that *compose real repo functions*; the symbolic executor runs them on the
real source of the callees (inlined), so an algebraic law (idempotence, inverse) is an ordinary contract.
The bodies below are executed symbolically AND by CPython (bounded companion).
"""
from doctrans.defaults_utils import set_default_doc
from doctrans.pure_utils import quote, unquote


def quote_twice(s):
    return quote(quote(s)), quote(s)


def unquote_quote(s):
    return unquote(quote(s))


def sdd_twice(name, p):
    """set_default_doc applied twice vs once (on the same dict object, as the emitters do)"""
    r1 = set_default_doc((name, p), emit_default_doc=True)
    once = dict(r1[1])
    r2 = set_default_doc((name, r1[1]), emit_default_doc=True)
    return once, r2[1]


def argparse_option_roundtrip(param):
    """C04, one option: render the entry as an add_argument statement, read that statement back"""
    from doctrans.ast_utils import param2argparse_param
    from doctrans.emitter_utils import parse_out_param

    stmt = param2argparse_param(param, word_wrap=False, emit_default_doc=False)
    return parse_out_param(stmt, require_default=False, emit_default_doc=False)


def class_attribute_roundtrip(param):
    """C02, one attribute: render the entry as an annotated assignment inside a class, read the class back"""
    from ast import ClassDef

    from doctrans.ast_utils import param2ast
    from doctrans.parse import class_ as parse_class

    node = ClassDef(name="C", bases=[], keywords=[], body=[param2ast(param)], decorator_list=[], expr=None, identifier_name=None)
    return parse_class(node)


def function_signature_roundtrip(ir, kwonly):
    """C03, the signature half: emit a def from the description, read the def's signature back (the docstring half goes through the docstring codec)"""
    from doctrans.emit import function as emit_function
    from doctrans.parse import function as parse_function

    fd = emit_function(ir, function_name=None, function_type="static", emit_default_doc=False, inline_types=True, emit_as_kwonlyargs=kwonly)
    return parse_function(fd)


def function_body_roundtrip(function_def):
    """C16: parse a def, emit it again: the body statements are carried"""
    from doctrans.emit import function as emit_function
    from doctrans.parse import function as parse_function

    ir = parse_function(function_def)
    return emit_function(ir, function_name=None, function_type=None, emit_default_doc=False, inline_types=True, emit_as_kwonlyargs=False)


def call_body_roundtrip(function_def):
    """C16, the __call__ path: parse a def, emit it as a class with emit_call=True: the body is re-homed into __call__"""
    from doctrans.emit import class_ as emit_class
    from doctrans.parse import function as parse_function

    ir = parse_function(function_def)
    return emit_class(ir, emit_call=True, class_name="C")


def replace_at_location(module, search, replacement):
    """C15 / C11 / C14: annotate a module, replace the node at a dotted location: exactly the addressed node changes"""
    from doctrans.ast_utils import RewriteAtQuery, annotate_ancestry

    annotate_ancestry(module)
    rewriter = RewriteAtQuery(search=search, replacement_node=replacement)
    out = rewriter.visit(module)
    return out, rewriter.replaced


def sync_one_property(input_module, output_module, output_param):
    """C14: copy the node at Cfg.x of the input module over the node at <output_param> of the output module (annotated, as ast_parse leaves it)"""
    from doctrans.ast_utils import annotate_ancestry
    from doctrans.sync_properties import sync_property

    annotate_ancestry(output_module)
    return sync_property(False, "Cfg.x", input_module, "input.py", output_param, None, output_module)


def argparse_function_roundtrip(ir):
    """C04, whole description: emit the argparse function, read it back"""
    from doctrans.emit import argparse_function
    from doctrans.parse import argparse_ast

    fd = argparse_function(ir, emit_default_doc=False, function_name="set_cli_args", function_type="static", word_wrap=False)
    return argparse_ast(fd, function_name="set_cli_args")


def class_roundtrip(ir):
    """C02, whole description: emit the class, read it back (the docstring text is opaque: what comes back is what the attributes carry)"""
    from doctrans.emit import class_ as emit_class
    from doctrans.parse import class_ as parse_class

    return parse_class(emit_class(ir, class_name="C", emit_default_doc=False, word_wrap=False))


def chain_class_argparse(ir):
    """C05, one chain: description -> class -> description -> argparse function -> description"""
    from doctrans.emit import argparse_function
    from doctrans.emit import class_ as emit_class
    from doctrans.parse import argparse_ast
    from doctrans.parse import class_ as parse_class

    mid = parse_class(emit_class(ir, class_name="C", emit_default_doc=False, word_wrap=False))
    fd = argparse_function(mid, emit_default_doc=False, function_name="set_cli_args", function_type="static", word_wrap=False)
    return argparse_ast(fd, function_name="set_cli_args")


def chain_argparse_class(ir):
    """C05, one chain: description -> argparse function -> description -> class -> description"""
    from doctrans.emit import argparse_function
    from doctrans.emit import class_ as emit_class
    from doctrans.parse import argparse_ast
    from doctrans.parse import class_ as parse_class

    fd = argparse_function(ir, emit_default_doc=False, function_name="set_cli_args", function_type="static", word_wrap=False)
    mid = argparse_ast(fd, function_name="set_cli_args")
    return parse_class(emit_class(mid, class_name="C", emit_default_doc=False, word_wrap=False))


def chain_class_function(ir):
    """C05, one chain: description -> class -> description -> function -> description (signature half)"""
    from doctrans.emit import class_ as emit_class
    from doctrans.emit import function as emit_function
    from doctrans.parse import class_ as parse_class
    from doctrans.parse import function as parse_function

    mid = parse_class(emit_class(ir, class_name="C", emit_default_doc=False, word_wrap=False))
    fd = emit_function(mid, function_name="f", function_type="static", emit_default_doc=False, inline_types=True, emit_as_kwonlyargs=True)
    return parse_function(fd)


def _hop(kind, ir):
    """one emit/parse hop of the given kind (helpers for the chain laws below)"""
    from doctrans.emit import argparse_function
    from doctrans.emit import class_ as emit_class
    from doctrans.emit import function as emit_function
    from doctrans.parse import argparse_ast
    from doctrans.parse import class_ as parse_class
    from doctrans.parse import function as parse_function

    if kind == "class":
        return parse_class(emit_class(ir, class_name="C", emit_default_doc=False, word_wrap=False))
    if kind == "function":
        return parse_function(emit_function(ir, function_name="f", function_type="static", emit_default_doc=False, inline_types=True, emit_as_kwonlyargs=True))
    return argparse_ast(argparse_function(ir, emit_default_doc=False, function_name="set_cli_args", function_type="static", word_wrap=False), function_name="set_cli_args")


def chain_function_class(ir):
    return _hop("class", _hop("function", ir))


def chain_argparse_function(ir):
    return _hop("function", _hop("argparse", ir))


def class_roundtrip_documented(ir):
    """as class_roundtrip; verified with the class docstring PRESENT and the docstring parser answering an arbitrary description of the same parameters"""
    from doctrans.emit import class_ as emit_class
    from doctrans.parse import class_ as parse_class

    return parse_class(emit_class(ir, class_name="C", emit_default_doc=False, word_wrap=False))


def function_roundtrip_documented(ir, kwonly):
    """as function_signature_roundtrip; verified with the def's docstring PRESENT and the docstring parser answering an arbitrary description of the same parameters"""
    from doctrans.emit import function as emit_function
    from doctrans.parse import function as parse_function

    fd = emit_function(ir, function_name=None, function_type="static", emit_default_doc=False, inline_types=True, emit_as_kwonlyargs=kwonly)
    return parse_function(fd)



# the same chains, verified on the path the emitted (documented) artefacts really take: see contracts/parse.py `_chain_documented`
def chain_class_function_documented(ir):
    return _hop("function", _hop("class", ir))


def chain_function_class_documented(ir):
    return _hop("class", _hop("function", ir))


def chain_function_argparse_documented(ir):
    return _hop("argparse", _hop("function", ir))


def chain_class_argparse_documented(ir):
    return _hop("argparse", _hop("class", ir))


def chain_argparse_class_documented(ir):
    return _hop("class", _hop("argparse", ir))


def chain_argparse_function_documented(ir):
    return _hop("function", _hop("argparse", ir))


def argparse_function_roundtrip_documented(ir):
    """as argparse_function_roundtrip; verified with the emitted function's docstring PRESENT (the parser then skips the first statement)"""
    from doctrans.emit import argparse_function
    from doctrans.parse import argparse_ast

    fd = argparse_function(ir, emit_default_doc=False, function_name="set_cli_args", function_type="static", word_wrap=False)
    return argparse_ast(fd, function_name="set_cli_args")
