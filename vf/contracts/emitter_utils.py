"""Sidecar contracts for doctrans/emitter_utils.py: parse_out_param (C04.D2)."""
from vf.pyvc.verify import Case, Clause, Contract


def _const(v):
    return ("node", "ast.Constant", {"value": v, "kind": None})


def _kw(arg, value):
    return ("node", "ast.keyword", {"arg": ("lit", arg), "value": value})


def _expr(keywords):
    return ("node", "ast.Expr", {"value": ("node", "ast.Call", {
        "func": ("node", "ast.Attribute", {"attr": ("lit", "add_argument"), "value": ("node", "ast.Name", {"id": ("lit", "argument_parser")})}),
        "args": ("list", [_const("str")]),
        "keywords": ("list", keywords),
    })})


_T_INT = _kw("type", ("node", "ast.Name", {"id": ("lit", "int")}))
_HELP = _kw("help", _const("str"))


def _case(name, kws, require_default=False, assume=()):
    return Case(name, {"expr": _expr(kws), "require_default": require_default, "emit_default_doc": False},
                assume=["len(expr.value.args[0].value) >= 2"] + list(assume))


_NAME = "expr.value.args[0].value[2:]"
_NO_ANN = ["all(forall(lambda j: casefold(expr.value.keywords[1].value.value[j:j + len(t)]) != casefold(t), 0, len(expr.value.keywords[1].value.value) + 1) "
           "for t in ('defaults to ', 'defaults to\\n', 'Default value is ', 'Default:'))"]

parse_out_param = Contract(
    "doctrans.emitter_utils:parse_out_param",
    properties=["C04", "C05"],
    note="add_argument(...) calls with the keyword sets the argparse emitter produces for int options; the help text announces no default "
         "(extract_default is applied by contract); choices / action keywords are outside this contract",
    cases=[
        _case("int,required,default", [_T_INT, _HELP, _kw("required", _const(("lit", True))), _kw("default", _const("int"))]),
        _case("int,optional,default", [_T_INT, _HELP, _kw("default", _const("int"))]),
        _case("int,required,nodefault", [_T_INT, _HELP, _kw("required", _const(("lit", True)))], assume=_NO_ANN),
        _case("int,optional,nodefault", [_T_INT, _HELP], assume=_NO_ANN),
        _case("int,optional,nodefault,carry", [_T_INT, _HELP], require_default=True, assume=_NO_ANN),
    ],
    use_contract_for=["doctrans.defaults_utils:extract_default"],
    ensures=[
        Clause("PO-name", "result[0] == %s" % _NAME, note="the option name without the leading dashes"),
        Clause("PO-default-kept", "result[1]['default'] == expr.value.keywords[-1].value.value and typeis(result[1]['default'], 'int')",
               when=["int,required,default", "int,optional,default"],
               note="C04.D2: an explicit default is returned with its value and type - zero included - whether or not the option is required"),
        Clause("PO-typ-required", "result[1]['typ'] == 'int'", when=["int,required,default", "int,required,nodefault"], note="required <-> plain type"),
        Clause("PO-typ-optional", "result[1]['typ'] == 'Optional[int]'", when=["int,optional,default", "int,optional,nodefault", "int,optional,nodefault,carry"],
               note="not required <-> Optional[...]"),
        Clause("PO-zero", "result[1]['default'] == 0", when=["int,required,nodefault"], note="N_argparse: a required option without default acquires the zero value"),
        Clause("PO-none", "result[1]['default'] == '```(None)```'", when=["int,optional,nodefault,carry"],
               note="once an earlier option had a default, an optional one without default reads as None"),
        Clause("PO-doc", "result[1]['doc'] == expr.value.keywords[1].value.value", note="the help text is the prose (no default text requested)"),
    ],
    canaries=["result[1]['default'] == 0"],
)

CONTRACTS = [parse_out_param]


# ------------------------------------------------------------------------------------------- _make_call_meth (C16: the __call__ path)
_ST1 = ("node", "ast.Pass", {})
_ST2 = ("node", "ast.Expr", {"value": ("node", "ast.Constant", {"value": 1, "kind": None})})
_STR_ = ("node", "ast.Return", {"value": ("node", "ast.Constant", {"value": 0, "kind": None})})

make_call_meth = Contract(
    "doctrans.emitter_utils:_make_call_meth",
    properties=["C16"],
    note="list bodies of 0..3 statements (the dict form - a bare return entry - is outside this contract); fix_missing_locations is the identity on structure",
    cases=[Case("body=%d" % n, {"body": ("list", [_ST1, _ST2, _STR_][:n]), "return_type": None, "param_names": ("tuple", ["str"]),
                                "docstring_format": ("lit", "rest"), "word_wrap": True}) for n in range(4)],
    ensures=[
        Clause("MC-none", "result is None", when=["body=0"], note="no body, no __call__"),
        Clause("MC-call", "typeis(result, 'FunctionDef') and result.name == '__call__' and [a.arg for a in result.args.args] == ['self'] "
                          "and result.args.kwonlyargs == [] and result.args.vararg is None and result.args.kwarg is None",
               when=["body=1", "body=2", "body=3"], note="a method __call__(self)"),
        Clause("MC-body", "result.body is body and unchanged(body, old_body)", when=["body=1", "body=2", "body=3"],
               note="C16: the carried statements are the method's body - same statements, same order, none added or dropped"),
    ],
    canaries=["result is None"],
)
CONTRACTS.append(make_call_meth)

# ------------------------------------------------------------------------------------------- _handle_keyword (C04: choices -> Literal[...])
def _kw(n):
    return ("node", "ast.keyword", {"arg": ("lit", "choices"),
                                    "value": ("node", "ast.Tuple", {"elts": ("list", [("node", "ast.Constant", {"value": "str", "kind": None}) for _ in range(n)]),
                                                                    "ctx": ("node", "ast.Load", {})})})


handle_keyword = Contract(
    "doctrans.emitter_utils:_handle_keyword",
    properties=["C04"],
    note="choices tuples of 1..3 string constants with typ 'str'; (non-str scalar types and Union are separate cases below)",
    cases=[Case("str,choices=%d" % n, {"keyword": _kw(n), "typ": ("lit", "str")}) for n in (1, 2, 3)]
    + [Case("int,choices=2", {"keyword": ("node", "ast.keyword", {"arg": ("lit", "choices"), "value": ("node", "ast.Tuple", {
        "elts": ("list", [("node", "ast.Constant", {"value": "int", "kind": None}) for _ in range(2)]), "ctx": ("node", "ast.Load", {})})}), "typ": ("lit", "int")})],
    ensures=[
        Clause("HK-1", "result == \"Literal['\" + keyword.value.elts[0].value + \"']\"", when=["str,choices=1"],
               note="C04: every string choice is written between single quotes - whatever the text is (empty, or itself a quote character)"),
        Clause("HK-2", "result == \"Literal['\" + keyword.value.elts[0].value + \"', '\" + keyword.value.elts[1].value + \"']\"", when=["str,choices=2"]),
        Clause("HK-3", "result == \"Literal['\" + keyword.value.elts[0].value + \"', '\" + keyword.value.elts[1].value + \"', '\" + keyword.value.elts[2].value + \"']\"",
               when=["str,choices=3"], note="all choices, in order, none dropped"),
        Clause("HK-int", "result == 'Literal[' + str(keyword.value.elts[0].value) + ', ' + str(keyword.value.elts[1].value) + ']'", when=["int,choices=2"],
               note="C04: numeric choices are written as numbers (the pinned tree raised TypeError here: fixed)"),
        Clause("HK-frame", "unchanged(keyword, old_keyword)"),
    ],
    canaries=["result == ''"],
)
CONTRACTS.append(handle_keyword)

# ------------------------------------------------------------------------------------------- to_docstring (C03 / C02: the docstring of emitted functions and classes)
def _td_ir(n, returns=False):
    d = {"name": "str", "doc": "str", "params": ("dict", {"p%d" % i: ("dict", {"typ": "str", "doc": "str"}) for i in range(n)}),
         "returns": ("dict", {"return_type": ("dict", {"typ": "str", "doc": "str"})}) if returns else None}
    return ("dict", d)


def _td_case(name, ir, emit_types, assume=()):
    return Case(name, {"intermediate_repr": ir, "emit_default_doc": False, "docstring_format": ("lit", "rest"), "indent_level": 2, "emit_types": emit_types,
                       "emit_separating_tab": True, "word_wrap": False},
                assume=["intermediate_repr['doc'] != ''", "('\\n' in intermediate_repr['doc']) == False"] + list(assume))


_NOD = ["intermediate_repr['params']['p0']['doc'] != ''", "('Defaults' in intermediate_repr['params']['p0']['doc']) == False", "('defaults' in intermediate_repr['params']['p0']['doc']) == False",
        "intermediate_repr['params']['p0']['typ'] != ''"]
_SEP = "'        '"

to_docstring = Contract(
    "doctrans.emitter_utils:to_docstring",
    properties=["C03", "C02", "C08"],
    note="ReST, no word wrap, indent level 2, default text off, prose without a default sentence; emit_param_str, multiline, indent_all_but_first and textwrap.indent are "
         "opaque and logged: the contract pins which entries are rendered, in which order, and how they are joined",
    cases=[_td_case("one-param,types", _td_ir(1), True, _NOD), _td_case("one-param,no-types", _td_ir(1), False, _NOD), _td_case("no-params", _td_ir(0), True),
           _td_case("one-param,default", ("dict", {"name": "str", "doc": "str", "params": ("dict", {"p0": ("dict", {"typ": "str", "doc": "str", "default": "int"})}), "returns": None}),
                    False, ["intermediate_repr['params']['p0']['doc'] != ''"]),
           _td_case("return,default", ("dict", {"name": "str", "doc": "str", "params": ("dict", {}),
                                                "returns": ("dict", {"return_type": ("dict", {"typ": "str", "doc": "str", "default": "int"})})}),
                    False, ["intermediate_repr['returns']['return_type']['doc'] != ''"])],
    ghosts={"~doc, default = extract_default(": [("g_announced", "default")]},
    use_contract_for=["doctrans.defaults_utils:extract_default", "doctrans.defaults_utils:needs_quoting"],
    ensures=[
        Clause("TD-header", "result[:1] == '\\n' and log_indent_args[0][0] == old_intermediate_repr['doc'] and log_indent_args[0][1] == %s" % _SEP,
               note="the summary, indented by the level's separator, opens the docstring"),
        Clause("TD-entry-types", "log_emit_param_str_n == 2 and log_emit_param_str_args[0][0][0] == 'p0' and log_emit_param_str_kwargs[0]['emit_type'] == False "
                                 "and log_emit_param_str_args[1][0][0] == 'p0' and log_emit_param_str_kwargs[1]['emit_doc'] == False "
                                 "and result == '\\n' + log_indent_results[0] + '\\n' + %s + '\\n' + %s + log_emit_param_str_results[0].replace('\\n', '\\n' + %s) + '\\n' + %s + log_emit_param_str_results[1].replace('\\n', '\\n' + %s) + '\\n' + %s + '\\n' + %s" % (_SEP, _SEP, _SEP, _SEP, _SEP, _SEP, _SEP),
               when=["one-param,types"], note="C03 (types in the docstring): the prose line, then the type line of the same parameter, each on its own indented line"),
        Clause("TD-entry-no-types", "log_emit_param_str_n == 1 and log_emit_param_str_kwargs[0]['emit_type'] == False", when=["one-param,no-types"],
               note="inline types: no :type line is rendered"),
        Clause("TD-frame", "list(intermediate_repr['params'].keys()) == ['p0'] and intermediate_repr['params']['p0']['typ'] == old_intermediate_repr['params']['p0']['typ'] "
                           "and (g_announced is not None or (intermediate_repr['params']['p0']['default'] == old_intermediate_repr['params']['p0']['default'] "
                           "and typeis(intermediate_repr['params']['p0']['default'], 'int')))", when=["one-param,default"],
               note="what to_docstring does to the description it is handed (the emitters hand it their own copy and read that copy afterwards): names and types stay; "
                    "the default is rewritten ONLY when the prose itself announces one (extract_default returned a value) - the frame the round-trip laws assume of it"),
        Clause("TD-frame-return", "list(intermediate_repr['returns'].keys()) == ['return_type'] and intermediate_repr['returns']['return_type']['typ'] == old_intermediate_repr['returns']['return_type']['typ'] "
                                  "and (g_announced is not None or (intermediate_repr['returns']['return_type']['default'] == old_intermediate_repr['returns']['return_type']['default'] "
                                  "and typeis(intermediate_repr['returns']['return_type']['default'], 'int')))", when=["return,default"],
               note="the same frame for the return entry (seed C13-5 lives on it: whoever hands to_docstring a shared return entry shares these writes)"),
        Clause("TD-no-params", "log_emit_param_str_n == 0 and result == '\\n' + log_indent_results[0] + '\\n' + %s" % _SEP, when=["no-params"], note="no entry is invented"),
    ],
    canaries=["result == ''"],
)
to_docstring.opaque = {"emit_param_str": {"ret": "str"}, "multiline": {"ret": "str"}, "indent_all_but_first": {"ret": "str"}, "indent": {"ret": "str"}}
CONTRACTS.append(to_docstring)
