"""Sidecar contracts for doctrans/emit.py (cut-point contracts on the emitters' preambles)."""
from vf.pyvc.verify import Case, Clause, Contract

_P = ("dict", {"typ": "str", "doc": "str"})
_R = ("dict", {"return_type": ("dict", {"typ": "str", "doc": "str", "default": "str"})})


def _ir(n_params, returns, body=None):
    d = {"name": "str", "doc": "str", "params": ("dict", {"p%d" % i: _P for i in range(n_params)})}
    if returns:
        d["returns"] = _R
    if returns is None:
        d["returns"] = None
    return ("dict", d)


_CUT = "internal_body = intermediate_repr.get("
_CASES = [
    Case("params=2,returns", {"intermediate_repr": _ir(2, True)}, stop_after=_CUT),
    Case("params=1,returns", {"intermediate_repr": _ir(1, True)}, stop_after=_CUT),
    Case("params=0,returns", {"intermediate_repr": _ir(0, True)}, stop_after=_CUT),
    Case("params=2,no-returns", {"intermediate_repr": _ir(2, False)}, stop_after=_CUT),
    Case("params=2,returns-None", {"intermediate_repr": _ir(2, None)}, stop_after=_CUT),
]
_WITH = [c.name for c in _CASES if c.name.endswith(",returns")]
_WITHOUT = [c.name for c in _CASES if not c.name.endswith(",returns")]

class_preamble = Contract(
    "doctrans.emit:class_",
    properties=["C16", "C13", "C09"],
    note="cut point after the return entry is folded into the class attributes (the construction of the ClassDef is outside the verified subset; "
         "bounded rt_class / C16 bodies cover it); descriptions with 0-2 parameters, with / without / with a None return entry",
    cases=_CASES,
    ghosts={_CUT: [("g_names", "param_names"), ("g_ir", "intermediate_repr"), ("g_keys", "list(intermediate_repr['params'].keys())")]},
    ensures=[
        Clause("CL-names", "g_names == frozenset(old_intermediate_repr['params'].keys())",
               note="C16: the names rewritten to self.<name> inside a carried body are exactly the parameters of the description - never the return entry"),
        Clause("CL-folded", "g_keys == list(old_intermediate_repr['params'].keys()) + ['return_type'] and ('returns' in g_ir) == False "
                            "and unchanged(g_ir['params']['return_type'], old_intermediate_repr['returns']['return_type'])", when=_WITH,
               note="the return entry becomes the last class attribute, unchanged"),
        Clause("CL-not-folded", "g_keys == list(old_intermediate_repr['params'].keys())", when=_WITHOUT),
        Clause("CL-frame", "unchanged(intermediate_repr, old_intermediate_repr) and (g_ir is intermediate_repr) == False",
               note="C13: the caller's description is not touched - the emitter works on its own deep copy"),
    ],
    canaries=["len(g_keys) == 2"],
)



def _cls_witness(case, vals, gvals):
    """the counter-model's strings are arbitrary; the emitter needs type strings that parse: retry with ordinary ones"""
    spec = case.params["intermediate_repr"][1]
    ir = {"name": "f", "doc": "d", "params": {k: {"typ": "str", "doc": "the " + k} for k in spec["params"][1]}}
    if "returns" in spec:
        ir["returns"] = None if spec["returns"] is None else {"return_type": {"typ": "str", "doc": "the result", "default": "ok"}}
    return [{"intermediate_repr": ir}]


class_preamble.witness = _cls_witness
CONTRACTS = [class_preamble]
