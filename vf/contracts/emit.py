"""Sidecar contracts for doctrans/emit.py (cut-point contracts on the emitters' preambles)."""
from vf.pyvc.verify import Case, Clause, Contract

_P = ("dict", {"typ": "str", "doc": "str"})
_R = ("dict", {"return_type": ("dict", {"typ": "str", "doc": "str", "default": "str"})})


def _ir(n_params, returns, body=None):
    d = {"name": "str", "doc": "str", "params": ("dict", {"p%d" % i: _P for i in range(n_params)})}
    if returns:
        d["returns"] = _R
    if returns is None:
        d["returns"] = None
    return ("dict", d)


_CUT = "internal_body = intermediate_repr.get("
_CASES = [
    Case("params=2,returns", {"intermediate_repr": _ir(2, True)}, stop_after=_CUT),
    Case("params=1,returns", {"intermediate_repr": _ir(1, True)}, stop_after=_CUT),
    Case("params=0,returns", {"intermediate_repr": _ir(0, True)}, stop_after=_CUT),
    Case("params=2,no-returns", {"intermediate_repr": _ir(2, False)}, stop_after=_CUT),
    Case("params=2,returns-None", {"intermediate_repr": _ir(2, None)}, stop_after=_CUT),
]
_WITH = [c.name for c in _CASES if c.name.endswith(",returns")]
_WITHOUT = [c.name for c in _CASES if not c.name.endswith(",returns")]

class_preamble = Contract(
    "doctrans.emit:class_",
    properties=["C16", "C13", "C09"],
    note="cut point after the return entry is folded into the class attributes (the construction of the ClassDef is outside the verified subset; "
         "bounded rt_class / C16 bodies cover it); descriptions with 0-2 parameters, with / without / with a None return entry",
    cases=_CASES,
    ghosts={_CUT: [("g_names", "param_names"), ("g_ir", "intermediate_repr"), ("g_keys", "list(intermediate_repr['params'].keys())")]},
    ensures=[
        Clause("CL-names", "g_names == frozenset(old_intermediate_repr['params'].keys())",
               note="C16: the names rewritten to self.<name> inside a carried body are exactly the parameters of the description - never the return entry"),
        Clause("CL-folded", "g_keys == list(old_intermediate_repr['params'].keys()) + ['return_type'] and ('returns' in g_ir) == False "
                            "and unchanged(g_ir['params']['return_type'], old_intermediate_repr['returns']['return_type'])", when=_WITH,
               note="the return entry becomes the last class attribute, unchanged"),
        Clause("CL-not-folded", "g_keys == list(old_intermediate_repr['params'].keys())", when=_WITHOUT),
        Clause("CL-frame", "unchanged(intermediate_repr, old_intermediate_repr) and (g_ir is intermediate_repr) == False",
               note="C13: the caller's description is not touched - the emitter works on its own deep copy"),
    ],
    canaries=["len(g_keys) == 2"],
)



def _cls_witness(case, vals, gvals):
    """the counter-model's strings are arbitrary; the emitter needs type strings that parse: retry with ordinary ones"""
    spec = case.params["intermediate_repr"][1]
    ir = {"name": "f", "doc": "d", "params": {k: {"typ": "str", "doc": "the " + k} for k in spec["params"][1]}}
    if "returns" in spec:
        ir["returns"] = None if spec["returns"] is None else {"return_type": {"typ": "str", "doc": "the result", "default": "ok"}}
    return [{"intermediate_repr": ir}]


class_preamble.witness = _cls_witness
CONTRACTS = [class_preamble]

# ------------------------------------------------------------------------------------------- emit.function (C03 / C16 / C06: the whole constructor)
_FN_OPAQUE = {"to_docstring": {"ret": "str", "havoc_prose": True}, "ast_parse_fix": {"ret": ("obj", "ast.expr")}, "ast.parse": {"ret": ("obj", "ast.Module")}}
_S1 = ("node", "ast.Pass", {})
_S2 = ("node", "ast.Expr", {"value": ("node", "ast.Constant", {"value": 1, "kind": None})})
_SR = ("node", "ast.Return", {"value": ("node", "ast.Constant", {"value": 0, "kind": None})})


def _fn_ir(body=None, ret=None, kwargs=False):
    params = {"p0": ("dict", {"typ": ("lit", "int"), "doc": "str", "default": "int"}), "p1": ("dict", {"typ": "str", "doc": "str"})}
    if kwargs:
        params["kwargs"] = ("dict", {"typ": ("lit", "Optional[dict]"), "doc": "str", "default": ("lit", "```(None)```")})
    d = {"name": "str", "type": ("lit", "static"), "doc": "str", "params": ("dict", params)}
    if body is not None:
        d["_internal"] = ("dict", {"body": ("list", body), "from_name": "str", "from_type": ("lit", "static")})
    if ret == "default":
        d["returns"] = ("dict", {"return_type": ("dict", {"typ": "str", "doc": "str", "default": "str"})})
    elif ret == "nodefault":
        d["returns"] = ("dict", {"return_type": ("dict", {"typ": "str", "doc": "str"})})
    elif ret == "none":
        d["returns"] = None
    return ("dict", d)


def _fn_case(name, ir, ftype=("lit", "static"), kwonly=True, inline=True, assume=()):
    return Case(name, {"intermediate_repr": ir, "function_name": None, "function_type": ftype, "word_wrap": True, "emit_default_doc": False,
                       "docstring_format": ("lit", "rest"), "indent_level": 2, "emit_separating_tab": True, "inline_types": inline,
                       "emit_as_kwonlyargs": kwonly},
                assume=["intermediate_repr['name'] != ''", "intermediate_repr['params']['p1']['typ'] not in ('int', 'float', 'complex', 'str', 'bool')"] + list(assume))


_CARRY = "intermediate_repr['_internal']['from_name'] == intermediate_repr['name']"
_FN_CASES = [
    _fn_case("plain", _fn_ir()),
    _fn_case("plain,positional", _fn_ir(), kwonly=False),
    _fn_case("plain,method", _fn_ir(), ftype=("lit", "self"), kwonly=False),
    _fn_case("plain,docstring-types", _fn_ir(), inline=False),
    _fn_case("kwargs", _fn_ir(kwargs=True)),
    _fn_case("body,no-return-entry", _fn_ir(body=[_S1, _S2]), assume=[_CARRY]),
    _fn_case("body-ends-in-return,no-return-entry", _fn_ir(body=[_S1, _SR]), assume=[_CARRY]),
    _fn_case("body-ends-in-return,return-default", _fn_ir(body=[_S1, _SR], ret="default"), assume=[_CARRY, "intermediate_repr['returns']['return_type']['default'] != ''"]),
    _fn_case("body-ends-in-return,return-nodefault", _fn_ir(body=[_S1, _SR], ret="nodefault"), assume=[_CARRY]),
    _fn_case("body,other-name", _fn_ir(body=[_S1, _SR]), assume=["not (%s)" % _CARRY]),
    _fn_case("returns-None", _fn_ir(ret="none")),
]
_ALL = [c.name for c in _FN_CASES]
_KWONLY = [c.name for c in _FN_CASES if c.params["emit_as_kwonlyargs"] is True]
_B = "old_intermediate_repr['_internal']['body']"
_SVD = "(D[1:-1] if len(D) > 2 and D[0] == D[-1] and D[0] in ('\"', \"'\") else D)".replace("D", "log_to_docstring_results[0]")

emit_function = Contract(
    "doctrans.emit:function",
    properties=["C03", "C16", "C06", "C13"],
    note="a description with an int parameter (with default) and a parameter of a non-scalar type (no default), optionally **kwargs, a carried body of two "
         "statements and a return entry; to_docstring, ast_parse_fix and ast.parse are opaque and logged (their results are the docstring text and the parsed "
         "type / return expressions); set_value, set_arg, get_internal_body are inlined",
    cases=_FN_CASES,
    ensures=[
        Clause("FN-kind", "typeis(result, 'FunctionDef') and result.name == old_intermediate_repr['name']", note="a def named after the description"),
        Clause("FN-frame", "unchanged(intermediate_repr, old_intermediate_repr)", note="C13: the caller's description is not modified"),
        Clause("FN-kwonly-names", "[a.arg for a in result.args.kwonlyargs] == ['p0', 'p1'] and [a.arg for a in result.args.args] == []", when=_KWONLY,
               note="C03: the parameters, in order, as keyword-only arguments (a **kwargs entry is not among them)"),
        Clause("FN-positional-names", "[a.arg for a in result.args.args] == ['p0', 'p1'] and result.args.kwonlyargs == []", when=["plain,positional"]),
        Clause("FN-receiver", "[a.arg for a in result.args.args] == ['self', 'p0', 'p1']", when=["plain,method"], note="a method gets its receiver first"),
        Clause("FN-defaults", "result.args.kw_defaults[0].value == old_intermediate_repr['params']['p0']['default'] and result.args.kw_defaults[1].value is None "
                              "and result.args.defaults == []", when=_KWONLY, note="C03: defaults stay aligned with their parameters; no default becomes None"),
        Clause("FN-defaults-positional", "result.args.defaults[0].value == old_intermediate_repr['params']['p0']['default'] and result.args.defaults[1].value is None "
                                         "and result.args.kw_defaults == []", when=["plain,positional", "plain,method"]),
        Clause("FN-annotations", "result.args.kwonlyargs[0].annotation.id == 'int' and result.args.kwonlyargs[1].annotation is log_ast_parse_fix_results[0] "
                                 "and log_ast_parse_fix_args[0][0] == old_intermediate_repr['params']['p1']['typ']", when=[c for c in _KWONLY if c != "plain,docstring-types"],
               note="inline types: a scalar type by name, any other type as its parsed expression"),
        Clause("FN-no-annotations", "result.args.kwonlyargs[0].annotation is None and result.args.kwonlyargs[1].annotation is None and log_ast_parse_fix_n == 0",
               when=["plain,docstring-types"]),
        Clause("FN-kwarg", "result.args.kwarg.arg == 'kwargs'", when=["kwargs"]),
        Clause("FN-no-kwarg", "result.args.kwarg is None and result.args.vararg is None", when=[c for c in _ALL if c != "kwargs"]),
        Clause("FN-docstring", "typeis(result.body[0], 'Expr') and result.body[0].value.value == %s and log_to_docstring_n == 1" % _SVD,
               note="the first statement is the docstring rendered from the description (through set_value: one pair of enclosing quotes would be stripped)"),
        Clause("FN-body-carried", "len(result.body) == 3 and unchanged(result.body[1], %s[0]) and unchanged(result.body[2], %s[1])" % (_B, _B),
               when=["body,no-return-entry", "body-ends-in-return,no-return-entry", "body-ends-in-return,return-nodefault"],
               note="C16: a carried body follows the docstring verbatim (same statements, same order) when the description has no return default"),
        Clause("FN-body-return-replaced", "len(result.body) == 3 and unchanged(result.body[1], %s[0]) and typeis(result.body[2], 'Return') "
                                          "and result.body[2].value is log_ast_parse_results[0].body[0].value" % _B,
               when=["body-ends-in-return,return-default"],
               note="C16: with a return default the body's final return is replaced by the described one - nothing else is dropped"),
        Clause("FN-body-not-carried", "len(result.body) == 1", when=["plain", "plain,positional", "plain,method", "plain,docstring-types", "kwargs", "body,other-name", "returns-None"],
               note="a body carried for another name is not used"),
    ],
    canaries=["len(result.body) == 1", "result.args.kwonlyargs == []"],
)
emit_function.opaque = _FN_OPAQUE
CONTRACTS.append(emit_function)

# ------------------------------------------------------------------------------------------- emit.docstring (C01: the layout around the per-parameter lines)
def _ds_ir(n, returns):
    d = {"name": "str", "doc": "str", "params": ("dict", {"p%d" % i: ("dict", {"typ": "str", "doc": "str"}) for i in range(n)})}
    d["returns"] = ("dict", {"return_type": ("dict", {"typ": "str", "doc": "str"})}) if returns else None
    return ("dict", d)


_DS_CASES = [Case("%s,params=%d,%s" % (style, n, "returns" if r else "no-returns"),
                  {"intermediate_repr": _ds_ir(n, r), "docstring_format": ("lit", style), "word_wrap": False, "emit_default_doc": True})
             for style in ("rest", "numpydoc", "google") for n in (0, 2) for r in (True, False)]
_E = "log_emit_param_str_results"
_DOC = "old_intermediate_repr['doc']"


def _ds_expected(style, n, r):
    """the layout, as an expression over the prose and the rendered entries (derived from the format string of emit.docstring)"""
    entries = ["%s[%d]" % (_E, i) for i in range(n)]
    ret = "%s[%d]" % (_E, n)
    if style == "rest":
        params = " + '\\n\\n' + ".join(entries) if entries else "''"
        returns = ("'\\n' + %s" % ret) if r else "''"
        return "'\\n' + %s + '\\n\\n' + %s + '\\n' + %s + '\\n'" % (_DOC, params, returns)
    header = {"numpydoc": "Parameters\\n----------", "google": "Args:"}[style]
    rhead = {"numpydoc": "Returns\\n-------", "google": "Returns:"}[style]
    params = ("'%s' + '\\n' + " % header + " + '\\n' + ".join(entries)) if entries else "''"
    returns = ("'\\n%s' + '\\n' + %s" % (rhead, ret)) if r else "''"
    tail = "'\\n'" if style == "numpydoc" else "''"
    return "'\\n' + %s + '\\n\\n' + '\\n' + %s + '\\n' + %s + '\\n' + %s" % (_DOC, params, returns, tail)


emit_docstring = Contract(
    "doctrans.emit:docstring",
    properties=["C01", "C13"],
    note="no word wrap; emit_param_str is opaque (its own contract pins each entry): this contract pins the LAYOUT - summary, section headers of the style, "
         "one entry per parameter in order, the return entry last - and the frame",
    cases=_DS_CASES,
    ensures=[Clause("DS-layout[%s]" % c.name, "result == " + _ds_expected(c.name.split(",")[0], int(c.name.split("=")[1][0]), c.name.endswith(",returns")), when=[c.name],
                    note="C01: summary, then every parameter's entry once and in order under the style's header, then the return entry under its header")
             for c in _DS_CASES]
    + [Clause("DS-entries", "log_emit_param_str_n == len(old_intermediate_repr['params']) + (1 if old_intermediate_repr['returns'] is not None else 0) and "
                            "all(log_emit_param_str_args[i][0][0] == list(old_intermediate_repr['params'].keys())[i] for i in range(len(old_intermediate_repr['params'])))",
              note="each parameter is rendered exactly once, in the description's order; the return entry once, last"),
       Clause("DS-frame", "unchanged(intermediate_repr, old_intermediate_repr)", note="C13: the caller's description is not modified")],
    canaries=["result == ''"],
)
emit_docstring.opaque = {"emit_param_str": {"ret": "str"}}
CONTRACTS.append(emit_docstring)

# ------------------------------------------------------------------------------------------- emit.argparse_function (C04 / C16 / C13: the whole constructor)
_AF_OPAQUE = {"docstring": {"ret": "str"}, "indent": {"ret": "str"}, "param2argparse_param": {"ret": ("obj", "ast.Expr")}, "ast.parse": {"ret": ("obj", "ast.Module")},
              "fill": {"ret": "str"}}


def _af_ir(n, ret=None, body=None):
    d = {"name": "str", "doc": "str", "params": ("dict", {"p%d" % i: ("dict", {"typ": "str", "doc": "str"}) for i in range(n)})}
    if ret == "plain":
        d["returns"] = ("dict", {"return_type": ("dict", {"typ": "str", "doc": "str"})})
    elif ret == "default":
        d["returns"] = ("dict", {"return_type": ("dict", {"typ": "str", "doc": "str", "default": "str"})})
    else:
        d["returns"] = None
    if body is not None:
        d["_internal"] = ("dict", {"body": ("list", body), "from_name": "str", "from_type": ("lit", "static")})
    return ("dict", d)


def _af_case(name, ir, assume=()):
    return Case(name, {"intermediate_repr": ir, "emit_default_doc": False, "function_name": ("lit", "set_cli_args"), "function_type": ("lit", "static"),
                       "wrap_description": False, "word_wrap": True, "docstring_format": ("lit", "rest")}, assume=list(assume))


_AF_CASES = [
    Case("params=1,no-wrap", {"intermediate_repr": _af_ir(1, "plain"), "emit_default_doc": False, "function_name": ("lit", "set_cli_args"), "function_type": ("lit", "static"),
                              "wrap_description": False, "word_wrap": False, "docstring_format": ("lit", "rest")}),
    _af_case("params=2", _af_ir(2)),
    _af_case("params=0", _af_ir(0)),
    _af_case("params=1,return-plain", _af_ir(1, "plain")),
]

emit_argparse = Contract(
    "doctrans.emit:argparse_function",
    properties=["C04", "C13", "C06"],
    note="descriptions with 0-2 parameters, without / with a return entry (no default); docstring, indent, param2argparse_param and ast.parse are opaque and logged "
         "(param2argparse_param renders one option: bounded rt_argparse and the contracts of its helpers cover it)",
    cases=_AF_CASES,
    ensures=[
        Clause("AF-head", "typeis(result, 'FunctionDef') and result.name == 'set_cli_args' and [a.arg for a in result.args.args] == ['argument_parser'] "
                          "and result.args.kwonlyargs == [] and result.args.defaults == []", note="def set_cli_args(argument_parser)"),
        Clause("AF-description", "typeis(result.body[1], 'Assign') and result.body[1].targets[0].attr == 'description' and result.body[1].targets[0].value.id == 'argument_parser' "
                                 "and result.body[1].value.value == %s" % "(D[1:-1] if len(D) > 2 and D[0] == D[-1] and D[0] in ('\"', \"'\") else D)".replace("D", "old_intermediate_repr['doc']"),
               note="C04: the summary is the parser's description (through set_value)"),
        Clause("AF-options", "log_param2argparse_param_n == len(old_intermediate_repr['params']) and all(log_param2argparse_param_args[i][0][0] == 'p%d' % i "
                             "and result.body[2 + i] is log_param2argparse_param_results[i] for i in range(len(old_intermediate_repr['params'])))",
               note="C04: one add_argument statement per parameter, in the description's order, right after the description"),
        Clause("AF-return", "typeis(result.body[-1], 'Return') and len(result.body) == 3 + len(old_intermediate_repr['params'])",
               note="the function ends by returning the parser; nothing else is emitted"),
        Clause("AF-return-plain", "result.body[-1].value.id == 'argument_parser'", when=["params=2", "params=0", "params=1,return-plain", "params=1,no-wrap"],
               note="without a return default the parser alone is returned"),
        Clause("AF-docstring-options", "log_docstring_n == 1 and ('word_wrap' in log_docstring_kwargs[0]) and log_docstring_kwargs[0]['word_wrap'] == word_wrap "
                                       "and ('docstring_format' in log_docstring_kwargs[0]) and log_docstring_kwargs[0]['docstring_format'] == docstring_format",
               note="C04 / C18: the generated function's own docstring is rendered with the caller's word_wrap and style (a return prose must not be re-flowed behind the caller's back)"),
        Clause("AF-frame", "unchanged(intermediate_repr, old_intermediate_repr)", note="C13: the caller's description is not modified"),
    ],
    canaries=["len(result.body) == 3"],
)
emit_argparse.opaque = _AF_OPAQUE
CONTRACTS.append(emit_argparse)

# ------------------------------------------------------------------------------------------- law: the signature there and back (C03-L, signature half)
def _sig_ir(kind="int"):
    params = {"p0": ("dict", {"typ": ("lit", "int"), "doc": "str"}), "p1": ("dict", {"typ": ("lit", "int"), "doc": "str", "default": "int"})} if kind == "int" else \
        {"p1": ("dict", {"typ": ("lit", "bool"), "doc": "str", "default": "bool"})}
    return ("dict", {"name": "str", "type": ("lit", "static"), "doc": "str", "returns": None, "params": ("dict", params)})


function_signature_roundtrip = Contract(
    "vf.contracts.laws:function_signature_roundtrip",
    properties=["C03", "C07", "C05"],
    note="C03 / C07 for the SIGNATURE, deductively: emit.function followed by parse.function (both real, inlined) on a description with a required int parameter and an int "
         "parameter with a symbolic default (positional and keyword-only), and on one with a bool default; the docstring text is opaque and get_docstring answers None, "
         "so what comes back is what the signature alone carries: names, order, defaults (types go through the opaque renderer)",
    cases=[Case("positional", {"ir": _sig_ir(), "kwonly": False}, assume=["ir['name'] != ''"]), Case("keyword-only", {"ir": _sig_ir(), "kwonly": True}, assume=["ir['name'] != ''"]),
           Case("bool", {"ir": _sig_ir("bool"), "kwonly": True}, assume=["ir['name'] != ''"])],
    use_contract_for=["doctrans.defaults_utils:needs_quoting"],
    ensures=[
        Clause("SRT-name", "result['name'] == old_ir['name']", note="the definition's name"),
        Clause("SRT-names", "list(result['params'].keys()) == ['p0', 'p1']", when=["positional", "keyword-only"], note="C03 / C07: every parameter once, in order"),
        Clause("SRT-required", "('default' in result['params']['p0']) == False", when=["positional", "keyword-only"],
               note="C03: a parameter without default stays without one (REFUTED on the pinned tree: finding Fn-nodefault - every parameter is emitted with `= None`)"),
        Clause("SRT-default-int", "result['params']['p1']['default'] == old_ir['params']['p1']['default'] and typeis(result['params']['p1']['default'], 'int')",
               when=["positional", "keyword-only"], note="C03: an int default comes back with value and type - zero and negatives included; defaults stay aligned"),
        Clause("SRT-default-bool", "list(result['params'].keys()) == ['p1'] and result['params']['p1']['default'] == old_ir['params']['p1']['default'] "
                                   "and typeis(result['params']['p1']['default'], 'bool')", when=["bool"]),
        Clause("SRT-frame", "unchanged(ir, old_ir)", note="C13: neither conversion touches the description it was given"),
    ],
    canaries=["result['params']['p1']['default'] == 0"],
)
function_signature_roundtrip.opaque = {"to_docstring": {"ret": "str", "havoc_prose": True}, "ast_parse_fix": {"ret": ("obj", "ast.expr")}, "get_docstring": {"ret": "none"},
                                       "to_code": {"ret": "str"}, "_to_code": {"ret": "str"}}
CONTRACTS.append(function_signature_roundtrip)
