"""./check <property-id> [--tier quick|thorough] [--replay FILE] [--selftest] [--record-expected]"""
import argparse
import importlib
import json
import os
import sys

from vf import common


def main(argv=None):
    ap = argparse.ArgumentParser()
    ap.add_argument("pid")
    ap.add_argument("--tier", default=None)
    ap.add_argument("--replay", default=None)
    ap.add_argument("rest", nargs="*")
    ap.add_argument("--record-expected", action="store_true", help="developer only: rewrite expected_discharged.json")
    args = ap.parse_args(argv)
    from vf.pyvc import verify

    verify.preimport_meta()
    if args.pid == "selftest":
        from vf import selftest

        return selftest.main()
    mod = importlib.import_module("vf.props.%s" % args.pid)
    if args.replay:
        return mod.replay(args.replay) if hasattr(mod, "replay") else generic_replay(args.replay)
    run = common.Run(args.pid, tier=args.tier)
    try:
        if args.record_expected:
            from vf.props import deductive

            ded = mod.check(run, record_expected=True)
            cur = deductive.load_expected()
            keys = set(ded["discharged_keys"])
            funcs = {k.split("::")[0] for k in keys}
            cur = {k for k in cur if k.split("::")[0] not in funcs} | keys
            with open(deductive.EXPECTED, "wt") as f:
                json.dump(sorted(cur), f, indent=0)
            print("recorded %d expected-discharged obligation keys (%d total)" % (len(keys), len(cur)))
            return 0
        return mod.check(run)
    except SystemExit:
        raise
    except Exception as e:  # noqa
        import traceback

        traceback.print_exc()
        run.fault("unhandled %s: %s" % (type(e).__name__, e))
        return run.finish("other", {"explanation": "checker crashed", "evaluations": 0, "distinct_nontrivial": 0}, [])


def generic_replay(path):
    with open(path) as f:
        rp = json.load(f)
    pl = rp["payload"]
    print("replay of %s / %s" % (rp["property"], rp["obligation"]))
    if pl.get("kind") == "contract" and pl.get("input"):
        from vf.pyvc import driver

        reg = driver.load_registry()
        c = reg[pl["func"]]
        import ast as _ast

        env = dict(vars(_ast))  # inputs that are AST nodes are recorded as ast.dump text, which is constructor syntax
        kwargs = {k: eval(v, env) for k, v in pl["input"].items()}
        real = driver.real_call(c, kwargs)
        show = lambda v: _ast.dump(v) if isinstance(v, _ast.AST) else repr(v)  # noqa: E731
        print("input:", {k: show(v)[:400] for k, v in kwargs.items()})
        print("real code now:", real["outcome"], show(real["value"])[:600])
        print("recorded     :", pl.get("observed"))
        clause = pl.get("clause")
        if clause and real["outcome"] == "return":
            try:
                print("clause %s on the real result now: %s" % (clause[:200], driver.eval_clause_py(c, clause, kwargs, real["value"], {}, real=real)))
            except Exception as e:  # noqa
                print("clause not evaluable without the engine's ghosts / effect log: %s: %s" % (type(e).__name__, e))
        return 0
    print(json.dumps(pl, indent=1)[:3000])
    return 0


if __name__ == "__main__":
    sys.exit(main())
