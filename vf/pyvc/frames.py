"""
Syntactic frame obligations over the real source: "every mutation of parameter P (or of anything reached
through it) is dominated by `P = deepcopy(P)`".  Decided on the AST of the current working tree; holds for all
inputs because dominance in straight-line top-level code is input-independent.
"""
import ast

from . import verify as V

MUTATORS = {"update", "pop", "append", "extend", "insert", "remove", "clear", "sort", "reverse", "setdefault", "popitem"}


def _root(node):
    while isinstance(node, (ast.Attribute, ast.Subscript)):
        node = node.value
    if isinstance(node, ast.Call) and isinstance(node.func, ast.Name) and node.func.id in ("getattr",) and node.args:
        return _root(node.args[0])
    return node.id if isinstance(node, ast.Name) else None


def mutation_sites(fn, var):
    """(lineno, text) of statements that write through `var`"""
    sites = []
    for n in ast.walk(fn):
        if isinstance(n, (ast.Assign, ast.AugAssign, ast.AnnAssign)):
            tgts = n.targets if isinstance(n, ast.Assign) else [n.target]
            for t in tgts:
                if isinstance(t, (ast.Attribute, ast.Subscript)) and _root(t) == var:
                    sites.append((n.lineno, ast.unparse(n).split("\n")[0][:100]))
        elif isinstance(n, ast.Delete):
            for t in n.targets:
                if isinstance(t, (ast.Attribute, ast.Subscript)) and _root(t) == var:
                    sites.append((n.lineno, ast.unparse(n)[:100]))
        elif isinstance(n, ast.Call):
            f = n.func
            if isinstance(f, ast.Attribute) and f.attr in MUTATORS and _root(f.value) == var:
                sites.append((n.lineno, ast.unparse(n).split("\n")[0][:100]))
            elif isinstance(f, ast.Name) and f.id in ("setattr", "delattr", "setitem") and n.args and _root(n.args[0]) == var:
                sites.append((n.lineno, ast.unparse(n).split("\n")[0][:100]))
    return sorted(set(sites))


def copy_line(fn, var):
    """line of a top-level `var = deepcopy(var)` (None if absent)"""
    for st in fn.body:
        if (isinstance(st, ast.Assign) and len(st.targets) == 1 and isinstance(st.targets[0], ast.Name) and st.targets[0].id == var
                and isinstance(st.value, ast.Call) and isinstance(st.value.func, ast.Name) and st.value.func.id == "deepcopy"
                and len(st.value.args) == 1 and isinstance(st.value.args[0], ast.Name) and st.value.args[0].id == var):
            return st.lineno
    return None


def passes_to_callees(fn, var, before_line):
    """uses of `var` (or parts of it) as call arguments before the copy: a callee might mutate it"""
    out = []
    for n in ast.walk(fn):
        if isinstance(n, ast.Call) and getattr(n, "lineno", 10 ** 9) < (before_line or 10 ** 9):
            for a in list(n.args) + [k.value for k in n.keywords]:
                for m in ast.walk(a):
                    if isinstance(m, ast.Name) and m.id == var:
                        fname = ast.unparse(n.func)
                        if fname not in ("deepcopy", "isinstance", "type", "len", "get_docstring", "get_function_type", "hasattr",
                                         "getsource", "_inspect", "ast.parse", "parse") and not fname.endswith(".format"):
                            out.append((n.lineno, fname))
    return sorted(set(out))


def copy_dominates(func_key, var, require_copy=True):
    """-> [(obligation id, holds, text, witness)]"""
    modname, qual = func_key.split(":")
    fn, src, path = V.find_def_dotted(modname, qual)
    cl = copy_line(fn, var)
    items = []
    sites = mutation_sites(fn, var)
    if require_copy:
        items.append(("frame-copy[%s]" % var, cl is not None, "%s starts by rebinding %s to a deep copy" % (qual, var), "line %s" % cl))
    for ln, txt in sites:
        items.append(("frame-dominated[%s@%s]" % (var, txt[:40]), cl is not None and ln > cl,
                      "the write `%s` through %s happens after the deep copy" % (txt, var), "line %d, copy at %s" % (ln, cl)))
    if cl is not None:
        # nothing reachable through P may be bound to another name before the copy (it would alias the caller's object)
        alias = []
        ok_calls = ("get_function_type", "get_docstring", "isinstance", "type", "len", "getsource", "_inspect", "ast.parse", "parse")
        for st in fn.body:
            if getattr(st, "lineno", 10 ** 9) >= cl:
                break
            if isinstance(st, (ast.Assign, ast.AnnAssign, ast.AugAssign)) and getattr(st, "value", None) is not None:
                for m in ast.walk(st.value):
                    if isinstance(m, ast.Name) and m.id == var:
                        # allowed only as the argument of a whitelisted pure call
                        inside_ok = any(isinstance(c, ast.Call) and ast.unparse(c.func) in ok_calls and any(m in list(ast.walk(a)) for a in c.args)
                                        for c in ast.walk(st.value))
                        if not inside_ok:
                            alias.append((st.lineno, ast.unparse(st).split("\n")[0][:80]))
        items.append(("frame-no-alias-before-copy[%s]" % var, not alias,
                      "no part of %s is bound to another name before the deep copy" % var, alias))
        early = [(ln, f) for ln, f in passes_to_callees(fn, var, cl)]
        items.append(("frame-no-early-escape[%s]" % var, not early, "%s is not handed to another function before it is copied" % var, early))
    return items
