"""
Specification vocabulary available inside contract texts, with two implementations each:
an SMT one (used by the symbolic executor) and a CPython one (used for replay and the bounded
stand-in).  The two are cross-checked against each other on every run (crosscheck.py).
"""
import z3

from . import smt
from .smt import B, I, S


class SpecOp:
    """quantifiers and connectives handled by the engine itself"""

    def __init__(self, name):
        self.name = name
        self.__name__ = name


class SpecFun:
    """a spec function: smt(*terms) -> term; py(*values) -> value; ret in {'int','bool','str'}"""

    def __init__(self, name, smt_fn, py_fn, ret):
        self.name, self.smt, self.py, self.ret = name, smt_fn, py_fn, ret
        self.__name__ = name


# ------------------------------------------------------------------ bracket-aware scan spec (C17)
BR = "{[()]}"
_s, _k = z3.String("sf!s"), z3.Int("sf!k")

# nobr(s, k): no bracket character among s[0..k)
nobr = z3.RecFunction("nobr", S, I, B)
z3.RecAddDefinition(
    nobr,
    [_s, _k],
    z3.If(
        _k <= 0,
        z3.BoolVal(True),
        z3.And(z3.Not(z3.InRe(smt.char_at(_s, _k - 1), smt.re_chars(BR))), nobr(_s, _k - 1)),
    ),
)


def _stop_smt(s, k):
    n = z3.Length(s)
    return z3.And(
        k >= 0,
        k < n,
        smt.char_at(s, k) == z3.StringVal("."),
        z3.Or(k == n - 1, z3.Not(z3.InRe(smt.char_at(s, k + 1), smt.DIGIT))),
        nobr(s, k),
    )


def _nobr_py(s, k):
    return not any(c in BR for c in s[: max(k, 0)])


def _stop_py(s, k):
    return (
        0 <= k < len(s)
        and s[k] == "."
        and (k == len(s) - 1 or not s[k + 1].isdigit())
        and _nobr_py(s, k)
    )


def _inre(rx):
    def f(s):
        return z3.InRe(s, rx)

    return f


import re as _re

SPEC_FUNS = {
    "nobr": SpecFun("nobr", lambda s, k: nobr(s, k), _nobr_py, "bool"),
    "stop": SpecFun("stop", _stop_smt, _stop_py, "bool"),
    "is_decimal": SpecFun("is_decimal", _inre(smt.DIGITS1), lambda s: bool(_re.fullmatch(r"[0-9]+", s)), "bool"),
    "is_signed_int": SpecFun("is_signed_int", _inre(smt.RE_SIGNED_INT), lambda s: bool(_re.fullmatch(r"-?[0-9]+", s)), "bool"),
    "py_int_ok": SpecFun("py_int_ok", _inre(smt.RE_PY_INT), None, "bool"),
    "py_float_ok": SpecFun("py_float_ok", _inre(smt.RE_PY_FLOAT), None, "bool"),
    "length": SpecFun("length", lambda s: z3.Length(s), len, "int"),
}


def _const_str(t):
    if isinstance(t, str):
        return t
    if z3.is_string_value(t):
        return t.as_string()
    raise ValueError("spec function needs a literal character set")


def _pystrip_smt(s, chars):
    chars = _const_str(chars)
    tag = smt.sha("strip:" + "".join(sorted(set(chars))))[:8]
    return z3.Function("strip_%s" % tag, S, S)(s)


def _prefix_len_smt(s, chars):
    chars = "".join(sorted(set(_const_str(chars))))
    return z3.Function("preflen_" + smt.sha(chars)[:8], S, I)(s)


def _prefix_len_py(s, chars):
    k = 0
    while k < len(s) and s[k] in chars:
        k += 1
    return k


SPEC_FUNS["pystrip"] = SpecFun("pystrip", _pystrip_smt, lambda s, chars: s.strip(chars), "str")
SPEC_FUNS["prefix_len"] = SpecFun("prefix_len", _prefix_len_smt, _prefix_len_py, "int")
SPEC_FUNS["casefold"] = SpecFun("casefold", lambda s: smt.casefold(s), lambda s: smt.note_casefold(s), "str")
SPEC_FUNS["str_to_int"] = SpecFun("str_to_int", lambda s: smt.int_of_str(s), int, "int")


def _nq_py(typ):
    from doctrans.defaults_utils import needs_quoting

    return needs_quoting(typ)


def _ed_doc_py(line):
    from doctrans.defaults_utils import extract_default

    return extract_default(line, emit_default_doc=False)[0]


SPEC_FUNS["nq_spec"] = SpecFun("nq_spec", lambda t: z3.Function("nq_spec", S, B)(t), _nq_py, "bool")
SPEC_FUNS["ed_doc"] = SpecFun("ed_doc", lambda t: z3.Function("ed_doc", S, S)(t), _ed_doc_py, "str")


def _py_int_ok(s):
    try:
        int(s)
        return True
    except ValueError:
        return False


def _py_float_ok(s):
    try:
        float(s)
        return True
    except ValueError:
        return False


SPEC_FUNS["py_int_ok"].py = _py_int_ok
SPEC_FUNS["py_float_ok"].py = _py_float_ok

SPEC_GLOBALS = {
    "forall": SpecOp("forall"),
    "exists": SpecOp("exists"),
    "implies": SpecOp("implies"),
    "iff": SpecOp("iff"),
    "typeis": SpecOp("typeis"),
    "forall_str": SpecOp("forall_str"),
    "unchanged": SpecOp("unchanged"),
}
SPEC_GLOBALS.update(SPEC_FUNS)


# ------------------------------------------------------------------ CPython side of the vocabulary
def py_forall(f, lo, hi):
    return all(f(j) for j in range(lo, hi))


def py_exists(f, lo, hi):
    return any(f(j) for j in range(lo, hi))


def py_implies(a, b):
    return (not a) or bool(b)


def py_iff(a, b):
    return bool(a) == bool(b)


def py_typeis(v, name):
    return type(v).__name__ == name


def py_unchanged(a, b):
    import ast as _ast

    if isinstance(a, _ast.AST) and isinstance(b, _ast.AST):
        return _ast.dump(a) == _ast.dump(b)
    if isinstance(a, dict) and isinstance(b, dict):
        return list(a.keys()) == list(b.keys()) and all(py_unchanged(a[k], b[k]) for k in a)
    if isinstance(a, (list, tuple)) and isinstance(b, (list, tuple)):
        return len(a) == len(b) and all(py_unchanged(x, y) for x, y in zip(a, b))
    return type(a) is type(b) and a == b


PY_GLOBALS = {
    "unchanged": py_unchanged,
    "forall": py_forall,
    "exists": py_exists,
    "implies": py_implies,
    "iff": py_iff,
    "typeis": py_typeis,
}
PY_GLOBALS.update({k: v.py for k, v in SPEC_FUNS.items()})
