"""
Models of builtins / stdlib / string methods for the symbolic executor.  When every argument is
concrete the *real* CPython operation is used; otherwise an SMT definition from smt.py.  A call that
is not modelled raises Unsupported (=> undecided), or is an uninterpreted function that is recorded
in Engine.assumed.
"""
import copy
import ast
import builtins
import contextlib
import functools
import itertools
import operator
import string as _string
import types

import z3

from . import smt
from .engine import (
    TAG_BOOL,
    TAG_INT,
    TAG_NONE,
    TAG_STR,
    SymEnumerate,
    SymRange,
    float_of_str,
    is_py_literal,
    lit_eval,
    obj_bool,
    obj_int,
    obj_isinst,
    obj_str,
    obj_tag,
    obj_truthy,
    pystr_of_obj,
)
from .smt import B, I, Obj, S, fresh
from .specfuncs import SpecFun, SpecOp
from .values import (
    UNDEF,
    BoundMethod,
    Const,
    Exc,
    Fn,
    HDict,
    HList,
    HObj,
    LazyPrefix,
    Native,
    NeedFork,
    Opq,
    Partial,
    Raise,
    Ref,
    Sym,
    UFn,
    Unsupported,
    pytype_name,
    to_term,
)

NoneType = type(None)


def _concrete(v):
    return not isinstance(v, (Sym, Opq, Ref, Const, Fn, Native, Partial, BoundMethod, UFn, LazyPrefix)) and (
        not isinstance(v, tuple) or all(_concrete(x) for x in v)
    )


def ok(v, st):
    return [(v, st)]


def err(kind, msg, st):
    return [(Raise(Exc(kind, msg)), st)]


# ------------------------------------------------------------------------------- text of a value
def text_of(eng, v):
    """str(v) / '{}'.format(v) as a value"""
    if isinstance(v, Sym):
        if v.ty == "str":
            return v
        if v.ty == "int":
            return Sym(smt.str_of_int(v.t), "str")
        if v.ty == "bool":
            return Sym(z3.If(v.t, z3.StringVal("True"), z3.StringVal("False")), "str")
    if isinstance(v, Opq):
        eng.assumed.add("str() of an opaque value is an uninterpreted function of the value")
        return Sym(pystr_of_obj(v.t), "str")
    if _concrete(v):
        return str(v)
    raise Unsupported("text of %r" % (v,))


def concat(parts):
    """concatenate str values"""
    if all(isinstance(p, str) for p in parts):
        return "".join(parts)
    # merge adjacent literals
    terms = []
    buf = ""
    for p in parts:
        if isinstance(p, str):
            buf += p
        else:
            if buf:
                terms.append(z3.StringVal(buf))
                buf = ""
            terms.append(p.t)
    if buf:
        terms.append(z3.StringVal(buf))
    if len(terms) == 1:
        return Sym(terms[0], "str")
    return Sym(z3.Concat(*terms), "str")


# ------------------------------------------------------------------------------- isinstance
def _type_list(T):
    if isinstance(T, tuple):
        out = []
        for x in T:
            out.extend(_type_list(x))
        return out
    if isinstance(T, Native) and isinstance(T.obj, type):
        return [T.obj]
    raise Unsupported("isinstance with non-type %r" % (T,))


def isinstance_model(eng, v, T, st):
    types_ = _type_list(T)
    if isinstance(v, Sym):
        cls = {"str": str, "int": int, "bool": bool}[v.ty]
        return any(issubclass(cls, t) for t in types_)
    if isinstance(v, Ref):
        h = st.heap[v.oid]
        cls = dict if isinstance(h, HDict) else list if isinstance(h, HList) else object
        if isinstance(h, HObj):
            if h.cls is None:
                raise Unsupported("isinstance of an untyped created object")
            return any(issubclass(_resolve_cls(h.cls), t) for t in types_)
        return any(issubclass(cls, t) for t in types_)
    if isinstance(v, Const):
        return isinstance(v.obj, tuple(types_))
    if isinstance(v, Opq):
        if v.cls in ("float", "complex"):
            cls = {"float": float, "complex": complex}[v.cls]
            return any(issubclass(cls, t) for t in types_)
        if v.cls is not None:
            cls = _resolve_cls(v.cls)
            return any(issubclass(cls, t) for t in types_)
        parts = []
        for t in types_:
            if t is str:
                parts.append(obj_tag(v.t) == TAG_STR)
            elif t is int:
                parts.append(z3.Or(obj_tag(v.t) == TAG_INT, obj_tag(v.t) == TAG_BOOL))
            elif t is bool:
                parts.append(obj_tag(v.t) == TAG_BOOL)
            elif t is NoneType:
                parts.append(obj_tag(v.t) == TAG_NONE)
            elif t is object:
                return True
            else:
                eng.assumed.add("isinstance on opaque objects is an uninterpreted predicate per class")
                parts.append(z3.And(obj_tag(v.t) == 0, obj_isinst(v.t, z3.StringVal(t.__module__ + "." + t.__qualname__))))
        return eng._or(parts)
    if isinstance(v, (Fn, Native, Partial, BoundMethod, UFn)):
        if isinstance(v, Native):
            return isinstance(v.obj, tuple(types_))
        return any(t in (object, types.FunctionType) for t in types_)
    return isinstance(v, tuple(types_))


def _resolve_cls(name):
    mod, _, q = name.rpartition(".")
    if mod == "ast" or mod == "":
        return getattr(ast, q)
    import importlib

    return getattr(importlib.import_module(mod), q)


# ------------------------------------------------------------------------------- natives
def call_native(eng, obj, args, kwargs, st):
    if isinstance(obj, SpecOp):
        return call_specop(eng, obj, args, kwargs, st)
    if isinstance(obj, _ItemGetter):
        return eng.getitem(args[0], obj.key, st)
    if isinstance(obj, SpecFun):
        if all(_concrete(a) for a in args) and obj.py is not None:
            return ok(obj.py(*args), st)
        targs = [a if (isinstance(a, str) and k > 0) else to_term(a) for k, a in enumerate(args)]
        r = obj.smt(*targs)
        return ok(eng.mkbool(r) if obj.ret == "bool" else Sym(r, obj.ret), st)
    h = NATIVE.get(_key(obj))
    if h is not None:
        return h(eng, args, kwargs, st)
    # repo functions
    mod = getattr(obj, "__module__", None) or ""
    if isinstance(obj, types.FunctionType) and (mod.startswith("doctrans") or mod == "vf.contracts.laws") and not (
            getattr(eng, "concrete_fallback", False) and getattr(eng, "to_py", None) and obj.__name__ in READERS):
        if getattr(eng, "concrete_fallback", False) and all(_concrete(a) for a in args) and all(_concrete(v) for v in kwargs.values()):
            snap = st.copy()
            try:
                return eng.call_repo_function(obj, args, kwargs, st)
            except Unsupported:
                try:
                    return ok(eng.lift(obj(*args, **kwargs)), snap)
                except Exception as e:  # noqa
                    return err(type(e).__name__, str(e), snap)
        return eng.call_repo_function(obj, args, kwargs, st)
    if obj is getattr(ast, "Index", None):
        # Python >= 3.9: ast.Index(value) simply returns its value
        if "value" in kwargs or args:
            return ok(kwargs.get("value", args[0] if args else None), st)
        return err("TypeError", "Index.__new__() missing 1 required positional argument: 'value'", st)
    if isinstance(obj, type) and issubclass(obj, ast.AST):
        o = HObj("ast." + obj.__name__)
        fields = list(getattr(obj, "_fields", ()))
        if len(args) > len(fields):
            return err("TypeError", "%s constructor takes at most %d positional arguments" % (obj.__name__, len(fields)), st)
        for f, a in zip(fields, args):
            o.attrs[f] = a
        for k, v in kwargs.items():
            o.attrs[k] = v
        return ok(st.alloc(o), st)
    if isinstance(obj, type) and (getattr(obj, "__module__", "") or "").startswith("doctrans"):
        # instance of a class defined in the repository: a record; __init__ (repo source) is inlined
        inst = st.alloc(HObj("%s.%s" % (obj.__module__, obj.__qualname__)))
        init = getattr(obj, "__init__", None)
        if isinstance(init, types.FunctionType) and (init.__module__ or "").startswith("doctrans"):
            res = []
            for r, s2 in eng.call_repo_function(init, [inst] + list(args), kwargs, st):
                res.append((r, s2) if isinstance(r, Raise) else (inst, s2))
            return res
        return ok(inst, st)
    if obj is ast.NodeVisitor.visit:
        return n_node_visit(eng, args, kwargs, st)
    if obj is getattr(ast.NodeVisitor, "visit_Constant", None):
        # CPython: (deprecated visit_Num / visit_Str ... hooks aside, which no repo class defines) `return self.generic_visit(node)`
        real_cls = eng._real_class(st.heap[args[0].oid].cls)
        if any(hasattr(real_cls, "visit_" + n) for n in ("Num", "Str", "Bytes", "NameConstant", "Ellipsis")):
            raise Unsupported("deprecated constant visitor hooks")
        return eng.call(Native(getattr(real_cls, "generic_visit")), list(args), {}, st)
    if obj is ast.NodeTransformer.generic_visit:
        return n_transformer_generic_visit(eng, args, kwargs, st)
    if isinstance(obj, type) and issubclass(obj, BaseException):
        return ok(Opq(fresh("excobj", Obj), obj.__name__), st)
    # all-concrete pure builtins
    if all(_concrete(a) for a in args) and all(_concrete(v) for v in kwargs.values()) and _key(obj) in PURE_OK:
        try:
            return ok(eng.lift(obj(*args, **kwargs)), st)
        except Exception as e:  # noqa
            return err(type(e).__name__, str(e), st)
    if getattr(eng, "concrete_fallback", False) and callable(obj) and all(_concrete(a) for a in args) and all(_concrete(v) for v in kwargs.values()):
        try:
            return ok(eng.lift(obj(*args, **kwargs)), st)
        except Exception as e:  # noqa
            return err(type(e).__name__, str(e), st)
    if getattr(eng, "concrete_fallback", False) and getattr(eng, "to_py", None) and getattr(obj, "__name__", "") in READERS:
        # concrete runs only: read-only library / renderer calls on modelled nodes are made on the converted real objects
        try:
            pargs = [eng.to_py(a, st) for a in args]
            pkw = {k: eng.to_py(v, st) for k, v in kwargs.items()}
        except Unsupported:
            raise
        try:
            return ok(eng.lift_py(obj(*pargs, **pkw), st), st)
        except Exception as e:  # noqa
            return err(type(e).__name__, str(e), st)
    raise Unsupported("call of %r" % (getattr(obj, "__qualname__", obj),))


READERS = {"get_docstring", "unparse", "dump", "to_code"}


def _key(obj):
    try:
        hash(obj)
        return obj
    except TypeError:
        return id(obj)


PURE_OK = {abs, min, max, repr, ord, chr, round, divmod, sorted}


def call_specop(eng, op, args, kwargs, st):
    if op.name in ("forall", "exists"):
        f, lo, hi = args
        if all(_concrete(x) for x in (lo, hi)) and hi - lo <= 8:
            parts = []
            for j in range(lo, hi):
                (v, _), = eng.call(f, [j], {}, st)
                parts.append(eng.truth(v, st))
            return ok(eng.mkbool(eng._and(parts) if op.name == "forall" else eng._or(parts)), st)
        j = fresh("j", I)
        outs = eng.call(f, [Sym(j, "int")], {}, st)
        if len(outs) != 1 or isinstance(outs[0][0], Raise):
            raise Unsupported("quantifier body forked")
        body = eng.truth(outs[0][0], st)
        body = z3.BoolVal(body) if isinstance(body, bool) else body
        rng = z3.And(eng._num(lo) <= j, j < eng._num(hi))
        q = z3.ForAll([j], z3.Implies(rng, body)) if op.name == "forall" else z3.Exists([j], z3.And(rng, body))
        return ok(Sym(q, "bool"), st)
    if op.name == "forall_str":
        (f,) = args
        names = [a.arg for a in f.node.args.args]
        vs = [fresh("q_" + n, S) for n in names]
        outs = eng.call(f, [Sym(v, "str") for v in vs], {}, st)
        if len(outs) != 1 or isinstance(outs[0][0], Raise):
            raise Unsupported("quantifier body forked")
        body = eng.truth(outs[0][0], st)
        body = z3.BoolVal(body) if isinstance(body, bool) else body
        return ok(Sym(z3.ForAll(vs, body), "bool"), st)
    if op.name == "unchanged":
        a, b = args
        return ok(eng.mkbool(deep_eq(eng, a, b, st)), st)
    if op.name == "implies":
        a, b = args
        ta, tb = eng.truth(a, st), eng.truth(b, st)
        return ok(eng.mkbool(eng._or([eng._not(ta), tb])), st)
    if op.name == "iff":
        a, b = args
        ta, tb = eng.truth(a, st), eng.truth(b, st)
        if isinstance(ta, bool) and isinstance(tb, bool):
            return ok(ta == tb, st)
        ta = z3.BoolVal(ta) if isinstance(ta, bool) else ta
        tb = z3.BoolVal(tb) if isinstance(tb, bool) else tb
        return ok(Sym(ta == tb, "bool"), st)
    if op.name == "typeis":
        v, name = args
        t = pytype_name(v)
        if t is None and isinstance(v, Opq):
            raise Unsupported("typeis on untyped opaque")
        if isinstance(v, Opq) and t:
            t = t.split(".")[-1]
        if isinstance(v, Ref):
            h = st.heap[v.oid]
            t = "dict" if isinstance(h, HDict) else "list" if isinstance(h, HList) else (h.cls or "object").split(".")[-1]
        return ok(t == name, st)
    raise Unsupported("spec op %s" % op.name)


def deep_eq(eng, a, b, st):
    """structural equality over the heap graph (frame conditions): same shape, same presence, equal scalars"""
    if isinstance(a, Ref) and isinstance(b, Ref):
        if a.oid == b.oid:
            return True
        ha, hb = st.heap[a.oid], st.heap[b.oid]
        if type(ha) is not type(hb):
            return False
        if isinstance(ha, HList):
            if len(ha.items) != len(hb.items):
                return False
            return eng._and([deep_eq(eng, x, y, st) for x, y in zip(ha.items, hb.items)])
        if isinstance(ha, HDict):
            if ha.keys != hb.keys:
                return False
            parts = []
            for k in ha.keys:
                pa, pb = ha.pres[k], hb.pres[k]
                if pa is not True or pb is not True:
                    pa_t = z3.BoolVal(pa) if isinstance(pa, bool) else pa
                    pb_t = z3.BoolVal(pb) if isinstance(pb, bool) else pb
                    parts.append(pa_t == pb_t)
                    parts.append(eng._or([eng._not(eng._and([pa, pb])), deep_eq(eng, ha.vals[k], hb.vals[k], st)]))
                else:
                    parts.append(deep_eq(eng, ha.vals[k], hb.vals[k], st))
            return eng._and(parts)
        if isinstance(ha, HObj):
            if ha.cls != hb.cls or set(ha.attrs) != set(hb.attrs):
                return False
            return eng._and([deep_eq(eng, ha.attrs[k], hb.attrs[k], st) for k in ha.attrs])
        return False
    if isinstance(a, tuple) and isinstance(b, tuple):
        if len(a) != len(b):
            return False
        return eng._and([deep_eq(eng, x, y, st) for x, y in zip(a, b)])
    if isinstance(a, (Ref, tuple)) or isinstance(b, (Ref, tuple)):
        return False
    return eng.eq(a, b, st)


def n_len(eng, args, kwargs, st):
    (v,) = args
    t = pytype_name(v)
    if t == "str":
        return ok(len(v) if isinstance(v, str) else Sym(z3.Length(v.t), "int"), st)
    if isinstance(v, tuple):
        return ok(len(v), st)
    if isinstance(v, Const):
        return ok(len(v.obj), st)
    if isinstance(v, Ref):
        h = st.heap[v.oid]
        if isinstance(h, HList):
            return ok(len(h.items), st)
        if isinstance(h, HDict):
            if all(h.pres[k] is True for k in h.keys):
                return ok(len(h.keys), st)
            return ok(Sym(z3.Sum(*[z3.If(h.pres[k], 1, 0) if h.pres[k] is not True else z3.IntVal(1) for k in h.keys]), "int"), st)
    if v is None or t in ("int", "bool", "float"):
        return err("TypeError", "object of type %s has no len()" % t, st)
    if isinstance(v, LazyPrefix):
        return err("TypeError", "takewhile has no len()", st)
    raise Unsupported("len of %r" % (v,))


def n_isinstance(eng, args, kwargs, st):
    v, T = args
    return ok(eng.mkbool(isinstance_model(eng, v, T, st)), st)


def n_type(eng, args, kwargs, st):
    (v,) = args
    t = pytype_name(v)
    m = {"str": str, "int": int, "bool": bool, "NoneType": NoneType, "float": float, "tuple": tuple, "complex": complex}
    if t in m:
        return ok(Native(m[t]), st)
    if isinstance(v, Ref):
        h = st.heap[v.oid]
        if isinstance(h, HObj) and h.cls:
            return ok(Native(_resolve_cls(h.cls)), st)
        return ok(Native(dict if isinstance(h, HDict) else list), st)
    if isinstance(v, Opq) and v.cls:
        return ok(Native(_resolve_cls(v.cls)), st)
    raise Unsupported("type() of %r" % (v,))


def n_int(eng, args, kwargs, st):
    if not args:
        return ok(0, st)
    (v,) = args
    if isinstance(v, Sym):
        if v.ty == "bool":
            return ok(Sym(z3.If(v.t, z3.IntVal(1), z3.IntVal(0)), "int"), st)
        if v.ty == "int":
            return ok(v, st)
        res = []
        for flag, s2 in eng.fork(z3.InRe(v.t, smt.RE_PY_INT), st):
            if flag:
                res.append((Sym(smt.int_of_str(v.t), "int"), s2))
            else:
                res.append((Raise(Exc("ValueError", "invalid literal for int()")), s2))
        return res
    if isinstance(v, Opq):
        return _conv_opq(eng, v, "int", st)
    if _concrete(v):
        try:
            return ok(int(v), st)
        except (ValueError, TypeError) as e:
            return err(type(e).__name__, str(e), st)
    raise Unsupported("int(%r)" % (v,))


def _conv_opq(eng, v, kind, st):
    """K(opaque): may raise; the value is an uninterpreted function of the object"""
    eng.assumed.add("%s() of an opaque literal value: uninterpreted result, may raise ValueError/TypeError" % kind)
    okp = z3.Function("conv_ok_" + kind, Obj, B)(v.t)
    res = []
    for flag, s2 in eng.fork(okp, st):
        if not flag:
            res.append((Raise(Exc("ValueError", "%s() of a non-convertible literal" % kind)), s2))
            continue
        if kind == "int":
            res.append((Sym(z3.Function("conv_int", Obj, I)(v.t), "int"), s2))
        elif kind == "bool":
            res.append((Sym(obj_truthy(v.t), "bool"), s2))
        elif kind == "str":
            res.append((Sym(pystr_of_obj(v.t), "str"), s2))
        elif kind == "float":
            res.append((Opq(z3.Function("conv_float", Obj, Obj)(v.t), "float"), s2))
        elif kind == "complex":
            res.append((Opq(z3.Function("conv_complex", Obj, Obj)(v.t), "complex"), s2))
    return res


def n_float(eng, args, kwargs, st):
    (v,) = args
    if isinstance(v, Sym):
        if v.ty == "str":
            res = []
            for flag, s2 in eng.fork(z3.InRe(v.t, smt.RE_PY_FLOAT), st):
                if flag:
                    res.append((Opq(float_of_str(v.t), "float"), s2))
                else:
                    res.append((Raise(Exc("ValueError", "could not convert string to float")), s2))
            return res
        return ok(Opq(z3.Function("float_of_int", I, Obj)(eng._num(v)), "float"), st)
    if isinstance(v, Opq):
        if v.cls == "float":
            return ok(v, st)
        return _conv_opq(eng, v, "float", st)
    if _concrete(v):
        try:
            return ok(float(v), st)
        except (ValueError, TypeError) as e:
            return err(type(e).__name__, str(e), st)
    raise Unsupported("float(%r)" % (v,))


def n_complex(eng, args, kwargs, st):
    (v,) = args
    if isinstance(v, Opq):
        return _conv_opq(eng, v, "complex", st)
    if _concrete(v):
        try:
            return ok(complex(v), st)
        except (ValueError, TypeError) as e:
            return err(type(e).__name__, str(e), st)
    raise Unsupported("complex(%r)" % (v,))


def n_bool(eng, args, kwargs, st):
    if not args:
        return ok(False, st)
    (v,) = args
    if isinstance(v, Opq) and v.cls is None:
        return ok(eng.mkbool(eng.truth(v, st)), st)
    return ok(eng.mkbool(eng.truth(v, st)), st)


def n_str(eng, args, kwargs, st):
    if not args:
        return ok("", st)
    (v,) = args
    if isinstance(v, Opq) and v.cls is None:
        return ok(text_of(eng, v), st)
    return ok(text_of(eng, v), st)


def n_sum(eng, args, kwargs, st):
    items = eng.iter_concrete(args[0], st)
    acc = args[1] if len(args) > 1 else 0
    for it in items:
        (acc, st), = eng.binop(ast.Add(), acc, it, st)
        if isinstance(acc, Raise):
            return [(acc, st)]
    return ok(acc, st)


def n_any(eng, args, kwargs, st):
    items = eng.iter_concrete(args[0], st)
    return ok(eng.mkbool(eng._or([eng.truth(x, st) for x in items])), st)


def n_all(eng, args, kwargs, st):
    items = eng.iter_concrete(args[0], st)
    return ok(eng.mkbool(eng._and([eng.truth(x, st) for x in items])), st)


def n_map(eng, args, kwargs, st):
    f = args[0]
    if len(args) == 2 and isinstance(args[1], Opq) and args[1].cls is None and isinstance(f, Native) and getattr(f.obj, "__objclass__", None) is str:
        # map(str.<method>, <opaque list of an unknown number of strings>): an opaque list again, a function of the first
        eng.assumed.add("map(str.%s, <opaque list>): an opaque list (only joined or handed on)" % f.obj.__name__)
        return [(Opq(z3.Function("map_str_%s" % f.obj.__name__, Obj, Obj)(args[1].t), None), st)]
    seqs = [eng.iter_concrete(a, st) for a in args[1:]]
    outs = [([], st)]
    for tup in zip(*seqs):
        nxt = []
        for acc, s in outs:
            if isinstance(acc, Raise):
                nxt.append((acc, s))
                continue
            for v, s2 in eng.call(f, list(tup), {}, s):
                nxt.append((v, s2) if isinstance(v, Raise) else (acc + [v], s2))
        outs = nxt
    return [(acc, s) if isinstance(acc, Raise) else (s.alloc(HList(acc)), s) for acc, s in outs]


def n_filter(eng, args, kwargs, st):
    f, it = args
    items = eng.iter_concrete(it, st)
    outs = [([], st)]
    for item in items:
        nxt = []
        for acc, s in outs:
            if isinstance(acc, Raise):
                nxt.append((acc, s))
                continue
            if f is None:
                tests = [(item, s)]
            else:
                tests = eng.call(f, [item], {}, s)
            for tv, s2 in tests:
                if isinstance(tv, Raise):
                    nxt.append((tv, s2))
                    continue
                for flag, s3 in eng.fork(eng.truth(tv, s2), s2):
                    nxt.append((acc + [item], s3) if flag else (acc, s3))
        outs = nxt
    return [(acc, s) if isinstance(acc, Raise) else (s.alloc(HList(acc)), s) for acc, s in outs]


def n_filterfalse(eng, args, kwargs, st):
    f, it = args
    items = eng.iter_concrete(it, st)
    outs = [([], st)]
    for item in items:
        nxt = []
        for acc, s in outs:
            if isinstance(acc, Raise):
                nxt.append((acc, s))
                continue
            tests = [(item, s)] if f is None else eng.call(f, [item], {}, s)
            for tv, s2 in tests:
                if isinstance(tv, Raise):
                    nxt.append((tv, s2))
                    continue
                for flag, s3 in eng.fork(eng.truth(tv, s2), s2):
                    nxt.append((acc, s3) if flag else (acc + [item], s3))
        outs = nxt
    return [(acc, s) if isinstance(acc, Raise) else (s.alloc(HList(acc)), s) for acc, s in outs]


def n_reversed(eng, args, kwargs, st):
    items = eng.iter_concrete(args[0], st)
    return ok(st.alloc(HList(list(reversed(items)))), st)


def n_enumerate(eng, args, kwargs, st):
    it = args[0]
    start = args[1] if len(args) > 1 else kwargs.get("start", 0)
    if isinstance(it, Sym) and it.ty == "str":
        return ok(SymEnumerate(it, start), st)
    if isinstance(it, (SymRange, SymEnumerate)):
        return ok(SymEnumerate(it, start), st)
    items = eng.iter_concrete(it, st)
    if isinstance(start, Sym):
        raise Unsupported("symbolic enumerate start")
    return ok(st.alloc(HList([(i, x) for i, x in enumerate(items, start)])), st)


def n_range(eng, args, kwargs, st):
    if len(args) == 1 and isinstance(args[0], Sym):
        return ok(SymRange(eng._num(args[0])), st)
    if all(_concrete(a) for a in args):
        return ok(tuple(range(*args)), st)
    raise Unsupported("symbolic range with start/step")


def n_next(eng, args, kwargs, st):
    it = args[0]
    items = eng.iter_concrete(it, st)
    if items:
        return ok(items[0], st)
    if len(args) > 1:
        return ok(args[1], st)
    return err("StopIteration", "", st)


def n_iter(eng, args, kwargs, st):
    return ok(args[0], st)


def n_tuple(eng, args, kwargs, st):
    if not args:
        return ok((), st)
    return ok(tuple(eng.iter_concrete(args[0], st)), st)


def n_list(eng, args, kwargs, st):
    if not args:
        return ok(st.alloc(HList([])), st)
    if isinstance(args[0], Opq):
        eng.assumed.add("list(<opaque iterable>) is an opaque list")
        return ok(Opq(z3.Function("list_of", Obj, Obj)(args[0].t), None), st)
    return ok(st.alloc(HList(eng.iter_concrete(args[0], st))), st)


def n_frozenset(eng, args, kwargs, st):
    if not args:
        return ok(Const(frozenset()), st)
    items = eng.iter_concrete(args[0], st)
    if all(_concrete(x) for x in items):
        return ok(Const(frozenset(items)), st)
    raise Unsupported("frozenset of symbolic members")


def n_dict(eng, args, kwargs, st):
    d = HDict()
    if args:
        src = args[0]
        if isinstance(src, Ref) and isinstance(st.heap[src.oid], HDict):
            h = st.heap[src.oid]
            for k in h.keys:
                d.keys.append(k)
                d.vals[k] = h.vals[k]
                d.pres[k] = h.pres[k]
        elif isinstance(src, Const) and isinstance(src.obj, dict):
            for k, v in src.obj.items():
                d.set(k, eng.lift(v))
        else:
            for pair in eng.iter_concrete(src, st):
                k, v = eng.iter_concrete(pair, st)
                if isinstance(k, (Sym, Opq, Ref)):
                    raise Unsupported("symbolic dict key")
                d.set(k, v)
    for k, v in kwargs.items():
        d.set(k, v)
    return ok(st.alloc(d), st)


def n_getattr(eng, args, kwargs, st):
    o, name = args[0], args[1]
    if not isinstance(name, str):
        raise Unsupported("getattr with symbolic name")
    outs = eng.getattr(o, name, st)
    if len(args) > 2:
        return [((args[2], s) if isinstance(v, Raise) and v.exc.kind == "AttributeError" else (v, s)) for v, s in outs]
    return outs


def n_hasattr(eng, args, kwargs, st):
    o, name = args
    t = pytype_name(o)
    if t in ("str", "tuple") or isinstance(o, Ref) and isinstance(st.heap[o.oid], (HList, HDict)):
        cls = {"str": str, "tuple": tuple}.get(t) or (list if isinstance(st.heap[o.oid], HList) else dict)
        return ok(hasattr(cls, name), st)
    if t in ("int", "bool", "NoneType", "float"):
        return ok(hasattr({"int": int, "bool": bool, "NoneType": NoneType, "float": float}[t], name), st)
    if isinstance(o, Ref) and isinstance(st.heap[o.oid], HObj):
        return ok(name in st.heap[o.oid].attrs, st)
    if isinstance(o, Opq):
        eng.assumed.add("hasattr on opaque objects is an uninterpreted predicate")
        return ok(Sym(z3.Function("has_attr_" + name, Obj, B)(o.t), "bool"), st)
    if isinstance(o, Native):
        return ok(hasattr(o.obj, name), st)
    raise Unsupported("hasattr(%r)" % (o,))


def n_eq(eng, args, kwargs, st):
    a, b = args
    return ok(eng.mkbool(eng.eq(a, b, st)), st)


def n_contains(eng, args, kwargs, st):
    a, b = args
    return ok(eng.mkbool(eng.contains(a, b, st)), st)


def n_partial(eng, args, kwargs, st):
    return ok(Partial(args[0], tuple(args[1:]), dict(kwargs)), st)


def n_takewhile(eng, args, kwargs, st):
    pred, it = args
    if isinstance(it, Sym) and it.ty == "str":
        chars = _charset_of_pred(pred)
        if chars is None:
            raise Unsupported("takewhile over a symbolic string with a general predicate")
        return ok(LazyPrefix(chars, it), st)
    items = eng.iter_concrete(it, st)
    outs = [([], False, st)]
    for item in items:
        nxt = []
        for acc, done, s in outs:
            if done or isinstance(acc, Raise):
                nxt.append((acc, done, s))
                continue
            for tv, s2 in eng.call(pred, [item], {}, s):
                if isinstance(tv, Raise):
                    nxt.append((tv, True, s2))
                    continue
                for flag, s3 in eng.fork(eng.truth(tv, s2), s2):
                    nxt.append((acc + [item], False, s3) if flag else (acc, True, s3))
        outs = nxt
    return [(acc, s) if isinstance(acc, Raise) else (s.alloc(HList(acc)), s) for acc, _, s in outs]


def _charset_of_pred(pred):
    if (
        isinstance(pred, Partial)
        and isinstance(pred.f, Native)
        and pred.f.obj is operator.contains
        and len(pred.args) == 1
        and isinstance(pred.args[0], Const)
        and all(isinstance(c, str) and len(c) == 1 for c in pred.args[0].obj)
    ):
        return "".join(sorted(pred.args[0].obj))
    return None


def prefix_len(eng, lp, st):
    """length of the longest prefix of lp.s over lp.chars; facts go to the path condition"""
    s = to_term(lp.s)
    k = z3.Function("preflen_" + smt.sha(lp.chars)[:8], S, I)(s)
    st.pc.append(k >= 0)
    st.pc.append(k <= z3.Length(s))
    st.pc.append(z3.InRe(z3.SubString(s, 0, k), smt.re_star_chars(lp.chars)))
    st.pc.append(z3.Or(k == z3.Length(s), z3.Not(z3.InRe(smt.char_at(s, k), smt.re_chars(lp.chars)))))
    return Sym(k, "int")


def n_count_iter_items(eng, args, kwargs, st):
    (it,) = args
    if isinstance(it, LazyPrefix):
        return ok(prefix_len(eng, it, st), st)
    return ok(len(eng.iter_concrete(it, st)), st)


def n_literal_eval(eng, args, kwargs, st):
    (v,) = args
    if isinstance(v, str):
        try:
            r = ast.literal_eval(v)
        except (ValueError, SyntaxError) as e:
            return err(type(e).__name__, str(e), st)
        if isinstance(r, (list, dict, set)):
            raise Unsupported("literal_eval to a container")
        return ok(r, st)
    if isinstance(v, Sym) and v.ty == "str":
        res = []
        cur = st
        for lit, val in (("True", True), ("False", False), ("None", None)):
            outs = eng.fork(v.t == z3.StringVal(lit), cur)
            nxt = None
            for flag, s2 in outs:
                if flag:
                    res.append((val, s2))
                else:
                    nxt = s2
            if nxt is None:
                return res
            cur = nxt
        eng.assumed.add("ast.literal_eval: success is an uninterpreted predicate of the text, its value an uninterpreted function")
        for flag, s2 in eng.fork(is_py_literal(v.t), cur):
            if flag:
                res.append((Opq(lit_eval(v.t), None), s2))
            else:
                sel = z3.Function("lit_err_is_syntax", S, B)(v.t)
                for f2, s3 in eng.fork(sel, s2):
                    res.append((Raise(Exc("SyntaxError" if f2 else "ValueError", "literal_eval")), s3))
        return res
    if isinstance(v, Opq):
        return err("ValueError", "malformed node or string", st)
    raise Unsupported("literal_eval(%r)" % (v,))


def n_abs(eng, args, kwargs, st):
    (v,) = args
    if isinstance(v, Sym) and v.ty in ("int", "bool"):
        t = eng._num(v)
        return ok(Sym(z3.If(t >= 0, t, -t), "int"), st)
    return ok(abs(v), st)


def n_max(eng, args, kwargs, st):
    if len(args) == 2 and all(pytype_name(a) in ("int", "bool") for a in args):
        a, b = args
        if not isinstance(a, Sym) and not isinstance(b, Sym):
            return ok(max(a, b), st)
        x, y = eng._num(a), eng._num(b)
        return ok(Sym(z3.If(x >= y, x, y), "int"), st)
    raise Unsupported("max")


def n_min(eng, args, kwargs, st):
    if len(args) == 2 and all(pytype_name(a) in ("int", "bool") for a in args):
        a, b = args
        if not isinstance(a, Sym) and not isinstance(b, Sym):
            return ok(min(a, b), st)
        x, y = eng._num(a), eng._num(b)
        return ok(Sym(z3.If(x <= y, x, y), "int"), st)
    raise Unsupported("min")


def n_zip(eng, args, kwargs, st):
    seqs = [eng.iter_concrete(a, st) for a in args]
    return ok(st.alloc(HList([tuple(t) for t in zip(*seqs)])), st)


def n_casefold(eng, args, kwargs, st):
    (v,) = args
    return call_method(eng, v, "casefold", [], {}, st)


def n_str_method(name):
    def f(eng, args, kwargs, st):
        return call_method(eng, args[0], name, list(args[1:]), kwargs, st)

    return f


def n_chain_from_iterable(eng, args, kwargs, st):
    out = []
    for it in eng.iter_concrete(args[0], st):
        out.extend(eng.iter_concrete(it, st))
    return ok(st.alloc(HList(out)), st)


def n_chain(eng, args, kwargs, st):
    out = []
    for it in args:
        out.extend(eng.iter_concrete(it, st))
    return ok(st.alloc(HList(out)), st)


def n_print(eng, args, kwargs, st):
    st.log.append(("print", tuple(args)))
    return ok(None, st)


def n_generic_visit(eng, args, kwargs, st):
    """ast.NodeTransformer.generic_visit(self, node): the faithful traversal for modelled nodes; an opaque node is returned as it is (trusted)"""
    if len(args) == 2 and _node_cls(args[1], st) is not None and isinstance(args[0], Ref):
        return n_transformer_generic_visit(eng, args, kwargs, st)
    eng.assumed.add("ast.NodeTransformer.generic_visit returns the visited opaque node itself (library traversal trusted)")
    return ok(args[1], st)


class _Cycle:
    def __init__(self, items):
        self.items = items


def n_cycle(eng, args, kwargs, st):
    return ok(Native(_Cycle(eng.iter_concrete(args[0], st))), st)


def n_islice(eng, args, kwargs, st):
    src, n = args[0], args[1]
    if isinstance(n, Sym) or len(args) != 2:
        raise Unsupported("islice with symbolic / extended bounds")
    if isinstance(src, Native) and isinstance(src.obj, _Cycle):
        items = src.obj.items
        return ok(st.alloc(HList([items[i % len(items)] for i in range(n)] if items else [])), st)
    return ok(st.alloc(HList(eng.iter_concrete(src, st)[:n])), st)


def n_setattr(eng, args, kwargs, st):
    o, name, v = args
    if isinstance(o, Ref) and isinstance(st.heap[o.oid], HObj) and isinstance(name, str):
        st.heap[o.oid].attrs[name] = v
        return ok(None, st)
    raise Unsupported("setattr on %r" % (o,))


def n_setitem(eng, args, kwargs, st):
    """operator.setitem(container, key, value)"""
    c, i, v = args
    outs = eng.setitem(c, i, v, st)
    return [(Raise(val), s) if kind == "raise" else (None, s) for kind, val, s in outs]


class _ItemGetter:
    def __init__(self, key):
        self.key = key


def n_itemgetter(eng, args, kwargs, st):
    if len(args) != 1 or isinstance(args[0], (Sym, Opq, Ref)):
        raise Unsupported("itemgetter with several / symbolic keys")
    return ok(Native(_ItemGetter(args[0])), st)


def n_ordereddict(eng, args, kwargs, st):
    return n_dict(eng, args, kwargs, st)


def _deep_clone(v, st, memo):
    """copy.deepcopy on the modelled heap: containers and records are cloned (shared substructure stays shared), scalars are immutable"""
    if isinstance(v, tuple):
        return tuple(_deep_clone(x, st, memo) for x in v)
    if isinstance(v, Opq):
        # a copy of an opaque object is another opaque object of the same class: nothing is known about it except through the copy relation
        if v.t.sexpr() not in memo:
            memo[v.t.sexpr()] = Opq(z3.Function("deepcopy_of", Obj, Obj)(v.t), v.cls)
        return memo[v.t.sexpr()]
    if not isinstance(v, Ref):
        return v
    if v.oid in memo:
        return memo[v.oid]
    c = st.heap[v.oid].copy()
    r = st.alloc(c)
    memo[v.oid] = r
    if isinstance(c, HList):
        c.items = [_deep_clone(x, st, memo) for x in c.items]
    elif isinstance(c, HDict):
        c.vals = {k: _deep_clone(x, st, memo) for k, x in c.vals.items()}
    elif isinstance(c, HObj):
        c.attrs = {k: _deep_clone(x, st, memo) for k, x in c.attrs.items()}
    return r


def _ast_children(v, st):
    """ast.iter_child_nodes on a modelled node: the node-valued fields (and node members of list fields) in the order of the class's _fields"""
    if not (isinstance(v, Ref) and isinstance(st.heap[v.oid], HObj) and (st.heap[v.oid].cls or "").startswith("ast.")):
        raise Unsupported("ast traversal of %r" % (v,))
    h = st.heap[v.oid]
    cls = getattr(ast, h.cls[4:], None)
    if cls is None:
        raise Unsupported("unknown ast class %s" % h.cls)

    def is_node(x):
        return isinstance(x, Ref) and isinstance(st.heap[x.oid], HObj) and (st.heap[x.oid].cls or "").startswith("ast.")

    out = []
    for f in cls._fields:
        if f not in h.attrs:
            continue
        x = h.attrs[f]
        if is_node(x):
            out.append(x)
        elif isinstance(x, Ref) and isinstance(st.heap[x.oid], HList):
            for y in st.heap[x.oid].items:
                if is_node(y):
                    out.append(y)
                elif isinstance(y, Opq):
                    raise Unsupported("opaque member in an ast list field")
        elif isinstance(x, Opq):
            if x.cls == "ast.expr":
                out.append(x)  # an opaque EXPRESSION is a leaf of the walk: expressions contain no statements or definitions (its own sub-expressions stay unknown)
            else:
                raise Unsupported("opaque ast field %s" % f)
    return out


def n_iter_child_nodes(eng, args, kwargs, st):
    return ok(st.alloc(HList(_ast_children(args[0], st))), st)


def n_ast_walk(eng, args, kwargs, st):
    """ast.walk: breadth-first, as CPython's deque-based implementation.  The list is computed at call time: code that adds or removes
    nodes while walking is outside this model (annotate_ancestry only sets attributes and rebuilds argument lists with the same members)"""
    todo = [args[0]]
    out = []
    while todo:
        n = todo.pop(0)
        out.append(n)
        if isinstance(n, Opq):
            continue
        todo.extend(_ast_children(n, st))
        if len(out) > 400:
            raise Unsupported("ast.walk over more than 400 nodes")
    eng.assumed.add("ast.walk / iter_child_nodes on modelled nodes: computed at call time in CPython's order (BFS over _fields)")
    return ok(st.alloc(HList(out)), st)


def lift_real(v, st):
    """a real Python value (incl. real ast nodes) as a modelled value"""
    if isinstance(v, dict):
        d = HDict()
        for k, x in v.items():
            d.set(k, lift_real(x, st))
        return st.alloc(d)
    if isinstance(v, list):
        return st.alloc(HList([lift_real(x, st) for x in v]))
    if isinstance(v, tuple):
        return tuple(lift_real(x, st) for x in v)
    if isinstance(v, ast.AST):
        o = HObj("ast." + type(v).__name__)
        for k, x in vars(v).items():
            o.attrs[k] = lift_real(x, st)
        return st.alloc(o)
    return v


def n_ast_parse(eng, args, kwargs, st):
    """ast.parse of a CONCRETE source text is a pure function: the real parser runs and its tree is lifted (symbolic text: outside the subset)"""
    if len(args) >= 1 and isinstance(args[0], str) and all(_concrete(a) for a in args[1:]) and all(_concrete(v) for v in kwargs.values()):
        try:
            tree = ast.parse(*args, **kwargs)
        except SyntaxError as e:
            return err("SyntaxError", str(e), st)
        return ok(lift_real(tree, st), st)
    raise Unsupported("ast.parse of a symbolic text")


def _node_cls(v, st):
    if isinstance(v, Ref) and isinstance(st.heap[v.oid], HObj) and (st.heap[v.oid].cls or "").startswith("ast."):
        return st.heap[v.oid].cls[4:]
    return None


def n_node_visit(eng, args, kwargs, st):
    """ast.NodeVisitor.visit(self, node): dispatch on the node's class name to visit_<Class>, else generic_visit"""
    self_, node = args
    cname = _node_cls(node, st)
    if cname is None:
        raise Unsupported("visit of %r" % (node,))
    real_cls = eng._real_class(st.heap[self_.oid].cls)
    meth = getattr(real_cls, "visit_" + cname, None) or getattr(real_cls, "generic_visit")
    return eng.call(Native(meth), [self_, node], {}, st)


def n_transformer_generic_visit(eng, args, kwargs, st):
    """ast.NodeTransformer.generic_visit(self, node) as in CPython: every node-valued field (and node member of a list field) is visited; a None result
    removes it, a non-node result (a list) is spliced, anything else replaces it"""
    self_, node = args
    cname = _node_cls(node, st)
    if cname is None:
        raise Unsupported("generic_visit of %r" % (node,))
    fields = [f for f in getattr(ast, cname)._fields if f in st.heap[node.oid].attrs]
    states = [st]
    for f in fields:
        nxt_states = []
        for s in states:
            old = s.heap[node.oid].attrs[f]
            if isinstance(old, Ref) and isinstance(s.heap[old.oid], HList):
                accs = [([], s)]
                for item in list(s.heap[old.oid].items):
                    nacc = []
                    for acc, s2 in accs:
                        if _node_cls(item, s2) is None:
                            nacc.append((acc + [item], s2))
                            continue
                        for r, s3 in n_node_visit(eng, [self_, item], {}, s2):
                            if isinstance(r, Raise):
                                return [(r, s3)]
                            if r is None:
                                nacc.append((acc, s3))
                            elif _node_cls(r, s3) is not None:
                                nacc.append((acc + [r], s3))
                            elif isinstance(r, Ref) and isinstance(s3.heap[r.oid], HList):
                                nacc.append((acc + list(s3.heap[r.oid].items), s3))
                            else:
                                raise Unsupported("visitor returned %r" % (r,))
                    accs = nacc
                for acc, s2 in accs:
                    s2.heap[old.oid].items[:] = acc  # `old_value[:] = new_values`: the list object is kept
                    nxt_states.append(s2)
            elif _node_cls(old, s) is not None:
                for r, s3 in n_node_visit(eng, [self_, old], {}, s):
                    if isinstance(r, Raise):
                        return [(r, s3)]
                    if r is None:
                        del s3.heap[node.oid].attrs[f]
                    else:
                        s3.heap[node.oid].attrs[f] = r
                    nxt_states.append(s3)
            else:
                nxt_states.append(s)
        states = nxt_states
    eng.assumed.add("ast.NodeVisitor.visit / NodeTransformer.generic_visit: modelled as in CPython's ast.py (dispatch by class name; fields in _fields order)")
    return [(node, s) for s in states]


def n_fix_missing_locations(eng, args, kwargs, st):
    eng.assumed.add("ast.fix_missing_locations: sets position attributes only and returns its argument")
    return ok(args[0], st)


def n_deepcopy(eng, args, kwargs, st):
    return ok(_deep_clone(args[0], st, {}), st)


def n_textwrap_indent(eng, args, kwargs, st):
    """textwrap.indent(text, prefix) (no predicate): each line that is not blank gets the prefix.  Modelled for a text without any line boundary (as in
    CPython: ''.join(prefix + line if line.strip() else line for line in text.splitlines(True))); with a boundary the result is uninterpreted."""
    text, prefix = args[0], args[1]
    if kwargs or len(args) != 2:
        raise Unsupported("textwrap.indent with a predicate")
    if isinstance(text, str) and isinstance(prefix, str):
        import textwrap

        return ok(textwrap.indent(text, prefix), st)
    t, pfx = to_term(text), to_term(prefix)
    bounds = "\n\r\x0b\x0c\x1c\x1d\x1e\x85"
    has_b = z3.Or(*[z3.Contains(t, z3.StringVal(c)) for c in bounds])
    blank = z3.InRe(t, smt.WS)
    if smt.quick_check(st.pc, has_b) == "unsat":
        # the path condition excludes every line boundary: one line; fork on "blank" so that the result keeps its literal skeleton (prefix ++ text)
        eng.assumed.add("textwrap.indent: modelled for a text without line boundaries (within Latin-1; U+2028/U+2029 are outside the solver alphabet used): "
                        "prefix + text unless blank; uninterpreted otherwise")
        outs = []
        for flag, s2 in eng.fork(blank, st):
            outs.append((text if flag else Sym(z3.Concat(pfx, t), "str"), s2))
        return outs
    r = z3.If(has_b, z3.Function("textwrap_indent", S, S, S)(t, pfx), z3.If(blank, t, z3.Concat(pfx, t)))
    eng.assumed.add("textwrap.indent: modelled for a text without line boundaries (within Latin-1; U+2028/U+2029 are outside the solver alphabet used): "
                    "prefix + text unless blank; uninterpreted otherwise")
    return ok(Sym(r, "str"), st)


def n_identity(eng, args, kwargs, st):
    return ok(args[0] if len(args) == 1 else tuple(args), st)


NATIVE = {
    ast.parse: n_ast_parse, ast.fix_missing_locations: n_fix_missing_locations, operator.setitem: n_setitem, reversed: n_reversed, itertools.filterfalse: n_filterfalse, copy.deepcopy: n_deepcopy, ast.walk: n_ast_walk, ast.iter_child_nodes: n_iter_child_nodes,
    len: n_len, isinstance: n_isinstance, type: n_type, int: n_int, float: n_float, bool: n_bool, str: n_str,
    complex: n_complex, sum: n_sum, any: n_any, all: n_all, map: n_map, filter: n_filter,
    enumerate: n_enumerate, range: n_range, next: n_next, iter: n_iter, tuple: n_tuple, list: n_list,
    frozenset: n_frozenset, set: n_frozenset, dict: n_dict, getattr: n_getattr, hasattr: n_hasattr,
    operator.eq: n_eq, operator.contains: n_contains, functools.partial: n_partial,
    itertools.takewhile: n_takewhile, ast.literal_eval: n_literal_eval, abs: n_abs, max: n_max, min: n_min,
    zip: n_zip, str.casefold: n_casefold, itertools.chain.from_iterable: n_chain_from_iterable,
    itertools.chain: n_chain, print: n_print, ast.NodeTransformer.generic_visit: n_generic_visit,
    itertools.cycle: n_cycle, itertools.islice: n_islice, setattr: n_setattr, operator.itemgetter: n_itemgetter,
    __import__("collections").OrderedDict: n_ordereddict,
    str.strip: n_str_method("strip"), str.lstrip: n_str_method("lstrip"), str.rstrip: n_str_method("rstrip"),
    str.startswith: n_str_method("startswith"), str.endswith: n_str_method("endswith"),
    str.lower: n_str_method("lower"), __import__("textwrap").indent: n_textwrap_indent,
}


def register_repo_natives():
    """models keyed by the real repo objects (count_iter_items, identity) -- looked up lazily"""
    try:
        from doctrans import pure_utils

        NATIVE[pure_utils.count_iter_items] = n_count_iter_items
        NATIVE[pure_utils.identity] = n_identity
    except Exception:
        pass


# ------------------------------------------------------------------------------- methods
def strip_model(eng, v, chars, side, st):
    """v.strip(chars) with skolem functions; facts go to the path condition (valid for all v)"""
    if chars is None:
        chars = smt.PY_WS + "\x1c\x1d\x1e\x1f\x85\xa0"
    tag = smt.sha(side + ":" + "".join(sorted(set(chars))))[:8]
    s = to_term(v)
    if side in ("lstrip", "strip"):
        # ("    " ++ rest).lstrip() == rest.lstrip(): leading literal characters that are all stripped can be dropped first (valid for every rest)
        sl = smt.split_literal_prefix(s)
        if sl is not None and sl[0] and sl[1] and all(c in chars for c in sl[0]):
            s = sl[1][0] if len(sl[1]) == 1 else z3.Concat(*sl[1])
    ns = z3.Length(s)
    first_kept = z3.Or(ns == 0, z3.Not(z3.InRe(smt.char_at(s, 0), smt.re_chars(chars))))
    last_kept = z3.Or(ns == 0, z3.Not(z3.InRe(smt.char_at(s, ns - 1), smt.re_chars(chars))))
    mid = z3.Function("%s_%s" % (side, tag), S, S)(s)
    cs = smt.re_star_chars(chars)
    one = smt.re_chars(chars)
    n = z3.Length(mid)
    if side == "strip":
        pre = z3.Function("strip_pre_%s" % tag, S, S)(s)
        suf = z3.Function("strip_suf_%s" % tag, S, S)(s)
        st.pc.append(s == z3.Concat(pre, mid, suf))
        st.pc.append(z3.InRe(pre, cs))
        st.pc.append(z3.InRe(suf, cs))
        st.pc.append(z3.Or(n == 0, z3.Not(z3.InRe(smt.char_at(mid, 0), one))))
        st.pc.append(z3.Or(n == 0, z3.Not(z3.InRe(smt.char_at(mid, n - 1), one))))
        st.pc.append(z3.Or(n > 0, suf == z3.StringVal("")))  # canonical split when everything is stripped
        st.pc.append(z3.Implies(first_kept, pre == z3.StringVal("")))  # nothing to strip at an end whose character is kept (consequences of the above, stated for the solver)
        st.pc.append(z3.Implies(last_kept, suf == z3.StringVal("")))
    elif side == "lstrip":
        pre = z3.Function("lstrip_pre_%s" % tag, S, S)(s)
        st.pc.append(s == z3.Concat(pre, mid))
        st.pc.append(z3.InRe(pre, cs))
        st.pc.append(z3.Or(n == 0, z3.Not(z3.InRe(smt.char_at(mid, 0), one))))
        st.pc.append(z3.Implies(first_kept, mid == s))
    else:
        suf = z3.Function("rstrip_suf_%s" % tag, S, S)(s)
        st.pc.append(s == z3.Concat(mid, suf))
        st.pc.append(z3.InRe(suf, cs))
        st.pc.append(z3.Or(n == 0, z3.Not(z3.InRe(smt.char_at(mid, n - 1), one))))
        st.pc.append(z3.Implies(last_kept, mid == s))
    return Sym(mid, "str")


def parse_format(tpl):
    """-> list of ('lit', text) | ('field', key, conv)"""
    out = []
    auto = 0
    for lit, field, spec, conv in _string.Formatter().parse(tpl):
        if lit:
            out.append(("lit", lit))
        if field is None:
            continue
        if spec:
            raise Unsupported("format spec %r" % spec)
        if field == "":
            key = auto
            auto += 1
        elif field.isdigit():
            key = int(field)
        else:
            key = field
        out.append(("field", key, conv))
    return out


def call_method(eng, recv, name, args, kwargs, st):
    t = pytype_name(recv)
    if t == "str":
        return str_method(eng, recv, name, args, kwargs, st)
    if isinstance(recv, Ref):
        h = st.heap[recv.oid]
        if isinstance(h, HDict):
            return dict_method(eng, recv, h, name, args, kwargs, st)
        if isinstance(h, HList):
            return list_method(eng, recv, h, name, args, kwargs, st)
    if isinstance(recv, Const):
        return const_method(eng, recv, name, args, kwargs, st)
    raise Unsupported("method %s on %r" % (name, recv))


def str_method(eng, recv, name, args, kwargs, st):
    allc = isinstance(recv, str) and all(_concrete(a) for a in args) and all(_concrete(v) for v in kwargs.values())
    if name == "format":
        if not isinstance(recv, str):
            raise Unsupported("format on a symbolic template")
        parts = []
        for piece in parse_format(recv):
            if piece[0] == "lit":
                parts.append(piece[1])
                continue
            _, key, conv = piece
            base, _, rest = (key, "", "") if isinstance(key, int) else key.partition("[")
            if isinstance(key, str) and ("." in key or "[" in key):
                raise Unsupported("format field %r" % key)
            if isinstance(key, int):
                if key >= len(args):
                    return err("IndexError", "Replacement index out of range", st)
                v = args[key]
            else:
                if key not in kwargs:
                    return err("KeyError", key, st)
                v = kwargs[key]
            if conv == "r":
                if _concrete(v):
                    parts.append(repr(v))
                    continue
                raise Unsupported("!r of symbolic value")
            if isinstance(v, (Ref, Const, Fn, Native)):
                raise Unsupported("format of container")
            parts.append(text_of(eng, v))
        return ok(concat(parts), st)
    if allc:
        if name == "casefold":
            return ok(smt.note_casefold(recv), st)
        try:
            r = getattr(recv, name)(*args, **kwargs)
        except Exception as e:  # noqa
            return err(type(e).__name__, str(e), st)
        if isinstance(r, list):
            return ok(st.alloc(HList(r)), st)
        return ok(r, st)
    s = to_term(recv)
    if name in ("startswith", "endswith"):
        if len(args) != 1:
            raise Unsupported("startswith with bounds")
        (a,) = args
        alts = list(a) if isinstance(a, tuple) else [a]
        if name == "endswith" and not isinstance(recv, str) and all(isinstance(x, str) for x in alts):
            from . import structstr

            suf = structstr.literal_suffix(structstr.parts(s))
            if suf:
                if any(x and suf.endswith(x) for x in alts):
                    return ok(True, st)
                if all(x and (len(x) <= len(suf) or not x.endswith(suf)) for x in alts):
                    return ok(False, st)  # every alternative already disagrees with the literal end of the text
        pre = smt.literal_prefix(s)
        if name == "startswith" and pre is not None and all(isinstance(x, str) for x in alts):
            if any(pre.startswith(x) for x in alts):
                return ok(True, st)
            if all(len(x) <= len(pre) or not x.startswith(pre) for x in alts):
                return ok(False, st)  # every alternative already disagrees with the literal prefix
        parts = []
        for x in alts:
            if pytype_name(x) != "str":
                return err("TypeError", "%s first arg must be str" % name, st)
            parts.append(z3.PrefixOf(to_term(x), s) if name == "startswith" else z3.SuffixOf(to_term(x), s))
        return ok(eng.mkbool(eng._or(parts)), st)
    if name in ("strip", "lstrip", "rstrip"):
        chars = args[0] if args else None
        if chars is not None and not isinstance(chars, str):
            raise Unsupported("strip with symbolic chars")
        if chars == "":
            return ok(recv, st)
        if not isinstance(recv, str):
            # on a text with a literal skeleton the literal ends are stripped literally; when a literal character that is kept is reached the result is exact
            from . import structstr

            stripped = chars if chars is not None else smt.PY_WS + "\x1c\x1d\x1e\x1f\x85\xa0"
            ps = structstr.parts(s)
            exact_l = exact_r = False
            if name in ("lstrip", "strip"):
                ps, exact_l = structstr.lstrip_parts(ps, stripped)
            if name in ("rstrip", "strip"):
                ps, exact_r = structstr.rstrip_parts(ps, stripped)
            if (name == "lstrip" and exact_l) or (name == "rstrip" and exact_r) or (name == "strip" and exact_l and exact_r):
                r = structstr.build(ps)
                return ok(r if isinstance(r, str) else Sym(r, "str"), st)
            r = structstr.build(ps)
            if isinstance(r, str):
                return ok(getattr(r, name)(chars), st)
            # one end is exact (already removed above), the other goes through the skolem model on what is left
            rest = "rstrip" if (name == "strip" and exact_l) else "lstrip" if (name == "strip" and exact_r) else name
            return ok(strip_model(eng, Sym(r, "str"), chars, rest, st), st)
        return ok(strip_model(eng, recv, chars, name, st), st)
    if name in ("isdecimal", "isdigit"):
        eng.assumed.add("str.isdecimal/isdigit: ASCII digits only (non-ASCII digits are outside the proof)")
        return ok(eng.mkbool(z3.InRe(s, smt.DIGITS1)), st)
    if name == "isspace":
        return ok(eng.mkbool(z3.InRe(s, z3.Plus(smt.re_chars(smt.PY_WS + "\x1c\x1d\x1e\x1f\x85\xa0")))), st)
    if name == "casefold":
        eng.assumed.add("str.casefold: uninterpreted, length-preserving (ASCII assumption)")
        return ok(Sym(smt.casefold(s), "str"), st)
    if name == "find":
        sub = args[0]
        start = args[1] if len(args) > 1 else 0
        if len(args) > 2:
            raise Unsupported("find with end")
        pre = smt.literal_prefix(s)
        if pre is not None and isinstance(sub, str) and isinstance(start, int) and not isinstance(start, bool) and 0 <= start:
            k = pre.find(sub, start)
            if k >= 0:
                return ok(k, st)  # the first occurrence lies inside the literal prefix: independent of the symbolic rest
        if isinstance(sub, str) and len(sub) == 1 and start == 0 and not isinstance(start, bool):
            # structural first occurrence (exact): symbolic holes are skipped only when the path condition entails that they do not contain the character
            from . import structstr
            ps_ = structstr.parts(s)
            if len(ps_) > 1:
                r_ = structstr.first_index(ps_, sub, lambda sy: smt.quick_check(st.pc, z3.Contains(sy, z3.StringVal(sub))) == "unsat")
                if r_ is not None and r_[0] == "at":
                    off = structstr.offset_term(ps_, r_[1], r_[2])
                    return ok(off if isinstance(off, int) else Sym(off, "int"), st)
                if r_ is not None and r_[0] == "none":
                    return ok(-1, st)
        n = z3.Length(s)
        stt = eng._num(start)
        stt = z3.If(stt < 0, z3.If(stt + n < 0, z3.IntVal(0), stt + n), stt)
        return ok(Sym(z3.IndexOf(s, to_term(sub), stt), "int"), st)
    if name == "partition":
        (sep,) = args
        if isinstance(sep, str) and sep != "":
            sl = smt.split_literal_prefix(s)
            if sl is not None and sep in sl[0]:
                # the first occurrence of the separator lies inside the literal head of the text: head and separator are literal, the tail is the rest of
                # the literal followed by the symbolic remainder
                k = sl[0].find(sep)
                rest_lit = sl[0][k + len(sep):]
                parts = ([z3.StringVal(rest_lit)] if rest_lit else []) + sl[1]
                tail = "" if not parts else (parts[0] if len(parts) == 1 else z3.Concat(*parts))
                if not isinstance(tail, str) and z3.is_string_value(tail):
                    tail = tail.as_string()
                return ok((sl[0][:k], sep, tail if isinstance(tail, str) else Sym(tail, "str")), st)
        sp = to_term(sep)
        k = z3.IndexOf(s, sp, 0)
        n = z3.Length(s)
        if isinstance(sep, str) and sep == "":
            return err("ValueError", "empty separator", st)
        head = z3.If(k < 0, s, z3.SubString(s, 0, k))
        mid = z3.If(k < 0, z3.StringVal(""), sp)
        tail = z3.If(k < 0, z3.StringVal(""), z3.SubString(s, k + z3.Length(sp), n))
        return ok((Sym(head, "str"), Sym(mid, "str"), Sym(tail, "str")), st)
    if name == "replace":
        if len(args) == 3 and args[2] == 1:
            return ok(Sym(z3.Replace(s, to_term(args[0]), to_term(args[1])), "str"), st)
        if len(args) == 2 and isinstance(args[0], str) and len(args[0]) >= 1 and len(set(args[0])) == 1 and args[1] == "":
            # s.replace(c * k, ""): removal of a run pattern, as a skolem function with its defining facts (valid for all s: every maximal
            # run of c keeps n mod k < k copies and removal never joins two runs, so no occurrence is left)
            c = z3.StringVal(args[0])
            r = z3.Function("remove_%s" % smt.sha("rm:" + args[0])[:8], S, S)(s)
            st.pc.append(z3.Not(z3.Contains(r, c)))
            st.pc.append(z3.Length(r) <= z3.Length(s))
            st.pc.append(z3.Implies(z3.Not(z3.Contains(s, c)), r == s))
            st.pc.append(z3.Implies(z3.Length(r) == z3.Length(s), r == s))
            eng.assumed.add("str.replace(c*k, ''): modelled by its defining facts (no occurrence left, not longer, identity when none occurs)")
            return ok(Sym(r, "str"), st)
        if len(args) == 2 and isinstance(args[0], str) and isinstance(args[1], str) and args[0] != "":
            # any other replace-all with literal arguments: a deterministic function of the text about which nothing else is assumed
            r = z3.Function("replace_all_%s" % smt.sha("ra:%r:%r" % (args[0], args[1]))[:10], S, S)(s)
            st.pc.append(z3.Implies(z3.Not(z3.Contains(s, z3.StringVal(args[0]))), r == s))
            eng.assumed.add("str.replace(a, b) with literal a, b on a symbolic text: uninterpreted (identity when a does not occur)")
            return ok(Sym(r, "str"), st)
        raise Unsupported("replace-all on a symbolic string")
    if name == "join":
        if isinstance(args[0], Sym) and args[0].ty == "str" and recv == "":
            return ok(args[0], st)  # "".join(s) re-assembles the characters of s
        if isinstance(args[0], Opq) and args[0].cls is None:
            eng.assumed.add("sep.join(<opaque list of strings>): a text that is a function of the list and the separator, nothing else assumed")
            return ok(Sym(z3.Function("str_join", S, Obj, S)(to_term(recv), args[0].t), "str"), st)
        items = eng.iter_concrete(args[0], st)
        parts = []
        for i, it in enumerate(items):
            if pytype_name(it) != "str":
                return err("TypeError", "sequence item: expected str", st)
            if i:
                parts.append(recv)
            parts.append(it)
        return ok(concat(parts) if parts else "", st)
    if name == "split":
        if len(args) == 1 and isinstance(args[0], str) and len(args[0]) == 1:
            # structural split (exact): a text with a literal skeleton whose symbolic holes provably do not contain the one-character separator is
            # split on its skeleton - the pieces are the concatenations between the separators of the literal parts
            from . import structstr
            ps = structstr.parts(s)
            if any(k == "lit" and args[0] in v for k, v in ps) and all(
                    k == "lit" or smt.quick_check(st.pc, z3.Contains(v, z3.StringVal(args[0]))) == "unsat" for k, v in ps):
                pieces, cur = [], []
                for k, v in ps:
                    if k == "sym":
                        cur.append((k, v))
                        continue
                    for j, seg in enumerate(v.split(args[0])):
                        if j:
                            pieces.append(cur)
                            cur = []
                        cur.append(("lit", seg))
                pieces.append(cur)
                vals = []
                for pc_ in pieces:
                    b = structstr.build(pc_)
                    vals.append(b if isinstance(b, str) else Sym(b, "str"))
                return ok(st.alloc(HList(vals)), st)
        if len(args) == 1 and isinstance(args[0], str) and args[0] != "" and getattr(eng, "split_forks", False):
            # s.split(sep): when sep does not occur the result is [s]; otherwise an opaque list
            occurs = z3.Contains(s, z3.StringVal(args[0]))
            outs = []
            for cond, mk in ((z3.Not(occurs), "one"), (occurs, "many")):
                if smt.quick_check(st.pc, cond) == "unsat":
                    continue
                s2 = st.copy()
                s2.pc.append(cond)
                if mk == "one":
                    outs.append((s2.alloc(HList([recv])), s2))
                else:
                    eng.assumed.add("str.split on a symbolic string in which the separator occurs: result is an opaque list")
                    outs.append((Opq(z3.Function("str_split", S, Obj)(s), None), s2))
            return outs
        eng.assumed.add("str.split on a symbolic string: result is an opaque list (only handed on to opaque calls)")
        return ok(Opq(z3.Function("str_split", S, Obj)(s), None), st)
    raise Unsupported("str.%s on a symbolic string" % name)


def dict_method(eng, ref, h, name, args, kwargs, st):
    if name == "get":
        k = args[0]
        d = args[1] if len(args) > 1 else None
        if isinstance(k, (Opq, Ref)):
            raise Unsupported("opaque dict key")
        if isinstance(k, Sym):
            res = []
            for kk in h.keys:
                e = eng._and([eng.eq(k, kk, st), h.pres[kk]])
                for flag, s2 in eng.fork(e, st.copy()):
                    if flag:
                        res.append((s2.heap[ref.oid].vals[kk], s2))
            nokey = eng._not(eng._or([eng._and([eng.eq(k, kk, st), h.pres[kk]]) for kk in h.keys]))
            for flag, s2 in eng.fork(nokey, st):
                if flag:
                    res.append((d, s2))
            return res
        if k in h.vals:
            p = h.pres[k]
            if p is True:
                return ok(h.vals[k], st)
            res = []
            for flag, s2 in eng.fork(p, st):
                hh = s2.heap[ref.oid]
                if flag:
                    hh.pres[k] = True
                    res.append((hh.vals[k], s2))
                else:
                    hh.delete(k)
                    res.append((d, s2))
            return res
        return ok(d, st)
    if name in ("keys", "values", "items"):
        if any(h.pres[k] is not True for k in h.keys):
            # resolve presence by forking, then retry
            for k in h.keys:
                if h.pres[k] is not True:
                    res = []
                    for flag, s2 in eng.fork(h.pres[k], st):
                        hh = s2.heap[ref.oid]
                        if flag:
                            hh.pres[k] = True
                        else:
                            hh.delete(k)
                        res.extend(dict_method(eng, ref, hh, name, args, kwargs, s2))
                    return res
        if name == "keys":
            kl = HList(list(h.keys))
            kl.is_keys = True
            return ok(st.alloc(kl), st)
        if name == "values":
            return ok(st.alloc(HList([h.vals[k] for k in h.keys])), st)
        return ok(st.alloc(HList([(k, h.vals[k]) for k in h.keys])), st)
    if name == "update":
        for a in args:
            if isinstance(a, Ref) and isinstance(st.heap[a.oid], HDict):
                src = st.heap[a.oid]
                if any(src.pres[k] is not True for k in src.keys):
                    raise Unsupported("update from dict with possibly-absent keys")
                for k in src.keys:
                    h.set(k, src.vals[k])
            elif isinstance(a, Const) and isinstance(a.obj, dict):
                for k, v in a.obj.items():
                    h.set(k, eng.lift(v))
            else:
                for pair in eng.iter_concrete(a, st):
                    k, v = eng.iter_concrete(pair, st)
                    if isinstance(k, (Sym, Opq, Ref)):
                        raise Unsupported("symbolic dict key")
                    h.set(k, v)
        for k, v in kwargs.items():
            h.set(k, v)
        return ok(None, st)
    if name == "pop":
        k = args[0]
        if isinstance(k, (Sym, Opq, Ref)):
            raise Unsupported("pop with symbolic key")
        if k in h.vals:
            p = h.pres[k]
            if p is True:
                v = h.vals[k]
                h.delete(k)
                return ok(v, st)
            res = []
            for flag, s2 in eng.fork(p, st):
                hh = s2.heap[ref.oid]
                v = hh.vals[k]
                hh.delete(k)
                if flag:
                    res.append((v, s2))
                elif len(args) > 1:
                    res.append((args[1], s2))
                else:
                    res.append((Raise(Exc("KeyError", repr(k))), s2))
            return res
        if len(args) > 1:
            return ok(args[1], st)
        return err("KeyError", repr(k), st)
    if name == "copy":
        return ok(st.alloc(h.copy()), st)
    if name == "setdefault":
        k = args[0]
        d = args[1] if len(args) > 1 else None
        if isinstance(k, (Sym, Opq, Ref)):
            raise Unsupported("setdefault with symbolic key")
        if k in h.vals:
            p = h.pres[k]
            if p is True:
                return ok(h.vals[k], st)
            res = []
            for flag, s2 in eng.fork(p, st):
                hh = s2.heap[ref.oid]
                if flag:
                    hh.pres[k] = True
                    res.append((hh.vals[k], s2))
                else:
                    hh.delete(k)
                    hh.set(k, d)
                    res.append((d, s2))
            return res
        h.set(k, d)
        return ok(d, st)
    raise Unsupported("dict.%s" % name)


def list_method(eng, ref, h, name, args, kwargs, st):
    if name == "append":
        h.items.append(args[0])
        return ok(None, st)
    if name == "extend":
        h.items.extend(eng.iter_concrete(args[0], st))
        return ok(None, st)
    if name == "pop":
        if not h.items:
            return err("IndexError", "pop from empty list", st)
        i = args[0] if args else -1
        if isinstance(i, Sym):
            raise Unsupported("symbolic pop index")
        return ok(h.items.pop(i), st)
    if name == "copy":
        return ok(st.alloc(HList(h.items)), st)
    raise Unsupported("list.%s" % name)


def const_method(eng, recv, name, args, kwargs, st):
    obj = recv.obj
    if isinstance(obj, dict):
        if name == "get":
            k = args[0]
            d = args[1] if len(args) > 1 else None
            if isinstance(k, Sym):
                res = []
                for kk in obj:
                    e = eng.eq(k, kk, st)
                    if e is False:
                        continue
                    for flag, s2 in eng.fork(e, st.copy()):
                        if flag:
                            res.append((eng.lift(obj[kk]), s2))
                nokey = eng._not(eng._or([eng.eq(k, kk, st) for kk in obj]))
                for flag, s2 in eng.fork(nokey, st):
                    if flag:
                        res.append((d, s2))
                return res
            if isinstance(k, (Opq, Ref)):
                raise Unsupported("opaque key")
            try:
                return ok(eng.lift(obj[k]) if k in obj else d, st)
            except TypeError:
                return ok(d, st)
        if name == "keys":
            return ok(st.alloc(HList([eng.lift(k) for k in obj.keys()])), st)
        if name == "values":
            return ok(st.alloc(HList([eng.lift(k) for k in obj.values()])), st)
        if name == "items":
            return ok(st.alloc(HList([(eng.lift(k), eng.lift(v)) for k, v in obj.items()])), st)
    raise Unsupported("method %s on constant %s" % (name, type(obj).__name__))
