"""
Guard-dominance obligations: at a call site C in function F, which conditions are known to hold because every
preceding sibling `if` whose body cannot fall through (it ends in `raise` or in a call declared non-returning) has
failed, and which enclosing tests have succeeded.  Decided on the AST; holds for all inputs.
"""
import ast

from . import verify as V


def _terminates(body, noreturn):
    last = body[-1]
    if isinstance(last, ast.Raise):
        return True
    if isinstance(last, ast.Expr) and isinstance(last.value, ast.Call) and ast.unparse(last.value.func) in noreturn:
        return True
    if isinstance(last, ast.If) and last.orelse:
        return _terminates(last.body, noreturn) and _terminates(last.orelse, noreturn)
    return False


def facts_at_call(fn, callee, noreturn):
    """-> list of (call node, [facts]) ; a fact is ('holds'|'fails', test source)"""
    out = []

    def walk(stmts, facts):
        facts = list(facts)
        for st in stmts:
            for n in ast.walk(st) if not isinstance(st, (ast.If, ast.For, ast.With, ast.Try, ast.While)) else []:
                if isinstance(n, ast.Call) and ast.unparse(n.func) == callee:
                    out.append((n, list(facts)))
            if isinstance(st, ast.If):
                for n in ast.walk(st.test):
                    if isinstance(n, ast.Call) and ast.unparse(n.func) == callee:
                        out.append((n, list(facts)))
                t = ast.unparse(st.test)
                walk(st.body, facts + [("holds", t)])
                walk(st.orelse, facts + [("fails", t)])
                term_b = _terminates(st.body, noreturn)
                term_e = bool(st.orelse) and _terminates(st.orelse, noreturn)
                if term_b and not term_e:
                    facts.append(("fails", t))
                    # an elif chain: every terminating arm's test has failed
                    cur = st
                    while len(cur.orelse) == 1 and isinstance(cur.orelse[0], ast.If):
                        cur = cur.orelse[0]
                        if _terminates(cur.body, noreturn):
                            facts.append(("fails", ast.unparse(cur.test)))
                        else:
                            break
                elif term_e and not term_b:
                    facts.append(("holds", t))
            elif isinstance(st, (ast.For, ast.While)):
                walk(st.body, facts)
            elif isinstance(st, ast.With):
                walk(st.body, facts)
            elif isinstance(st, ast.Try):
                walk(st.body, facts)
    walk(fn.body, [])
    return out


def require(func_key, callee, noreturn, needed, forbid_before=()):
    """needed: list of (label, predicate(fact list) -> bool). -> evaluated items"""
    modname, qual = func_key.split(":")
    fn, src, path = V.find_def_dotted(modname, qual)
    sites = facts_at_call(fn, callee, noreturn)
    items = [("guard-site[%s]" % callee, len(sites) >= 1, "%s calls %s" % (qual, callee), [s[0].lineno for s in sites])]
    for call, facts in sites:
        for label, pred in needed:
            items.append(("guard[%s:%s]" % (callee, label), bool(pred(facts)), "at the call of %s: %s" % (callee, label), facts))
        # no effect before the validated call
        early = []
        for n in ast.walk(fn):
            if isinstance(n, ast.Call) and getattr(n, "lineno", 0) < call.lineno and ast.unparse(n.func) in forbid_before:
                early.append((n.lineno, ast.unparse(n.func)))
        items.append(("guard[%s:no-write-before]" % callee, not early, "no file is written before %s is reached" % callee, early))
    return items


def fails(text):
    return lambda facts: any(k == "fails" and text in t for k, t in facts)


def holds(text):
    return lambda facts: any(k == "holds" and text in t for k, t in facts)
