"""
Contracts, the front end (real source -> ast), obligation generation per function and the solver
portfolio.
"""
import ast
import hashlib
import importlib
import json
import os
import sys
import time
import traceback
from concurrent.futures import ThreadPoolExecutor

import z3

from . import engine as E
from . import models, smt
from .smt import B, I, Obj, S, fresh
from .values import (
    UNDEF,
    Const,
    Exc,
    Fn,
    HDict,
    HList,
    HObj,
    Native,
    Opq,
    Raise,
    Ref,
    Sym,
    UFn,
    Unsupported,
    pytype_name,
    to_term,
)

REPO = os.environ.get("DOCTRANS_REPO", "/repo")


# ------------------------------------------------------------------------------------------------
# contracts
# ------------------------------------------------------------------------------------------------
class Clause:
    def __init__(self, cid, text, when=None, note="", uses=()):
        self.id, self.text, self.when, self.note = cid, text, when, note
        self.uses = list(uses)  # [(lemma id, {param: expression text})]


class Lemma:
    """a closed fact over fresh variables, proved once per run as its own obligation and instantiated
    (as a hypothesis) where a clause says so"""

    def __init__(self, lid, params, text, note=""):
        self.id, self.params, self.text, self.note = lid, params, text, note


class Case:
    def __init__(self, name, params, assume=(), stop_after=None):
        self.name, self.params, self.assume = name, params, list(assume)
        self.stop_after = stop_after  # per-case cut point (statement text prefix): this case is verified up to and including that statement


class Outcome:
    """one disjunct of a callee's postcondition, used when the function is *called* under contract"""

    def __init__(self, name, shape, holds, when=None):
        self.name, self.shape, self.holds, self.when = name, shape, list(holds), when


class Contract:
    def __init__(self, func, cases, ensures, requires=(), raises=None, loops=None, ghosts=None,
                 canaries=(), outcomes=None, use_contract_for=(), note="", properties=(), defs=None, lemmas=(), facts=()):
        self.func = func  # "doctrans.module:qualname"
        self.cases = cases
        self.requires = list(requires)
        self.ensures = list(ensures)
        self.raises = raises or {}
        self.loops = loops or {}
        self.ghosts = ghosts or {}
        self.canaries = list(canaries)
        self.outcomes = outcomes
        self.use_contract_for = set(use_contract_for)  # callee qualnames replaced by their contract
        self.note = note
        self.properties = list(properties)
        self.defs = defs or {}
        self.witness = None
        self.lemmas = {l.id: l for l in lemmas}
        self.facts = list(facts)  # lemma instances offered to every obligation of a path where they can be evaluated
        self.stop_after = None  # cut point: verification of the function ends after this statement (text prefix)
        self.split_forks = False  # str.split(sep) on a symbolic text forks into "sep does not occur: [text]" and "occurs: opaque list"
        self.allow_unordered = False  # iterate set-valued expressions in one fixed order (justified by an audit obligation named in the note)
        self.opaque = {}  # callee text -> {"ret": ..., "effect": bool}: calls the verifier does not look into (logged)


# ------------------------------------------------------------------------------------------------
# front end
# ------------------------------------------------------------------------------------------------
_MOD_AST = {}


def preimport_meta():
    try:
        import meta  # noqa: F401  first import fails on CPython 3.12 (opcode table), second succeeds
    except Exception:
        pass
    try:
        import meta.asttools  # noqa: F401
    except Exception:
        pass


def module_ast(modname):
    if modname not in _MOD_AST:
        root = os.path.dirname(os.path.dirname(os.path.dirname(os.path.abspath(__file__)))) if modname.startswith("vf.") else REPO
        path = os.path.join(root, *modname.split(".")) + ".py"
        with open(path, "rt") as f:
            src = f.read()
        _MOD_AST[modname] = (ast.parse(src, filename=path), src, path)
    return _MOD_AST[modname]


def find_def(modname, qualname):
    tree, src, path = module_ast(modname)
    node = tree
    for part in qualname.split("/"):
        found = None
        for child in ast.walk(node) if node is not tree else node.body:
            if isinstance(child, (ast.FunctionDef, ast.ClassDef)) and child.name == part and child is not node:
                found = child
                break
        if found is None:
            # search nested (one level) for class methods "Class.method"
            raise KeyError("%s:%s not found in %s" % (modname, qualname, path))
        node = found
    return node, src, path


def find_def_dotted(modname, qualname):
    tree, src, path = module_ast(modname)
    body = tree.body
    node = None
    for part in qualname.replace("/", ".").split("."):
        node = next((c for c in body if isinstance(c, (ast.FunctionDef, ast.ClassDef)) and c.name == part), None)
        if node is None:
            raise KeyError("%s:%s not found in %s" % (modname, qualname, path))
        body = node.body
    return node, src, path


def source_hash(node, src):
    seg = ast.get_source_segment(src, node) or ""
    return hashlib.sha256(seg.encode()).hexdigest()[:16], hashlib.sha256(ast.dump(node).encode()).hexdigest()[:16]


def real_module(modname):
    preimport_meta()
    if REPO not in sys.path and REPO != "/repo":
        sys.path.insert(0, REPO)
    return importlib.import_module(modname)


# ------------------------------------------------------------------------------------------------
# building symbolic inputs
# ------------------------------------------------------------------------------------------------
def make_value(spec, name, st, inputs):
    if isinstance(spec, str) and spec in ("str", "int", "bool"):
        sort = {"str": S, "int": I, "bool": B}[spec]
        t = z3.Const("in_" + name, sort)
        inputs[name] = (spec, t)
        return Sym(t, spec)
    if isinstance(spec, str) and spec == "obj":
        t = z3.Const("in_" + name, Obj)
        inputs[name] = ("obj", t)
        return Opq(t, None)
    if isinstance(spec, str) and spec.startswith("pred"):
        arity = int(spec[4:])
        return UFn(z3.Function("in_" + name, *([S] * arity + [B])), "bool")
    if isinstance(spec, tuple) and spec and spec[0] == "lit":
        if spec[1] is not None and not isinstance(spec[1], (bool, int, float, complex, str, tuple, dict, list, set, frozenset)):
            return Native(spec[1])  # a real Python object (an enum member): compared by identity, as in the code
        return spec[1]
    if isinstance(spec, tuple) and spec and spec[0] == "strcat":
        # a string with a literal skeleton and symbolic holes: ("strcat", [":param x: ", "str"]) -- holes are named <name>_<i>
        parts = []
        for i, part in enumerate(spec[1]):
            if part == "str" or (isinstance(part, tuple) and part[0] == "str-without"):
                t = z3.Const("in_%s_%d" % (name, i), S)
                inputs["%s_%d" % (name, i)] = ("str", t)
                parts.append(t)
                if isinstance(part, tuple):  # a hole that is any text without the listed characters (a domain restriction of the case, stated in its note)
                    for ch in part[1]:
                        st.pc.append(z3.Not(z3.Contains(t, z3.StringVal(ch))))
            else:
                parts.append(z3.StringVal(part))
        return Sym(parts[0] if len(parts) == 1 else z3.Concat(*parts), "str")
    if isinstance(spec, tuple) and spec and spec[0] == "obj":
        t = z3.Const("in_" + name, Obj)
        inputs[name] = ("obj", t)
        return Opq(t, spec[1])
    if isinstance(spec, tuple) and spec and spec[0] == "tuple":
        return tuple(make_value(s, "%s_%d" % (name, i), st, inputs) for i, s in enumerate(spec[1]))
    if isinstance(spec, tuple) and spec and spec[0] == "dict":
        d = HDict()
        for k, vs in spec[1].items():
            opt = isinstance(vs, tuple) and vs and vs[0] == "opt"
            v = make_value(vs[1] if opt else vs, "%s_%s" % (name, k), st, inputs)
            d.set(k, v)
            if opt:
                p = z3.Bool("in_%s_has_%s" % (name, k))
                inputs["%s.has.%s" % (name, k)] = ("bool", p)
                d.pres[k] = p
        return st.alloc(d)
    if isinstance(spec, tuple) and spec and spec[0] == "node":
        o = HObj(spec[1])
        for k, vs in spec[2].items():
            o.attrs[k] = make_value(vs, "%s_%s" % (name, k), st, inputs)
        return st.alloc(o)
    if isinstance(spec, tuple) and spec and spec[0] == "list":
        return st.alloc(HList([make_value(vs, "%s_%d" % (name, i), st, inputs) for i, vs in enumerate(spec[1])]))
    if isinstance(spec, tuple) and spec and spec[0] == "const":
        return Const(spec[1])
    if isinstance(spec, tuple) and spec and spec[0] == "native":
        return Native(spec[1])
    # concrete literal
    return spec


# ------------------------------------------------------------------------------------------------
# verification of one function
# ------------------------------------------------------------------------------------------------
def _re_word(name, text):
    import re

    return re.search(r"\b%s\b" % re.escape(name), text) is not None


def n_ret_with_ghost_needed(outs):
    return True


class FuncReport:
    def __init__(self, contract):
        self.contract = contract
        self.obligations = []
        self.paths = 0
        self.raise_paths = 0
        self.src_hash = None
        self.ast_hash = None
        self.undecided_reason = None
        self.assumed = set()
        self.sym_s = 0.0
        self.cases = {}
        self.inputs = {}


def _glob_for(modname):
    return real_module(modname).__dict__


class VEngine(E.Engine):
    """Engine + repo-function calls (inline or by contract)"""

    def __init__(self, registry, label, contract):
        super().__init__(registry, label)
        self.contract = contract
        self.hooks_fired = set()

    def call_repo_function(self, obj, args, kwargs, st):
        key = "%s:%s" % (obj.__module__, obj.__qualname__)
        c = self.registry.get(key)
        if c is not None and c.outcomes is not None and (key in self.contract.use_contract_for or obj.__qualname__ in self.contract.use_contract_for):
            return self.apply_contract(c, obj, args, kwargs, st)
        if self.inline_depth >= self.MAX_INLINE_DEPTH:
            raise Unsupported("inline depth exceeded at %s" % key)
        node, src, path = find_def_dotted(obj.__module__, obj.__qualname__)
        fn = Fn(node, [], obj.__globals__, obj.__qualname__)
        tmp_sid = self.new_scope(st)
        self.frames.append(E.Frame(tmp_sid, fn, "<defaults>"))
        try:
            fn.defaults = self.make_fn_from_def(node, st)
        finally:
            self.frames.pop()
            st.scopes.pop(tmp_sid, None)
        self.inline_depth += 1
        try:
            return self.call_fn(fn, args, kwargs, st)
        finally:
            self.inline_depth -= 1

    def apply_contract(self, c, obj, args, kwargs, st):
        node, src, path = find_def_dotted(obj.__module__, obj.__qualname__)
        a = node.args
        names = [x.arg for x in a.args]
        binding = dict(zip(names, args))
        binding.update(kwargs)
        fn = Fn(node, [], obj.__globals__, obj.__qualname__)
        tmp_sid = self.new_scope(st)
        self.frames.append(E.Frame(tmp_sid, fn, "<defaults>"))
        try:
            defaults = self.make_fn_from_def(node, st)
        finally:
            self.frames.pop()
            st.scopes.pop(tmp_sid, None)
        for n in names:
            if n not in binding:
                binding[n] = defaults[n]
        self.contract_uses.append(c.func)
        # requires -> obligations at the call site
        sid = self.new_scope(st, binding)
        self.frames.append(E.Frame(sid, fn, "<callee-contract>"))
        saved_defs = self.spec_defs
        self.spec_defs = c.defs
        try:
            for k, txt in enumerate(c.requires):
                g = self.spec_eval(txt, st)
                self.oblige("pre", st, g, "precondition %d of %s at call site: %s" % (k, c.func, txt))
            res = []
            for oc in c.outcomes:
                s2 = st.copy() if oc is not c.outcomes[-1] else st
                if oc.when is not None:
                    w = self.spec_eval(oc.when, s2)
                    if w is False:
                        continue
                    if w is not True:
                        if smt.quick_check(s2.pc, w) == "unsat":
                            continue
                        s2.pc.append(w)
                inputs = {}
                self._callee_ctr = getattr(self, "_callee_ctr", 0) + 1
                r = make_value(oc.shape, "ret%d_%s" % (self._callee_ctr, obj.__name__), s2, inputs)
                s2.scopes[sid] = dict(binding)
                s2.scopes[sid]["result"] = r
                for txt in oc.holds:
                    g = self.spec_eval(txt, s2)
                    s2.pc.append(z3.BoolVal(g) if isinstance(g, bool) else g)
                if smt.quick_check(s2.pc) == "unsat":
                    continue
                res.append((r, s2))
        finally:
            self.frames.pop()
            self.spec_defs = saved_defs
        for _, s in res:
            s.scopes.pop(sid, None)
        return res


def deep_snapshot(v, st, memo):
    """a deep copy of the heap graph reachable from v (for old_<param> in postconditions)"""
    if isinstance(v, tuple):
        return tuple(deep_snapshot(x, st, memo) for x in v)
    if not isinstance(v, Ref):
        return v
    if v.oid in memo:
        return memo[v.oid]
    h = st.heap[v.oid]
    c = h.copy()
    r = st.alloc(c)
    memo[v.oid] = r
    st.ghost.setdefault("__orig", {})[r.oid] = v.oid  # identity of a snapshot object = identity of the object it was taken from
    if isinstance(c, HList):
        c.items = [deep_snapshot(x, st, memo) for x in c.items]
    elif isinstance(c, HDict):
        c.vals = {k: deep_snapshot(x, st, memo) for k, x in c.vals.items()}
    elif isinstance(c, HObj):
        c.attrs = {k: deep_snapshot(x, st, memo) for k, x in c.attrs.items()}
    return r


def _log_views(eng, s):
    """spec-level views of the effect log: effects (callee names in order), and per-callee argument / result tuples"""
    views = {"log_effects": tuple(e["callee"] for e in s.log if isinstance(e, dict) and e.get("effect"))}
    per = {"log_" + nm.replace(".", "_"): [] for nm in eng.opaque}
    per["log_setattr"] = []  # attribute writes on opaque objects
    for e in s.log:
        if not isinstance(e, dict):
            continue
        key = "log_" + e["callee"].replace(".", "_").replace("<", "").replace(">", "").replace(" ", "_")
        per.setdefault(key, []).append({"args": tuple(e["args"]), "kwargs": e["kwargs"], "result": e["result"]})
    order = [e["callee"] for e in s.log if isinstance(e, dict)]
    views["log_order"] = tuple(order)
    for nm in set(order) | set(eng.opaque):
        key = "log_pos_" + nm.replace(".", "_").replace("<", "").replace(">", "").replace(" ", "_")
        views[key] = tuple(i for i, c in enumerate(order) if c == nm)
    for k, calls in per.items():
        views[k + "_n"] = len(calls)
        views[k + "_results"] = tuple(c["result"] for c in calls)
        views[k + "_args"] = tuple(c["args"] for c in calls)
        d_list = []
        for c in calls:
            d = E.HDict()
            for kk, vv in c["kwargs"].items():
                d.set(kk, vv)
            d_list.append(s.alloc(d))
        views[k + "_kwargs"] = tuple(d_list)
    return views


def _add_facts(eng, contract, ob, s, env):
    for lid, inst in contract.facts:
        lem = contract.lemmas[lid]
        lenv = dict(env)
        try:
            for pn, etxt in inst.items():
                lenv[pn] = eng.spec_value(etxt, s, env=env)
            li = eng.spec_eval(lem.text, s, env=lenv)
        except Unsupported:
            continue
        ob.hyps.append(z3.BoolVal(li) if isinstance(li, bool) else li)
        ob.extra.setdefault("lemmas_used", []).append(lid)


def verify_function(contract, registry, only_cases=None):
    modname, qual = contract.func.split(":")
    rep = FuncReport(contract)
    try:
        node, src, path = find_def_dotted(modname, qual)
    except KeyError as e:
        rep.undecided_reason = "anchor lost: %s" % e
        for cl in contract.ensures:
            ob = E.Obligation("%s/%s" % (contract.func, cl.id), "post", contract.func, [], z3.BoolVal(False), cl.text)
            ob.status, ob.reason = "undecided", rep.undecided_reason
            rep.obligations.append(ob)
        return rep
    rep.src_hash, rep.ast_hash = source_hash(node, src)
    glob = _glob_for(modname)
    models.register_repo_natives()
    t0 = time.time()
    for case in contract.cases:
        if only_cases and case.name not in only_cases:
            continue
        label = "%s[%s]" % (contract.func, case.name)
        eng = VEngine(registry, label, contract)
        eng.loop_specs = contract.loops
        eng.spec_defs = contract.defs
        eng.stop_after = getattr(case, "stop_after", None) or contract.stop_after
        eng.opaque = contract.opaque
        eng.allow_unordered = contract.allow_unordered
        eng.split_forks = getattr(contract, "split_forks", False)
        fors = sorted((n for n in ast.walk(node) if isinstance(n, ast.For)), key=lambda n: (n.lineno, n.col_offset))
        eng.loop_ordinals = {id(n): k + 1 for k, n in enumerate(fors)}
        eng.ghost_hooks = contract.ghosts
        st = E.State()
        inputs = {}
        fn = Fn(node, [], glob, qual)
        # defaults evaluated in module scope
        sid0 = eng.new_scope(st)
        eng.frames.append(E.Frame(sid0, fn, "<defaults>"))
        try:
            fn.defaults = eng.make_fn_from_def(node, st)
        except Unsupported:
            fn.defaults = {}
        eng.frames.pop()
        st.scopes.pop(sid0, None)
        binding = {}
        for pname in [a.arg for a in node.args.args + node.args.kwonlyargs]:
            if pname in case.params:
                binding[pname] = make_value(case.params[pname], pname, st, inputs)
            elif pname in fn.defaults:
                binding[pname] = fn.defaults[pname]
            else:
                raise ValueError("case %s: no value for parameter %s" % (label, pname))
        hidden = {}  # *args / **kwargs of the function under contract: called without extra arguments
        if node.args.vararg is not None:
            hidden[node.args.vararg.arg] = ()
        if node.args.kwarg is not None:
            hidden[node.args.kwarg.arg] = st.alloc(E.HDict())
        # snapshots of heap arguments for old_<name>
        olds = {}
        memo = {}
        for pname, v in binding.items():
            if isinstance(v, (Ref, tuple)):
                olds["old_" + pname] = deep_snapshot(v, st, memo)
        init_env = dict(binding)
        init_env.update(olds)
        sid = eng.new_scope(st, dict(binding, **hidden))
        fr = E.Frame(sid, fn, qual)
        eng.frames.append(fr)
        n_cases_obl = len(rep.obligations)
        try:
            # requires / case assumptions
            for txt in list(contract.requires) + list(case.assume):
                g = eng.spec_eval(txt, st, env=init_env)
                st.pc.append(z3.BoolVal(g) if isinstance(g, bool) else g)
            # cover: precondition satisfiable
            cov = E.Obligation(label + "/cover-pre", "cover", contract.func, st.pc, z3.BoolVal(False),
                               "precondition is satisfiable (expected: sat)")
            eng.obligations.append(cov)
            if case is contract.cases[0] or (only_cases and case.name == only_cases[0]):
                for lem in contract.lemmas.values():
                    lenv = {pn: make_value(pt, "lem_%s_%s" % (lem.id, pn), st, {}) for pn, pt in lem.params.items()}
                    g = eng.spec_eval(lem.text, st, env=lenv)
                    lob = E.Obligation("%s/lemma-%s" % (contract.func, lem.id), "lemma", contract.func, [],
                                       z3.BoolVal(g) if isinstance(g, bool) else g, lem.text)
                    eng.obligations.append(lob)
            outs = eng.exec_block(node.body, st)
            n_ret = 0
            n_abort = 0
            for kind, val, s in outs:
                if kind in ("ok", "return"):
                    n_ret += 1
                    result = val if kind == "return" else None
                    env = dict(init_env)
                    env["result"] = result
                    for lname, lval in s.scopes.get(sid, {}).items():
                        if lval is not UNDEF:
                            env["now_" + lname] = lval
                    env.update(_log_views(eng, s))
                    for cl in contract.ensures:
                        if cl.when is not None and case.name not in cl.when:
                            continue
                        try:
                            g = eng.spec_eval(cl.text, s, env=env)
                            ob = eng.oblige("post", s, z3.BoolVal(g) if isinstance(g, bool) else g, cl.text,
                                            oid="%s/%s@path%d" % (label, cl.id, n_ret))
                            for lid, inst in cl.uses:
                                lem = contract.lemmas[lid]
                                lenv = dict(env)
                                try:
                                    for pn, etxt in inst.items():
                                        lenv[pn] = eng.spec_value(etxt, s, env=env)
                                    li = eng.spec_eval(lem.text, s, env=lenv)
                                except Unsupported:
                                    continue
                                ob.hyps.append(z3.BoolVal(li) if isinstance(li, bool) else li)
                                ob.extra.setdefault("lemmas_used", []).append(lid)
                            ob.extra["clause"] = cl.id
                            ob.extra["result"] = repr(result)
                            ob.extra["ghost_terms"] = {gk: gv.t for gk, gv in s.ghost.items() if isinstance(gv, Sym)}
                        except E.SpecRaises as e:
                            # the clause raises on every run of this path: it fails wherever the path is feasible (the solver decides that and gives the input)
                            ob = eng.oblige("post", s, z3.BoolVal(False), cl.text, oid="%s/%s@path%d" % (label, cl.id, n_ret))
                            ob.extra["clause"] = cl.id
                            ob.extra["spec_raises"] = e.kind
                            ob.extra["result"] = repr(result)
                        except Unsupported as e:
                            ob = eng.oblige("post", s, z3.BoolVal(False), cl.text, oid="%s/%s@path%d" % (label, cl.id, n_ret))
                            ob.status, ob.reason = "undecided", "spec not evaluable: %s" % e
                            ob.extra["clause"] = cl.id
                    for k, cn in enumerate(contract.canaries):
                        try:
                            g = eng.spec_eval(cn, s, env=env)
                            ob = eng.oblige("canary", s, z3.BoolVal(g) if isinstance(g, bool) else g, cn,
                                            oid="%s/canary%d@path%d" % (label, k, n_ret))
                        except Unsupported:
                            pass
                elif kind == "raise":
                    rep.raise_paths += 1
                    cond = contract.raises.get(val.kind)
                    env = dict(init_env)
                    if cond is None:
                        ob = eng.oblige("safety", s, z3.BoolVal(False), "%s must not escape: %s" % (val.kind, val.msg),
                                        oid="%s/no-%s#%d" % (label, val.kind, rep.raise_paths))
                        ob.extra["exc"] = val.kind
                        _add_facts(eng, contract, ob, s, env)
                    elif cond is not True:
                        g = eng.spec_eval(cond, s, env=env)
                        ob = eng.oblige("raises", s, z3.BoolVal(g) if isinstance(g, bool) else g,
                                        "%s only when: %s" % (val.kind, cond),
                                        oid="%s/raises-%s#%d" % (label, val.kind, rep.raise_paths))
                        _add_facts(eng, contract, ob, s, env)
                elif kind == "abort":
                    n_abort += 1
                    ob = eng.oblige("abort", s, z3.BoolVal(False), "path left the verified subset: %s" % val,
                                    oid="%s/abort#%d" % (label, n_abort))
                    ob.status, ob.reason = "undecided", "outside the verified subset: %s" % val
                else:
                    raise Unsupported("loop control escaped function body")
            rep.paths += n_ret
            rep.cases[case.name] = {"return_paths": n_ret, "forks": eng.n_forks, "pruned": eng.n_pruned}
            if eng.stop_after and not eng.stop_fired:
                ob = eng.oblige("anchor", st, z3.BoolVal(False), "cut point not reached: %s" % eng.stop_after)
                ob.status, ob.reason = "undecided", "anchor lost"
            # ghost anchors
            for key in contract.ghosts:
                names = [nm for nm, _ in contract.ghosts[key]]
                used = any(
                    (cl.when is None or case.name in cl.when) and any(_re_word(nm, cl.text) for nm in names)
                    for cl in contract.ensures
                )
                if used and n_ret_with_ghost_needed(outs) and key not in eng.hooks_fired:
                    ob = eng.oblige("anchor", st, z3.BoolVal(False), "ghost anchor not reached: %s" % key)
                    ob.status, ob.reason = "undecided", "anchor lost"
        except Unsupported as e:
            rep.cases[case.name] = {"undecided": str(e)}
            for cl in contract.ensures:
                if cl.when is not None and case.name not in cl.when:
                    continue
                ob = E.Obligation("%s/%s" % (label, cl.id), "post", contract.func, [], z3.BoolVal(False), cl.text)
                ob.status, ob.reason = "undecided", "outside the verified subset: %s" % e
                ob.extra["clause"] = cl.id
                eng.obligations.append(ob)
        finally:
            eng.frames.pop()
        for ob in eng.obligations:
            ob.extra.setdefault("case", case.name)
            ob.extra["inputs"] = inputs
        rep.obligations.extend(eng.obligations)
        rep.assumed |= eng.assumed
        rep.inputs[case.name] = inputs
    rep.sym_s = time.time() - t0
    return rep


# ------------------------------------------------------------------------------------------------
# solving
# ------------------------------------------------------------------------------------------------
# ladders: (hypothesis variant, formulation, solver, share of the budget).  variants: s1/s3 = quantifier-free
# relevance cone of depth 1/3, s2q = cone of depth 2 with quantified hypotheses, full = everything.
# formulations: abs = pyslice/nobr uninterpreted, pat = definitions as pattern axioms, rec = define-fun-rec.
# `unsat` on any rung is sound (fewer hypotheses); `sat` only counts on full + rec/pat.
CHEAP_LADDER = (
    ("s1", "abs", "z3", 0.15), ("full", "abs", "z3", 0.15), ("s1", "rec", "cvc5", 0.2), ("s1", "rec", "z3", 0.15),
    ("full", "pat", "z3-old", 0.2), ("full", "rec", "cvc5", 0.2), ("s3", "abs", "z3", 0.1), ("full", "rec", "z3", 0.2),
)
LADDER = (
    ("s1", "rec", "cvc5", 1.0), ("full", "rec", "z3", 1.0), ("full", "rec", "cvc5", 1.0), ("s3", "rec", "cvc5", 0.5),
    ("full", "pat", "z3", 0.5), ("full", "pat", "z3-old", 1.0), ("s2q", "rec", "z3", 0.5), ("s2q", "abs", "z3", 0.3),
)
CANARY_LADDER = (("s1", "abs", "z3", 0.15), ("full", "rec", "z3", 0.2))
RETRY_LADDER = (("s1", "rec", "cvc5", 0.5), ("full", "rec", "cvc5", 1.0), ("full", "rec", "z3", 1.0), ("full", "pat", "z3-old", 0.5))


def _solve_sub(variants, budget, ladder):
    """variants: {tag: path}"""
    results = []
    forms_cache = {}
    files = {}
    for vtag, form, solver, share in ladder:
        path = variants.get(vtag)
        if path is None:
            continue
        if vtag not in forms_cache:
            forms_cache[vtag] = smt.formulations(open(path).read())
        forms = forms_cache[vtag]
        if form not in forms:
            if form == "abs" or form == "pat":
                continue
        txt = forms.get(form)
        if txt is None:
            continue
        fkey = (vtag, form)
        if fkey not in files:
            fp = path[:-5] + "." + form + ".smt2"
            with open(fp, "wt") as f:
                f.write(txt)
            files[fkey] = fp
        v, secs, raw = smt.run_solver_file(files[fkey], solver, max(1.0, budget * share))
        name = "%s:%s/%s" % (vtag, form, solver)
        results.append((name, v, round(secs * 1000)))
        if v == "unsat":
            return "unsat", name, results
        if v == "sat" and vtag == "full" and (form != "abs" or len(forms) == 1):
            return "sat", name, results
    return "unknown", None, results


def _solve_one(job):
    idx, subs, budget, ladder = job
    results = []
    verdict, backend = "unsat", None
    t0 = time.time()
    for variants in subs:
        v1, b1, res = _solve_sub(variants, budget, ladder)
        results.extend(res)
        backend = b1 or backend
        if v1 == "sat":
            verdict = "sat"
            break
        if v1 != "unsat":
            verdict = "unknown"
            break
    return idx, verdict, backend, round((time.time() - t0) * 1000), results


MAX_FULL_PER_CLAUSE = 4
MAX_RETRY_PER_ROUND = 3


def _clause_key(ob):
    return (ob.kind, ob.extra.get("clause") or ob.note, ob.extra.get("case"))


def solve_all(obligations, budget=10, workers=16, tmpdir=None, portfolio=None):
    """Three phases.  1: every obligation against the cheap ladder.  2: what is left gets the full ladder, in rounds of at most MAX_FULL_PER_CLAUSE
    obligations per (kind, clause, case); the next round of a clause runs only while every obligation of its earlier rounds was discharged.  A clause that
    is merely slow (the unchanged tree on a busy machine) is therefore always worked off completely, while a clause that no longer holds costs one round:
    once one of its obligations stays undecided or is refuted the outcome "not all discharged" is settled and the remaining paths are left undecided
    (never a verdict).  3: obligations that only ran out of time get one more try with five times the budget, in rounds of MAX_RETRY_PER_ROUND under
    the same rule.  Solver budgets are CPU time (smt.run_solver_file), so none of this depends on how busy the cores are."""
    st1 = _solve_phase(obligations, budget, workers, tmpdir, CHEAP_LADDER)
    wall = st1["solve_wall_s"]
    queries = st1["queries"]
    left = [ob for ob in obligations if ob.status == "undecided" and ob.extra.get("solver_runs") is not None]
    pending = {}
    for ob in left:
        if ob.kind == "canary":
            continue
        pending.setdefault(_clause_key(ob), []).append(ob)
    todo = []
    while pending:
        batch = []
        for k in list(pending):
            batch.extend(pending[k][:MAX_FULL_PER_CLAUSE])
            pending[k] = pending[k][MAX_FULL_PER_CLAUSE:]
        for ob in batch:
            ob.extra["phase1_runs"] = ob.extra.get("solver_runs")
            ob.status, ob.reason = None, None
        st2 = _solve_phase(batch, budget, workers, tmpdir, portfolio or LADDER)
        wall += st2["solve_wall_s"]
        queries += st2["queries"]
        todo.extend(batch)
        stuck = {_clause_key(ob) for ob in batch if ob.status != "discharged"}
        for k in list(pending):
            if not pending[k]:
                del pending[k]
            elif k in stuck:
                for ob in pending[k]:
                    ob.reason = "[full ladder skipped: the clause is already undecided or refuted on another path of this case] " + (ob.reason or "")
                del pending[k]
    # phase 3: obligations that only ran out of time get one more try with five times the budget
    late = [ob for ob in todo if ob.status == "undecided" and ob.kind not in ("canary", "cover", "abort")]  # (a cover query asks for a model: "unknown" there is not a matter of time)
    n3 = 0
    while late:
        batch, late = late[:MAX_RETRY_PER_ROUND], late[MAX_RETRY_PER_ROUND:]
        for ob in batch:
            ob.extra["phase2_runs"] = ob.extra.get("solver_runs")
            ob.status, ob.reason = None, None
        st3 = _solve_phase(batch, min(budget * 5, 60), workers, tmpdir, RETRY_LADDER)
        wall += st3["solve_wall_s"]
        queries += st3["queries"]
        n3 += len(batch)
        if any(ob.status != "discharged" for ob in batch):
            for ob in late:
                ob.reason = "[retry skipped: another obligation of this case stayed undecided after the retry] " + (ob.reason or "")
            break
    return {"solve_wall_s": round(wall, 2), "queries": queries, "phase2_obligations": len(todo), "phase3_obligations": n3}


def _solve_phase(obligations, budget, workers, tmpdir, portfolio):
    import tempfile

    own = tmpdir is None
    tmpdir = tmpdir or tempfile.mkdtemp(prefix="pyvc_", dir=os.environ.get("VERIF_SCRATCH"))
    jobs = []
    t0 = time.time()
    nq = 0
    for idx, ob in enumerate(obligations):
        if ob.status is not None:
            continue
        goal = ob.goal
        if isinstance(goal, bool):
            goal = z3.BoolVal(goal)
        gs = z3.simplify(goal)
        if ob.kind != "cover" and z3.is_true(gs):
            ob.status, ob.backend, ob.ms = "discharged", "simplifier", 0
            continue
        try:
            if ob.kind == "cover":
                subs = [(ob.hyps, goal)]
            else:
                subs = smt.split_goal(ob.hyps, goal)
            sub_variants = []
            shas = []
            for k, (hy, g) in enumerate(subs):
                if z3.is_true(z3.simplify(g)):
                    continue
                variants = {}
                seen_sizes = set()
                if ob.kind != "cover":
                    for tag, depth, qf in (("s1", 1, True), ("s3", 3, True), ("s2q", 2, False)):
                        hs = smt.slice_hyps(hy, g, depth, qf)
                        if len(hs) in seen_sizes or len(hs) == len(hy):
                            continue
                        seen_sizes.add(len(hs))
                        txt = smt.to_smt2(hs, z3.Not(g))
                        p = os.path.join(tmpdir, "vc_%05d_%d_%s.smt2" % (idx, k, tag))
                        with open(p, "wt") as f:
                            f.write(txt)
                        variants[tag] = p
                txt = smt.to_smt2(hy, z3.Not(g))
                p = os.path.join(tmpdir, "vc_%05d_%d_full.smt2" % (idx, k))
                with open(p, "wt") as f:
                    f.write(txt)
                variants["full"] = p
                shas.append(smt.sha(txt)[:16])
                sub_variants.append(variants)
        except Exception as e:  # noqa
            ob.status, ob.reason = "undecided", "smt2 dump failed: %s" % e
            continue
        ob.extra["smt2_sha"] = shas
        ob.extra["subgoals"] = len(sub_variants)
        if not sub_variants:
            ob.status, ob.backend, ob.ms = "discharged", "simplifier", 0
            continue
        nq += len(sub_variants)
        jobs.append((idx, sub_variants, budget, CANARY_LADDER if ob.kind == "canary" else portfolio))
    with ThreadPoolExecutor(max_workers=workers) as ex:
        for idx, verdict, backend, ms, results in ex.map(_solve_one, jobs):
            ob = obligations[idx]
            ob.backend, ob.ms = backend, ms
            ob.extra["solver_runs"] = results
            if ob.kind == "cover":
                ob.status = "discharged" if verdict == "sat" else ("refuted" if verdict == "unsat" else "undecided")
                if verdict == "unknown":
                    ob.reason = "cover query unknown"
            elif verdict == "unsat":
                ob.status = "discharged"
            elif verdict == "sat":
                ob.status = "refuted"
            else:
                ob.status, ob.reason = "undecided", "solver: unknown/timeout (%s)" % results
    if own:
        import shutil

        shutil.rmtree(tmpdir, ignore_errors=True)
    return {"solve_wall_s": round(time.time() - t0, 2), "queries": nq}


def model_for(ob, timeout_ms=20000):
    """In-process z3 model of a refuted obligation: dict input name -> python value"""
    s = z3.Solver()
    s.set("timeout", timeout_ms)
    ax = smt.axioms()
    terms = list(ob.hyps) + [ob.goal if not isinstance(ob.goal, bool) else z3.BoolVal(ob.goal)]
    for name, a in ax.items():
        if smt.uses(terms, name):
            s.add(a)
    if smt.GROUND_CF and smt.uses(terms, "casefold"):
        for a in smt.GROUND_CF.values():
            s.add(a)
    for h in ob.hyps:
        s.add(h)
    g = ob.goal if not isinstance(ob.goal, bool) else z3.BoolVal(ob.goal)
    s.add(z3.Not(g))
    r = s.check()
    if r != z3.sat:
        return None
    m = s.model()
    out = {}
    for name, (ty, t) in (ob.extra.get("inputs") or {}).items():
        v = m.eval(t, model_completion=True)
        if ty == "str":
            out[name] = v.as_string() if hasattr(v, "as_string") else str(v)
        elif ty == "int":
            out[name] = v.as_long()
        elif ty == "bool":
            out[name] = z3.is_true(v)
        else:
            out[name] = str(v)
    return out
