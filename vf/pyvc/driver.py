"""
Driver: runs contracts case-by-case in worker processes (symbolic execution + solver portfolio),
turns candidate counter-models into concrete inputs, replays them on the real function under CPython
and classifies every obligation as discharged / refuted(confirmed) / undecided.
"""
import importlib
import ast
import json
import multiprocessing as mp
import os
import sys
import time
import traceback

import z3

from . import engine as E
from . import smt, specfuncs
from . import verify as V
from .values import Const, Exc, HDict, HList, Opq, Raise, Ref, Sym, Unsupported


def load_registry():
    from vf.contracts import ALL_CONTRACTS

    return {c.func: c for c in ALL_CONTRACTS}


# --------------------------------------------------------------------------------- concrete runs
def to_py(v, st):
    """engine value -> python value (concrete runs only)"""
    if isinstance(v, (Sym,)):
        t = z3.simplify(v.t)
        if v.ty == "str" and z3.is_string_value(t):
            return t.as_string()
        if v.ty == "int" and z3.is_int_value(t):
            return t.as_long()
        if v.ty == "bool" and (z3.is_true(t) or z3.is_false(t)):
            return z3.is_true(t)
        raise Unsupported("symbolic value in a concrete run: %r" % (v,))
    if isinstance(v, tuple):
        return tuple(to_py(x, st) for x in v)
    if isinstance(v, Ref):
        h = st.heap[v.oid]
        if isinstance(h, HList):
            return [to_py(x, st) for x in h.items]
        if isinstance(h, HDict):
            return {k: to_py(h.vals[k], st) for k in h.keys}
        if isinstance(h, E.HObj) and h.cls and h.cls.startswith("ast."):
            import ast as _a

            node = getattr(_a, h.cls[4:])()
            for k, x in h.attrs.items():
                setattr(node, k, to_py(x, st))
            return node
    if isinstance(v, Const):
        return v.obj
    if isinstance(v, V.Native):
        return v.obj
    if isinstance(v, Opq):
        raise Unsupported("opaque value in a concrete run")
    return v


def concrete_run(contract, registry, kwargs, case=None):
    """Interpret the real source with the engine on concrete arguments.
    -> dict(outcome='return'|'raise', value=..., ghosts={...}, cut=bool)
    With a cut point (contract.stop_after / case.stop_after) the run ends there: `cut` is True and outcome / value are those of the cut."""
    modname, qual = contract.func.split(":")
    node, src, path = V.find_def_dotted(modname, qual)
    glob = V._glob_for(modname)
    V.models.register_repo_natives()
    c2 = V.Contract(contract.func, [], [], loops={}, ghosts=contract.ghosts, defs=contract.defs)
    eng = V.VEngine(registry, contract.func + "[concrete]", c2)
    eng.ghost_hooks = contract.ghosts
    eng.concrete_fallback = True
    eng.to_py, eng.lift_py = to_py, lift_py
    eng.stop_after = (getattr(case, "stop_after", None) if case is not None else None) or contract.stop_after
    import ast as _ast

    fors = sorted((n for n in _ast.walk(node) if isinstance(n, _ast.For)), key=lambda n: (n.lineno, n.col_offset))
    eng.loop_ordinals = {id(n): k + 1 for k, n in enumerate(fors)}
    st = E.State()
    fn = V.Fn(node, [], glob, qual)
    sid0 = eng.new_scope(st)
    eng.frames.append(E.Frame(sid0, fn, "<defaults>"))
    fn.defaults = eng.make_fn_from_def(node, st)
    eng.frames.pop()
    binding = {}
    for pname in [a.arg for a in node.args.args + node.args.kwonlyargs]:
        if pname in kwargs:
            binding[pname] = lift_py(kwargs[pname], st)
        else:
            binding[pname] = fn.defaults[pname]
    if node.args.vararg is not None:
        binding[node.args.vararg.arg] = ()
    if node.args.kwarg is not None:
        binding[node.args.kwarg.arg] = st.alloc(HDict())
    sid = eng.new_scope(st, dict(binding))
    eng.frames.append(E.Frame(sid, fn, qual))
    try:
        outs = eng.exec_block(node.body, st)
    finally:
        eng.frames.pop()
    if len(outs) != 1:
        raise Unsupported("concrete run forked (%d outcomes)" % len(outs))
    kind, val, s = outs[0]
    if kind == "abort":
        raise Unsupported("concrete run left the subset: %s" % val)
    ghosts = {}
    for k, v in s.ghost.items():
        try:
            ghosts[k] = to_py(v, s)
        except Unsupported:
            pass
    cut = bool(eng.stop_after and eng.stop_fired)
    if kind == "raise":
        return {"outcome": "raise", "value": val.kind, "ghosts": ghosts, "cut": cut}
    return {"outcome": "return", "value": None if cut else to_py(val if kind == "return" else None, s), "ghosts": ghosts, "cut": cut}


def lift_py(v, st):
    if isinstance(v, dict):
        d = HDict()
        for k, x in v.items():
            d.set(k, lift_py(x, st))
        return st.alloc(d)
    if isinstance(v, list):
        return st.alloc(HList([lift_py(x, st) for x in v]))
    if isinstance(v, tuple):
        return tuple(lift_py(x, st) for x in v)
    import ast as _a

    if callable(v) and not isinstance(v, type):
        return V.Native(v)
    if isinstance(v, _a.AST):
        o = E.HObj("ast." + type(v).__name__)
        for k, x in vars(v).items():
            o.attrs[k] = lift_py(x, st)
        return st.alloc(o)
    if v is not None and not isinstance(v, (bool, int, float, complex, str, frozenset, set)):
        return V.Native(v)  # any other real object (an enum member): itself, compared by identity
    return v


def _pair(orig, cp, out, _seen=None):
    """identity map copy -> original for the containers reachable from the arguments"""
    import enum
    import types

    _seen = set() if _seen is None else _seen
    if id(orig) in _seen or isinstance(orig, (type, enum.Enum, types.ModuleType, types.FunctionType)):
        return  # shared, immutable or cyclic objects (an enum member reaches its class and back)
    _seen.add(id(orig))
    if isinstance(orig, (dict, list, tuple)) or hasattr(orig, "__dict__"):
        out[id(cp)] = orig
    if isinstance(orig, dict):
        for k in orig:
            if k in cp:
                _pair(orig[k], cp[k], out, _seen)
    elif isinstance(orig, (list, tuple)):
        for a, b in zip(orig, cp):
            _pair(a, b, out, _seen)
    elif hasattr(orig, "__dict__") and hasattr(cp, "__dict__"):
        for k, a in vars(orig).items():
            if k in vars(cp):
                _pair(a, vars(cp)[k], out, _seen)


def real_call(contract, kwargs):
    """call the real function under CPython (deep-copying mutable arguments); `old` is the deep snapshot of what was passed,
    `args_after` the passed objects in their post-state, `orig_of` maps id(snapshot object) -> the passed object (for `is`)"""
    import copy

    modname, qual = contract.func.split(":")
    mod = V.real_module(modname)
    obj = mod
    for part in qual.split("."):
        obj = getattr(obj, part)
    kw = copy.deepcopy(kwargs)
    old = copy.deepcopy(kw)
    orig_of = {"__keep": (kw, old)}
    _pair(kw, old, orig_of)
    try:
        value = obj(**kw)
        if isinstance(value, map):  # a lazy `map` result is materialised once (the engine's value for it is the list of its items)
            value = list(value)
        return {"outcome": "return", "value": value, "args_after": kw, "old": old, "orig_of": orig_of}
    except Exception as e:  # noqa
        return {"outcome": "raise", "value": type(e).__name__, "msg": str(e)[:200], "args_after": kw, "old": old, "orig_of": orig_of,
                "mro": [c.__name__ for c in type(e).__mro__]}


class _IsRewrite(ast.NodeTransformer):
    def visit_Compare(self, node):
        self.generic_visit(node)
        if len(node.ops) == 1 and isinstance(node.ops[0], (ast.Is, ast.IsNot)):
            call = ast.Call(ast.Name("__same_object", ast.Load()), [node.left, node.comparators[0]], [])
            return ast.UnaryOp(ast.Not(), call) if isinstance(node.ops[0], ast.IsNot) else call
        return node


def eval_clause_py(contract, clause_text, kwargs, result, ghosts, real=None):
    """evaluate a clause under CPython.  With `real` (the record of real_call) parameters denote the passed objects in their
    post-state, old_<p> their deep snapshots, and `is` treats a snapshot object and the passed object it was taken from as the same"""
    env = {}
    try:  # module-level names of the function's own module (e.g. `Style`, `TOKENS`), as in the engine's spec evaluation
        env.update({k: v for k, v in vars(V.real_module(contract.func.split(":")[0])).items() if not k.startswith("__")})
    except Exception:  # noqa
        pass
    env.update(specfuncs.PY_GLOBALS)
    env.update(kwargs)
    code = clause_text
    if real is not None and real.get("old") is not None:
        env.update({k: v for k, v in real["args_after"].items()})
        env.update({"old_" + k: v for k, v in real["old"].items()})
        oo = real["orig_of"]

        def same_object(a, b):
            if a is b:
                return True
            oa, ob = oo.get(id(a)), oo.get(id(b))
            return (oa is not None and oa is b) or (ob is not None and ob is a)

        env["__same_object"] = same_object
        if " is " in clause_text:
            tree = ast.fix_missing_locations(_IsRewrite().visit(ast.parse(clause_text, mode="eval")))
            code = compile(tree, "<clause>", "eval")
    env.update(ghosts)
    env["result"] = result
    for dname, dtext in contract.defs.items():
        env[dname] = eval(dtext, env)
    return bool(eval(code, env))


def same_value(a, b):
    if isinstance(a, dict) and isinstance(b, dict):  # OrderedDict vs dict: same items in the same order
        return list(a) == list(b) and all(same_value(a[k], b[k]) for k in a)
    if type(a) is not type(b):
        return False
    if isinstance(a, (tuple, list)):
        return len(a) == len(b) and all(same_value(x, y) for x, y in zip(a, b))
    if isinstance(a, dict):
        return list(a) == list(b) and all(same_value(a[k], b[k]) for k in a)
    if isinstance(a, float):
        return a == b or (a != a and b != b)
    import ast as _a

    if isinstance(a, _a.AST):
        return _a.dump(a) == _a.dump(b)
    return a == b


# --------------------------------------------------------------------------------- one case
def _model_values(ob, hyps, goal, timeout_ms=3000):
    """in-process model of hyps /\\ not goal -> evaluator"""
    s = z3.Solver()
    s.set("timeout", timeout_ms)
    terms = list(hyps) + [goal]
    for name, a in smt.axioms().items():
        if smt.uses(terms, name):
            s.add(a)
    for h in hyps:
        s.add(h)
    s.add(z3.Not(goal))
    if s.check() != z3.sat:
        return None
    return s.model()


def _term_py(m, t):
    v = m.eval(t, model_completion=True)
    if z3.is_string_value(v):
        return v.as_string()
    if z3.is_int_value(v):
        return v.as_long()
    if z3.is_true(v) or z3.is_false(v):
        return z3.is_true(v)
    return None


def candidate_inputs(contract, case, ob):
    """candidate concrete kwargs from counter-models of the obligation (full, then sliced)."""
    goal = ob.goal if not isinstance(ob.goal, bool) else z3.BoolVal(ob.goal)
    cands = []
    subs = smt.split_goal(ob.hyps, goal)
    for hy, g in subs:
        variants = [hy] + [smt.slice_hyps(hy, g, d, qf) for d, qf in ((3, True), (1, True))]
        for hs in variants:
            try:
                m = _model_values(ob, hs, g)
            except Exception:
                m = None
            if m is None:
                continue
            vals = {}
            for name, (ty, t) in (ob.extra.get("inputs") or {}).items():
                vals[name] = _term_py(m, t)
            gvals = {}
            for gname, gv in (ob.extra.get("ghost_terms") or {}).items():
                gvals[gname] = _term_py(m, gv)
            cands.append((vals, gvals))
    return cands


def run_case(args):
    """worker: (contract key, case name, budget) -> json-able report"""
    key, case_name, budget, workers = args
    t0 = time.time()
    V.preimport_meta()
    registry = load_registry()
    contract = registry[key]
    out = {"func": key, "case": case_name, "obligations": [], "error": None}
    try:
        rep = V.verify_function(contract, registry, only_cases=[case_name])
        out["sym_s"] = round(rep.sym_s, 2)
        out["src_hash"], out["ast_hash"] = rep.src_hash, rep.ast_hash
        out["paths"] = rep.cases.get(case_name)
        out["assumed"] = sorted(rep.assumed)
        # canaries: a handful is enough
        ncan = 0
        for ob in rep.obligations:
            if ob.kind == "canary":
                ncan += 1
                if ncan > 40:
                    ob.status, ob.reason = "skipped", "canary sample limit"
        stats = V.solve_all([ob for ob in rep.obligations], budget=budget, workers=workers)
        out["solve"] = stats
        case = next(c for c in contract.cases if c.name == case_name)
        confirmed = set()
        n_replays = 0
        n_witness = 0
        for ob in rep.obligations:
            rec = {
                "id": ob.id, "kind": ob.kind, "status": ob.status, "backend": ob.backend, "ms": ob.ms,
                "note": ob.note, "reason": ob.reason, "clause": ob.extra.get("clause"),
                "runs": ob.extra.get("solver_runs"), "subgoals": ob.extra.get("subgoals"),
            }
            has_cand = ob.status == "refuted" or any(r[1] == "sat" for r in (ob.extra.get("solver_runs") or []))
            ckey = (ob.kind, ob.extra.get("clause") or ob.note)
            if (ob.kind in ("post", "safety", "raises") and ob.status in ("refuted", "undecided") and has_cand
                    and ckey not in confirmed and n_replays < 8):
                n_replays += 1
                try:
                    rec["replay"] = try_replay(contract, registry, case, ob)
                except Exception as e:  # noqa
                    rec["replay"] = {"confirmed": False, "error": "%s: %s" % (type(e).__name__, e)}
                if rec["replay"] and rec["replay"].get("confirmed"):
                    rec["status"] = "refuted"
                    confirmed.add(ckey)
                elif ob.status == "refuted":
                    rec["status"] = "refuted-unconfirmed"
            elif (ob.kind in ("post", "safety", "raises") and ob.status == "undecided" and ckey not in confirmed and n_witness < 6
                  and not (ob.reason or "").startswith(("outside the verified subset", "spec not evaluable", "anchor"))):
                # the solvers gave no verdict (typically an uninterpreted casefold / nq_spec in a clause that no longer holds): ordinary inputs - the
                # contract's witness builder and the generic witnesses - are still run through the real code; a failing one makes the obligation refuted
                n_witness += 1
                try:
                    rec["replay"] = try_replay(contract, registry, case, ob, with_models=False)
                except Exception as e:  # noqa
                    rec["replay"] = {"confirmed": False, "error": "%s: %s" % (type(e).__name__, e)}
                if rec["replay"] and rec["replay"].get("confirmed"):
                    rec["status"] = "refuted"
                    confirmed.add(ckey)
            elif ob.status == "refuted" and ob.kind not in ("canary", "cover"):
                rec["status"] = "refuted-unconfirmed"  # counter-model without a replayed input
            out["obligations"].append(rec)
    except Exception as e:  # noqa
        out["error"] = "%s: %s\n%s" % (type(e).__name__, e, traceback.format_exc()[-1500:])
    out["wall_s"] = round(time.time() - t0, 2)
    return out


def _show(v):
    return ast.dump(v) if isinstance(v, ast.AST) else repr(v)


class _NoConcrete(Exception):
    pass


_DEFAULT_OF = {"str": "", "int": 0, "bool": False}


def concretize(spec, name, vals, top=True):
    """the concrete Python value of a parameter spec under a counter-model (mirrors verify.make_value's naming); nested values the model
    leaves open take the type's zero value; AST node specs become real ast nodes"""
    if isinstance(spec, str) and spec in ("str", "int", "bool"):
        v = vals.get(name)
        return v if (v is not None or top) else _DEFAULT_OF[spec]
    if isinstance(spec, tuple) and spec:
        tag = spec[0]
        if tag == "lit":
            return spec[1]
        if tag == "strcat":
            return "".join((vals.get("%s_%d" % (name, i)) if vals.get("%s_%d" % (name, i)) is not None else _DEFAULT_OF["str"]) if (part == "str" or isinstance(part, tuple)) else part
                           for i, part in enumerate(spec[1]))
        if tag == "tuple":
            return tuple(concretize(sp, "%s_%d" % (name, i), vals, False) for i, sp in enumerate(spec[1]))
        if tag == "list":
            return [concretize(sp, "%s_%d" % (name, i), vals, False) for i, sp in enumerate(spec[1])]
        if tag == "dict":
            d = {}
            for k, vs in spec[1].items():
                opt = isinstance(vs, tuple) and vs and vs[0] == "opt"
                if opt and vals.get("%s.has.%s" % (name, k)) is False:
                    continue
                d[k] = concretize(vs[1] if opt else vs, "%s_%s" % (name, k), vals, False)
            return d
        if tag == "node" and isinstance(spec[1], str) and spec[1].startswith("ast."):
            node = getattr(ast, spec[1][4:])()
            for k, vs in spec[2].items():
                setattr(node, k, concretize(vs, "%s_%s" % (name, k), vals, False))
            return node
        if tag == "obj" and spec[1] == "ast.expr" and not top:
            return ast.Name(id=_DEFAULT_OF["str"] or "Xy", ctx=ast.Load())  # an arbitrary expression node: a name
        raise _NoConcrete(tag)
    if isinstance(spec, str) and (spec.startswith("pred") or spec == "obj"):
        raise _NoConcrete(spec)
    return spec


def try_replay(contract, registry, case, ob, with_models=True):
    """Turn counter-models into inputs, run engine-concrete and the real function, evaluate the clause."""
    opq = getattr(contract, "opaque", None) or {}
    if any(sp.get("effect") for sp in opq.values()) and any(n in opq for n in ("open", "emit.file", ".write")):
        # a contract about file-system effects is never run for real on made-up arguments: its counter-models stay unconfirmed (an obligation that was discharged
        # on the unchanged tree is then reported with no-failing-input-found; the generated-project harness is where such a change shows with a real input)
        return {"confirmed": False, "skipped": "contract over file-system effects: not executed on made-up file names"}
    builder = getattr(contract, "witness", None)
    tried = []
    generic_done = False
    cands = candidate_inputs(contract, case, ob)[:6] if with_models else []
    for vals, gvals in (cands or [({}, {})]):  # (no counter-model: still try the contract's witness builder and the generic witnesses)
        kwargs_list = []
        base = {}
        for pname, spec in case.params.items():
            try:
                base[pname] = concretize(spec, pname, vals)
            except _NoConcrete:
                base = None  # no concrete counterpart of an opaque symbolic argument: no replay from the model
                break
        if base is not None and all(v is not None or case.params.get(k) is None for k, v in base.items()):
            kwargs_list.append(base)
        if builder is not None:
            try:
                for kw in builder(case, vals, gvals) or []:
                    kwargs_list.append(kw)
            except Exception:
                pass
        if not generic_done:
            # generic witnesses: the case's own parameter spec with ordinary values for every symbolic scalar (a counter-model's strings are
            # arbitrary - often not even parseable type texts - while the violated clause usually fails for ordinary values too)
            generic_done = True
            for defaults in ({"str": "Xy", "int": 2, "bool": True}, {"str": "ab", "int": -1, "bool": False}):
                saved = dict(_DEFAULT_OF)
                _DEFAULT_OF.update(defaults)
                try:
                    kwargs_list.append({pname: concretize(spec, pname, {}, top=False) for pname, spec in case.params.items()})
                except _NoConcrete:
                    pass
                finally:
                    _DEFAULT_OF.clear()
                    _DEFAULT_OF.update(saved)
        for kw in kwargs_list:
            r = replay_one(contract, registry, case, ob, kw)
            tried.append({k: _show(v)[:80] for k, v in kw.items()})
            if r.get("confirmed") or r.get("engine_mismatch"):
                return r
    return {"confirmed": False, "tried": tried[:4]}


def replay_one(contract, registry, case, ob, kwargs):
    real = real_call(contract, kwargs)
    try:
        conc = concrete_run(contract, registry, kwargs, case)
    except Unsupported as e:
        conc = None
    res = {"kwargs": {k: _show(v) for k, v in kwargs.items()}, "real": {"outcome": real["outcome"], "value": repr(real["value"])[:300]}}
    cut = bool(conc and conc.get("cut"))
    if conc is not None and not cut:
        ok_same = conc["outcome"] == real["outcome"] and (
            same_value(conc["value"], real["value"]) if conc["outcome"] == "return" else conc["value"] == real["value"]
        )
        if not ok_same:
            res["engine_mismatch"] = {"engine": repr(conc)[:300]}
            return res
    ghosts = conc["ghosts"] if conc else {}
    if ob.kind == "post":
        if real["outcome"] != "return" and not (cut and not V._re_word("result", ob.note)):
            return res  # (a clause of a cut-point contract that does not mention `result` speaks about the state at the cut: decided from the ghosts)
        # requires must hold on the concrete input
        try:
            for txt in list(contract.requires) + list(case.assume):
                if not eval_clause_py(contract, txt, kwargs, None, ghosts):
                    return res
        except Exception as e:  # noqa
            res["eval_error"] = "%s: %s" % (type(e).__name__, e)
            return res
        try:
            holds = eval_clause_py(contract, ob.note, kwargs, real["value"], ghosts, real=real)
        except (KeyError, IndexError, AttributeError) as e:
            if ob.extra.get("spec_raises") != type(e).__name__:
                res["eval_error"] = "%s: %s" % (type(e).__name__, e)
                return res
            holds = False  # the engine predicted it: on this input the clause subscripts an entry the real result does not have
            res["clause_raises"] = "%s: %s" % (type(e).__name__, e)
        except Exception as e:  # noqa
            res["eval_error"] = "%s: %s" % (type(e).__name__, e)
            return res
        if not holds:
            res["confirmed"] = True
            res["clause"] = ob.note
    elif ob.kind in ("safety", "raises"):
        if real["outcome"] == "raise" and (ob.kind != "safety" or ob.extra.get("exc") in (None, real["value"])):
            allowed = next((contract.raises[n] for n in real.get("mro", [real["value"]]) if n in contract.raises), None)
            if allowed is None:
                res["confirmed"] = True
                res["clause"] = "must not raise %s" % real["value"]
            elif allowed is not True:
                try:
                    if not eval_clause_py(contract, allowed, kwargs, None, ghosts):
                        res["confirmed"] = True
                        res["clause"] = "%s only when %s" % (real["value"], allowed)
                except Exception as e:  # noqa
                    res["eval_error"] = str(e)
    return res


def run_contracts(keys, budget=10, procs=16, only=None):
    """-> list of per-case reports"""
    registry = load_registry()
    jobs = []
    for key in keys:
        c = registry[key]
        for case in c.cases:
            if only and (key, case.name) not in only:
                continue
            if getattr(case, "tier", None) == "thorough" and os.environ.get("VERIF_TIER", "quick") != "thorough" and not only:
                continue  # cases that cost minutes are part of the thorough tier only (stated in the contract)
            jobs.append((key, case.name, budget, 1))
    nproc = max(1, min(procs, len(jobs)))
    workers = max(2, procs // nproc)
    jobs = [(k, cn, b, workers) for k, cn, b, _ in jobs]
    if nproc == 1:
        return [run_case(j) for j in jobs]
    ctx = mp.get_context("fork")
    with ctx.Pool(nproc) as pool:
        return pool.map(run_case, jobs, chunksize=1)
