"""
Determinism audit (C12 D-audit, C07.D2/D4): every syntactic source of run-to-run variation in the non-test modules
is an obligation, decided by rule on the AST of the current working tree (holds for all inputs because the rules
over-approximate).  Sources: iteration over a set-like value into an ordered result, set-like values handed to
functions that iterate their parameter order-sensitively, persistent writes (global / globals() / function or
module attributes / mutable default arguments), and calls to id / hash / random / time / listdir-like functions.
"""
import ast
import os

from . import verify as V

MODULES = ["__init__", "__main__", "ast_utils", "conformance", "defaults_utils", "docstring_parsers", "docstring_utils", "emit",
           "emitter_utils", "gen", "parse", "parser_utils", "pure_utils", "source_transformer", "sync_properties"]
SET_OPS = (ast.BitAnd, ast.BitOr, ast.Sub, ast.BitXor)
NONDET_CALLS = {"id", "hash", "random", "randint", "choice", "shuffle", "time", "time_ns", "perf_counter", "listdir", "scandir", "glob",
                "iglob", "uuid4", "uuid1", "getpid", "urandom", "now", "today"}
MUTATORS = {"update", "pop", "append", "extend", "insert", "remove", "clear", "sort", "reverse", "setdefault", "popitem", "add", "discard"}


def _is_keys_call(e):
    return isinstance(e, ast.Call) and isinstance(e.func, ast.Attribute) and e.func.attr in ("keys", "items") and not e.args


def set_like(e, setnames):
    """syntactic over-approximation of 'evaluates to a set / frozenset / dict-view set operation'"""
    if isinstance(e, (ast.Set, ast.SetComp)):
        return True
    if isinstance(e, ast.Call) and isinstance(e.func, ast.Name) and e.func.id in ("set", "frozenset"):
        return True
    if isinstance(e, ast.BinOp) and isinstance(e.op, SET_OPS):
        return any(_is_keys_call(x) or set_like(x, setnames) for x in (e.left, e.right))
    if isinstance(e, ast.Name) and e.id in setnames:
        return True
    if isinstance(e, ast.Call) and isinstance(e.func, ast.Attribute) and e.func.attr in ("union", "intersection", "difference", "symmetric_difference"):
        return True
    return False


def _local_setnames(fn, module_sets):
    names = set(module_sets)
    for n in ast.walk(fn):
        if isinstance(n, ast.Assign) and len(n.targets) == 1 and isinstance(n.targets[0], ast.Name):
            if set_like(n.value, names):
                names.add(n.targets[0].id)
    return names


def _index_root(t):
    """for X[k]... -> (X name, first index expr, depth)"""
    chain = []
    while isinstance(t, (ast.Subscript, ast.Attribute)):
        chain.append(t)
        t = t.value
    if not isinstance(t, ast.Name) or not chain:
        return None
    first = chain[-1]
    if not isinstance(first, ast.Subscript):
        return None
    return t.id, first.slice, len(chain)


def body_per_key_local(loop):
    """-> (ok, inserts, why): the body writes only cells indexed by the loop variable"""
    if not isinstance(loop.target, ast.Name):
        return False, False, "loop target is not a single name"
    var = loop.target.id
    inserts = False
    for n in ast.walk(ast.Module(body=loop.body, type_ignores=[])):
        if isinstance(n, (ast.Return, ast.Break, ast.Yield, ast.YieldFrom)):
            return False, inserts, "return / break / yield inside the loop makes the result depend on the iteration order"
        if isinstance(n, (ast.Assign, ast.AugAssign)):
            for t in (n.targets if isinstance(n, ast.Assign) else [n.target]):
                if isinstance(t, ast.Name):
                    continue  # loop-local temporaries are re-assigned each iteration
                r = _index_root(t)
                if r is None or not (isinstance(r[1], ast.Name) and r[1].id == var):
                    return False, inserts, "write to %s is not indexed by the loop variable" % ast.unparse(t)
                if r[2] == 1:
                    inserts = True
        if isinstance(n, ast.Call) and isinstance(n.func, ast.Attribute) and n.func.attr in MUTATORS:
            r = _index_root(n.func.value)
            if r is None or not (isinstance(r[1], ast.Name) and r[1].id == var):
                return False, inserts, "mutating call %s is not on a cell indexed by the loop variable" % ast.unparse(n.func)
    return True, inserts, ""


def order_sensitive_params(fn):
    """parameters iterated by a `for` whose body returns / breaks / appends (first match wins, order kept)"""
    params = {a.arg for a in fn.args.args + fn.args.kwonlyargs}
    out = set()
    for n in ast.walk(fn):
        if isinstance(n, ast.For) and isinstance(n.iter, ast.Name) and n.iter.id in params:
            ok, _, _ = body_per_key_local(n)
            if not ok:
                out.add(n.iter.id)
    return out


def run_audit(unordered_ok=None, persistent_ok=None):
    """-> (items, inventory). items: (id, holds, text, witness); `None` for holds = assumed (listed, not discharged)"""
    unordered_ok = unordered_ok or {}
    persistent_ok = persistent_ok or {}
    items = []
    inventory = {"unordered_iterations": [], "set_arguments": [], "persistent_writes": [], "nondet_calls": [], "env_reads": []}
    trees = {}
    for m in MODULES:
        try:
            trees[m] = V.module_ast("doctrans." + m)[0]
        except FileNotFoundError:
            continue
    # module-level set-like constants and order-sensitive parameters of every function
    module_sets = {}
    sensitive = {}
    for m, tree in trees.items():
        ms = set()
        for st in tree.body:
            if isinstance(st, ast.Assign) and len(st.targets) == 1 and isinstance(st.targets[0], ast.Name) and set_like(st.value, ms):
                ms.add(st.targets[0].id)
        module_sets[m] = ms
        for n in ast.walk(tree):
            if isinstance(n, ast.FunctionDef):
                sp = order_sensitive_params(n)
                if sp:
                    sensitive.setdefault(n.name, []).append((n, sp))
    all_module_sets = set().union(*module_sets.values()) if module_sets else set()
    for m, tree in trees.items():
        for fn in [n for n in ast.walk(tree) if isinstance(n, (ast.FunctionDef, ast.Lambda))] + [tree]:
            fname = getattr(fn, "name", "<module>" if fn is tree else "<lambda>")
            where = "doctrans.%s:%s" % (m, fname)
            setnames = _local_setnames(fn, module_sets[m] | all_module_sets) if not isinstance(fn, ast.Module) else set(module_sets[m])
            body_nodes = list(ast.walk(fn)) if not isinstance(fn, ast.Module) else [n for st in tree.body if not isinstance(st, (ast.FunctionDef, ast.ClassDef)) for n in ast.walk(st)]
            for n in body_nodes:
                if isinstance(fn, (ast.FunctionDef,)) and n is not fn and isinstance(n, (ast.FunctionDef,)):
                    continue
                # 1. for-loops / comprehensions over set-like values
                iters = []
                if isinstance(n, ast.For):
                    iters.append((n.iter, n))
                elif isinstance(n, (ast.ListComp, ast.GeneratorExp, ast.DictComp)):
                    for g in n.generators:
                        iters.append((g.iter, None))
                for it, loop in iters:
                    if not set_like(it, setnames):
                        continue
                    site = "%s@%s" % (where, ast.unparse(it)[:60])
                    inventory["unordered_iterations"].append({"where": where, "line": n.lineno, "iter": ast.unparse(it)[:80]})
                    if loop is None:
                        items.append(("unordered[%s]" % site, False, "a comprehension iterates a set-like value: its result order follows hashing", "line %d" % n.lineno))
                        continue
                    ok, inserts, why = body_per_key_local(loop)
                    key = (where, ast.unparse(it))
                    if not ok:
                        items.append(("unordered[%s]" % site, False, "iteration over a set-like value with an order-sensitive body: %s" % why, "line %d" % n.lineno))
                    elif inserts:
                        # X[var] = ... may insert a key: fine only if var is already a key of X (intersection), or explicitly assumed
                        inter = isinstance(it, ast.BinOp) and isinstance(it.op, ast.BitAnd)
                        if inter:
                            items.append(("unordered[%s]" % site, True, "per-key local writes over an intersection of key views: no key is inserted, the result is order-independent", "line %d" % n.lineno))
                        elif key in unordered_ok:
                            items.append(("unordered[%s]" % site, None, "ASSUMED: %s" % unordered_ok[key], "line %d" % n.lineno))
                        else:
                            items.append(("unordered[%s]" % site, False, "keys are inserted into a dict in set-iteration order (observable as parameter / key order)", "line %d" % n.lineno))
                    else:
                        items.append(("unordered[%s]" % site, True, "the body writes only cells indexed by the loop variable: order-independent", "line %d" % n.lineno))
                # 2. set-like values handed to order-sensitive parameters
                if isinstance(n, ast.Call):
                    callee = n.func.id if isinstance(n.func, ast.Name) else (n.func.attr if isinstance(n.func, ast.Attribute) else None)
                    for cfn, sp in sensitive.get(callee, []):
                        pnames = [a.arg for a in cfn.args.args]
                        bound = list(zip(pnames, n.args)) + [(k.arg, k.value) for k in n.keywords if k.arg]
                        for pn, ae in bound:
                            if pn in sp:
                                parts = [ae] + ([ae.body, ae.orelse] if isinstance(ae, ast.IfExp) else [])
                                bad = [p for p in parts if set_like(p, setnames)]
                                inventory["set_arguments"].append({"where": where, "callee": callee, "param": pn, "arg": ast.unparse(ae)[:60]})
                                items.append(("ordered-arg[%s->%s.%s]" % (where, callee, pn), not bad,
                                              "%s iterates its parameter %s order-sensitively (first match wins): the argument must be an ordered sequence" % (callee, pn),
                                              ast.unparse(ae)[:80]))
                    # 3. nondeterministic calls
                    if callee in NONDET_CALLS:
                        inventory["nondet_calls"].append({"where": where, "call": ast.unparse(n)[:60]})
                        items.append(("nondet-call[%s:%s]" % (where, callee), False, "call to %s() in a conversion module" % callee, "line %d" % n.lineno))
                    # 4. globals().update / setattr on modules
                    if isinstance(n.func, ast.Attribute) and n.func.attr in MUTATORS and isinstance(n.func.value, ast.Call) and isinstance(n.func.value.func, ast.Name) and n.func.value.func.id in ("globals", "vars", "locals"):
                        key = (where, ast.unparse(n)[:60])
                        inventory["persistent_writes"].append({"where": where, "what": ast.unparse(n)[:60]})
                        if key in persistent_ok:
                            items.append(("persistent[%s]" % where, None, "ASSUMED: %s" % persistent_ok[key], ast.unparse(n)[:60]))
                        else:
                            items.append(("persistent[%s:globals]" % where, False, "module globals are modified at run time: later conversions in the same process see them", ast.unparse(n)[:60]))
                if isinstance(n, ast.Global):
                    inventory["persistent_writes"].append({"where": where, "what": "global " + ", ".join(n.names)})
                    items.append(("persistent[%s:global]" % where, False, "a function rebinds module-level state (global %s)" % ", ".join(n.names), "line %d" % n.lineno))
                # 5. attributes set on function objects / modules that outlive the call
                if isinstance(n, ast.Assign) and isinstance(fn, ast.FunctionDef):
                    for t in n.targets:
                        if isinstance(t, ast.Attribute) and isinstance(t.value, ast.Name):
                            base = t.value.id
                            local_defs = {x.name for x in ast.walk(fn) if isinstance(x, ast.FunctionDef) and x is not fn}
                            nested_self = base == fn.name and fn not in tree.body and not any(fn in getattr(c, "body", []) for c in tree.body if isinstance(c, ast.ClassDef))
                            if base in local_defs or nested_self:
                                items.append(("persistent[%s:%s.%s]" % (where, base, t.attr), True,
                                              "the attribute is set on a function object created by the same activation", "line %d" % n.lineno))
                            elif base == fn.name or base in {x.name for x in tree.body if isinstance(x, (ast.FunctionDef, ast.ClassDef))}:
                                inventory["persistent_writes"].append({"where": where, "what": ast.unparse(t)})
                                items.append(("persistent[%s:%s.%s]" % (where, base, t.attr), False,
                                              "state is stored on a module-level function / class object and outlives the call", "line %d" % n.lineno))
            # 5b. memoisation: a cache decorator makes a call's result depend on earlier calls unless the function is pure AND returns a value
            # nobody mutates; neither is decidable by rule, so a memoised function is an open obligation
            if isinstance(fn, ast.FunctionDef):
                for dec in fn.decorator_list:
                    dtxt = ast.unparse(dec.func if isinstance(dec, ast.Call) else dec)
                    if dtxt.split(".")[-1] in ("lru_cache", "cache", "cached_property", "memoize", "memoise"):
                        inventory["persistent_writes"].append({"where": where, "what": "@" + ast.unparse(dec)[:60]})
                        items.append(("persistent[%s:@%s]" % (where, dtxt.split(".")[-1]), False,
                                      "a memoised function keeps its results across calls (state that outlives the call; a mutable result is shared with every later caller)",
                                      "line %d" % fn.lineno))
            # 6. mutable default arguments that are mutated
            if isinstance(fn, ast.FunctionDef):
                for a, d in zip(reversed(fn.args.args), reversed(fn.args.defaults)):
                    if isinstance(d, (ast.List, ast.Dict, ast.Set)) or (isinstance(d, ast.Call) and isinstance(d.func, ast.Name) and d.func.id in ("list", "dict", "set", "OrderedDict")):
                        mutated = any(
                            (isinstance(x, ast.Call) and isinstance(x.func, ast.Attribute) and x.func.attr in MUTATORS and isinstance(x.func.value, ast.Name) and x.func.value.id == a.arg)
                            or (isinstance(x, (ast.Assign, ast.AugAssign)) and any(isinstance(t, ast.Subscript) and isinstance(t.value, ast.Name) and t.value.id == a.arg for t in (x.targets if isinstance(x, ast.Assign) else [x.target])))
                            for x in ast.walk(fn))
                        items.append(("persistent[%s:default-%s]" % (where, a.arg), not mutated, "a mutable default argument is not mutated", "line %d" % fn.lineno))
        # environment reads at import
        for st in tree.body:
            for n in ast.walk(st) if not isinstance(st, (ast.FunctionDef, ast.ClassDef)) else []:
                if isinstance(n, ast.Call) and "environ" in ast.unparse(n.func):
                    inventory["env_reads"].append({"where": "doctrans.%s" % m, "what": ast.unparse(n)[:60]})
    return items, inventory
