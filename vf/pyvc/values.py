"""Value domain of the symbolic executor."""
import z3

from . import smt


class Unsupported(Exception):
    """Construct outside the verified subset -> the obligation is *undecided*, never a violation."""


class NeedFork(Exception):
    """Raised in no-fork (merged / spec) evaluation when a fork would be required."""


class Sym:
    """Symbolic scalar: ty in {'int','bool','str'}"""

    __slots__ = ("t", "ty")

    def __init__(self, t, ty):
        self.t, self.ty = t, ty

    def __repr__(self):
        return "Sym<%s %s>" % (self.ty, self.t)


class Opq:
    """Opaque object: a term of the uninterpreted sort Obj; cls is a known Python class name or None.
    pyty: for values whose Python *type* is known but whose value is abstract ('float', 'complex',
    'object')."""

    __slots__ = ("t", "cls")

    def __init__(self, t, cls=None):
        self.t, self.cls = t, cls

    def __repr__(self):
        return "Opq<%s %s>" % (self.cls, self.t)


class Ref:
    __slots__ = ("oid",)

    def __init__(self, oid):
        self.oid = oid

    def __repr__(self):
        return "Ref(%d)" % self.oid

    def __eq__(self, o):
        return isinstance(o, Ref) and o.oid == self.oid

    def __hash__(self):
        return hash(("Ref", self.oid))


class HList:
    def __init__(self, items):
        self.items = list(items)

    def copy(self):
        r = HList(self.items)
        for f in ("is_keys", "unordered"):
            if getattr(self, f, False):
                setattr(r, f, True)
        return r


class HDict:
    """dict with concrete keys; pres[k] is True or a z3 Bool (key possibly absent)."""

    def __init__(self):
        self.keys = []
        self.vals = {}
        self.pres = {}

    def copy(self):
        d = HDict()
        d.keys = list(self.keys)
        d.vals = dict(self.vals)
        d.pres = dict(self.pres)
        return d

    def set(self, k, v):
        if k not in self.vals:
            self.keys.append(k)
        self.vals[k] = v
        self.pres[k] = True

    def delete(self, k):
        self.keys.remove(k)
        del self.vals[k]
        del self.pres[k]


class HObj:
    """Plain object with attribute dict (instances created by the code under verification, `self`)."""

    def __init__(self, cls=None):
        self.attrs = {}
        self.cls = cls

    def copy(self):
        o = HObj(self.cls)
        o.attrs = dict(self.attrs)
        return o


class Fn:
    """closure over a def / lambda of the code under verification"""

    __slots__ = ("node", "scopes", "glob", "name", "defaults")

    def __init__(self, node, scopes, glob, name, defaults=None):
        self.node, self.scopes, self.glob, self.name = node, scopes, glob, name
        self.defaults = defaults


class Native:
    """a real Python object used as a callable / constant (builtin, stdlib or repo function)"""

    __slots__ = ("obj",)

    def __init__(self, obj):
        self.obj = obj

    def __repr__(self):
        return "Native(%r)" % (getattr(self.obj, "__name__", self.obj),)


class Partial:
    __slots__ = ("f", "args", "kwargs")

    def __init__(self, f, args, kwargs):
        self.f, self.args, self.kwargs = f, args, kwargs


class BoundMethod:
    __slots__ = ("recv", "name")

    def __init__(self, recv, name):
        self.recv, self.name = recv, name


class UFn:
    """uninterpreted function standing for a callable parameter (e.g. `cmp`)"""

    __slots__ = ("decl", "ret")

    def __init__(self, decl, ret):
        self.decl, self.ret = decl, ret


class OpaqueFn:
    """a callee the contract declares opaque, used as a value (handed to map / partial): calling it logs like a direct call"""

    __slots__ = ("name", "key")

    def __init__(self, name, key=None):
        self.name = name
        self.key = key or name


class Const:
    """immutable concrete Python container from module scope (dict / frozenset / list / tuple)"""

    __slots__ = ("obj",)

    def __init__(self, obj):
        self.obj = obj

    def __repr__(self):
        return "Const(%r)" % (self.obj,)


class LazyPrefix:
    """takewhile(<char in CHARS>, s)"""

    __slots__ = ("chars", "s")

    def __init__(self, chars, s):
        self.chars, self.s = chars, s


class Exc:
    __slots__ = ("kind", "msg")

    def __init__(self, kind, msg=""):
        self.kind, self.msg = kind, msg

    def __repr__(self):
        return "Exc(%s: %s)" % (self.kind, self.msg)


class Raise:
    """expression outcome: an exception propagates"""

    __slots__ = ("exc",)

    def __init__(self, exc):
        self.exc = exc


class Undef:
    def __repr__(self):
        return "Undef"


UNDEF = Undef()

# exception hierarchy needed for `except` / `suppress` matching
EXC_PARENTS = {
    "IndexError": ("LookupError", "Exception"),
    "KeyError": ("LookupError", "Exception"),
    "ValueError": ("Exception",),
    "TypeError": ("Exception",),
    "AttributeError": ("Exception",),
    "SyntaxError": ("Exception",),
    "AssertionError": ("Exception",),
    "StopIteration": ("Exception",),
    "NotImplementedError": ("RuntimeError", "Exception"),
    "OSError": ("Exception",),
    "IOError": ("OSError", "Exception"),
    "ZeroDivisionError": ("ArithmeticError", "Exception"),
    "Exception": (),
}


def exc_matches(kind, handler_names):
    if kind == "<abort>":
        return False  # not an exception of the program: the marker of a branch that left the verified subset
    if kind in handler_names:
        return True
    if kind == "IOError" and "OSError" in handler_names:
        return True
    if kind == "OSError" and "IOError" in handler_names:
        return True
    return any(p in handler_names for p in EXC_PARENTS.get(kind, ("Exception",)))


def is_sym(v):
    return isinstance(v, Sym)


def pytype_name(v):
    """static Python type name of a value where known"""
    if isinstance(v, Sym):
        return v.ty
    if v is None:
        return "NoneType"
    if isinstance(v, bool):
        return "bool"
    if isinstance(v, int):
        return "int"
    if isinstance(v, float):
        return "float"
    if isinstance(v, complex):
        return "complex"
    if isinstance(v, str):
        return "str"
    if isinstance(v, tuple):
        return "tuple"
    if isinstance(v, Opq):
        return v.cls
    return None


def to_term(v, ty=None):
    """z3 term of a scalar value (concrete or symbolic)"""
    if isinstance(v, Sym):
        return v.t
    if isinstance(v, bool):
        return z3.BoolVal(v)
    if isinstance(v, int):
        return z3.IntVal(v)
    if isinstance(v, str):
        return z3.StringVal(v)
    raise Unsupported("to_term(%r)" % (v,))
