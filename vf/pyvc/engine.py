"""
pyvc — a path-splitting symbolic executor for a subset of Python, run on the *real* source of
functions in /repo (re-read on every run), generating verification conditions for sidecar contracts.

Design: DESIGN.md section 2.  Soundness stance: anything outside the modelled subset raises
`Unsupported`, which makes the affected obligations *undecided* — never discharged, never a violation.
"""
import ast
import builtins
import contextlib
import functools
import itertools
import operator
import string as _string

import z3

from . import smt, structstr
from .smt import B, I, Obj, S, fresh
from .values import (
    UNDEF,
    BoundMethod,
    Const,
    Exc,
    Fn,
    HDict,
    HList,
    HObj,
    LazyPrefix,
    Native,
    OpaqueFn,
    NeedFork,
    Opq,
    Partial,
    Raise,
    Ref,
    Sym,
    UFn,
    Unsupported,
    exc_matches,
    pytype_name,
    to_term,
)

# uninterpreted helpers over opaque objects
obj_tag = z3.Function("obj_tag", Obj, I)  # 0 = other, 1 = str, 2 = int, 3 = bool, 4 = None
obj_str = z3.Function("obj_str", Obj, S)
obj_int = z3.Function("obj_int", Obj, I)
obj_bool = z3.Function("obj_bool", Obj, B)
obj_truthy = z3.Function("obj_truthy", Obj, B)
obj_isinst = z3.Function("obj_isinst", Obj, S, B)
pystr_of_obj = z3.Function("pystr_of_obj", Obj, S)
is_py_literal = z3.Function("is_py_literal", S, B)
lit_eval = z3.Function("lit_eval", S, Obj)
float_of_str = z3.Function("float_of_str", S, Obj)
TAG_STR, TAG_INT, TAG_BOOL, TAG_NONE = 1, 2, 3, 4


class State:
    __slots__ = ("scopes", "heap", "pc", "log", "ghost", "next_oid")

    def __init__(self):
        self.scopes = {}
        self.heap = {}
        self.pc = []
        self.log = []
        self.ghost = {}
        self.next_oid = 1

    def copy(self):
        s = State()
        s.scopes = {k: dict(v) for k, v in self.scopes.items()}
        s.heap = {k: v.copy() for k, v in self.heap.items()}
        s.pc = list(self.pc)
        s.log = list(self.log)
        s.ghost = dict(self.ghost)
        s.next_oid = self.next_oid
        return s

    def alloc(self, hobj):
        oid = self.next_oid
        self.next_oid += 1
        self.heap[oid] = hobj
        return Ref(oid)


class Obligation:
    def __init__(self, oid, kind, func, hyps, goal, note="", extra=None, witness=None):
        self.id, self.kind, self.func = oid, kind, func
        self.hyps, self.goal, self.note = list(hyps), goal, note
        self.extra = extra or {}
        self.status = None  # discharged / refuted / undecided
        self.backend = None
        self.ms = None
        self.model = None
        self.reason = None
        self.witness = witness


class Frame:
    """per function activation"""

    def __init__(self, sid, fn, qual):
        self.sid, self.fn, self.qual = sid, fn, qual
        self.loop_ordinal = 0


class SpecRaises(Unsupported):
    def __init__(self, kind, msg):
        Unsupported.__init__(self, msg)
        self.kind = kind


class Engine:
    MAX_INLINE_DEPTH = 6

    def __init__(self, registry=None, func_label="?"):
        self.registry = registry or {}
        self.obligations = []
        self.func_label = func_label
        self.mode = "exec"  # exec | merge | spec
        self.scope_ctr = 0
        self.frames = []
        self.assumed = set()  # names of uninterpreted/assumed library functions actually used
        self.loop_specs = {}
        self.ghost_hooks = {}
        self.n_forks = 0
        self.n_pruned = 0
        self.spec_funcs = {}
        self.inline_depth = 0
        self.contract_uses = []
        self.loop_ordinals = {}
        self.spec_defs = {}
        self.abort_paths = True
        self.stop_after = None
        self.stop_fired = False
        self.opaque = {}
        self.allow_unordered = False

    # ------------------------------------------------------------------ utilities
    def oblige(self, kind, st, goal, note="", extra=None, oid=None):
        oid = oid or "%s/%s#%d" % (self.func_label, kind, len(self.obligations) + 1)
        ob = Obligation(oid, kind, self.func_label, st.pc, goal, note, extra)
        self.obligations.append(ob)
        return ob

    def new_scope(self, st, init=None):
        self.scope_ctr += 1
        sid = self.scope_ctr
        st.scopes[sid] = dict(init or {})
        return sid

    def truth(self, v, st):
        """Python truthiness as python bool or z3 Bool"""
        if isinstance(v, Sym):
            if v.ty == "bool":
                return v.t
            if v.ty == "int":
                return v.t != 0
            if v.ty == "str":
                return z3.Length(v.t) > 0
        if isinstance(v, Opq):
            if v.cls in ("float", "complex"):
                self.assumed.add("truthiness of an abstract float is uninterpreted")
                return obj_truthy(v.t)
            if v.cls is not None:
                return True
            return z3.If(
                obj_tag(v.t) == TAG_STR,
                z3.Length(obj_str(v.t)) > 0,
                z3.If(
                    obj_tag(v.t) == TAG_INT,
                    obj_int(v.t) != 0,
                    z3.If(
                        obj_tag(v.t) == TAG_BOOL,
                        obj_bool(v.t),
                        z3.If(obj_tag(v.t) == TAG_NONE, z3.BoolVal(False), obj_truthy(v.t)),
                    ),
                ),
            )
        if isinstance(v, Ref):
            h = st.heap[v.oid]
            if isinstance(h, HList):
                return len(h.items) > 0
            if isinstance(h, HDict):
                if any(h.pres[k] is True for k in h.keys):
                    return True
                if not h.keys:
                    return False
                return z3.Or(*[h.pres[k] for k in h.keys])
            return True
        if isinstance(v, Const):
            return bool(v.obj)
        if isinstance(v, (Fn, Native, Partial, BoundMethod, UFn)):
            return True
        if isinstance(v, LazyPrefix):
            return True
        if v is UNDEF:
            raise Unsupported("use of undefined value")
        return bool(v)

    def fork(self, cond, st):
        """-> list of (bool, state). cond python bool or z3 Bool."""
        if isinstance(cond, bool):
            return [(cond, st)]
        cond = z3.simplify(cond)
        if z3.is_true(cond):
            return [(True, st)]
        if z3.is_false(cond):
            return [(False, st)]
        if self.mode != "exec":
            raise NeedFork()
        out = []
        self.n_forks += 1
        r1 = smt.quick_check(st.pc, cond)
        r2 = smt.quick_check(st.pc, z3.Not(cond))
        if r1 != "unsat":
            s1 = st.copy() if r2 != "unsat" else st
            s1.pc.append(cond)
            out.append((True, s1))
        else:
            self.n_pruned += 1
        if r2 != "unsat":
            st.pc.append(z3.Not(cond))
            out.append((False, st))
        else:
            self.n_pruned += 1
        return out

    # ------------------------------------------------------------------ equality / comparison
    def eq(self, a, b, st):
        """Python == as python bool or z3 Bool"""
        if isinstance(a, Sym) or isinstance(b, Sym):
            if isinstance(b, Sym) and not isinstance(a, Sym):
                a, b = b, a
            # a is Sym
            if isinstance(b, Opq):
                return self._eq_opq(b, a)
            tb = pytype_name(b)
            if a.ty == "str":
                if tb != "str":
                    return False
                return a.t == to_term(b)
            if a.ty in ("int", "bool"):
                if tb not in ("int", "bool"):
                    if tb == "float":
                        raise Unsupported("int == float")
                    return False
                return self._num(a) == self._num(b)
        if isinstance(a, Opq) or isinstance(b, Opq):
            if isinstance(b, Opq) and not isinstance(a, Opq):
                a, b = b, a
            return self._eq_opq(a, b)
        if isinstance(a, tuple) and isinstance(b, tuple):
            if len(a) != len(b):
                return False
            parts = [self.eq(x, y, st) for x, y in zip(a, b)]
            return self._and(parts)
        if isinstance(a, tuple) or isinstance(b, tuple):
            return False
        if isinstance(a, Ref) and isinstance(b, Ref):
            if a.oid == b.oid:
                return True
            ha, hb = st.heap[a.oid], st.heap[b.oid]
            if isinstance(ha, HList) and isinstance(hb, HList):
                if len(ha.items) != len(hb.items):
                    return False
                return self._and([self.eq(x, y, st) for x, y in zip(ha.items, hb.items)])
            if isinstance(ha, HDict) and isinstance(hb, HDict):
                parts = []
                for k in set(ha.keys) | set(hb.keys):
                    pa = ha.pres.get(k, False)
                    pb = hb.pres.get(k, False)
                    if pa is False or pb is False:
                        other = pb if pa is False else pa
                        parts.append(self._not(other) if other is not False else True)
                        continue
                    same_p = True if (pa is True and pb is True) else (
                        (z3.BoolVal(pa) if isinstance(pa, bool) else pa) == (z3.BoolVal(pb) if isinstance(pb, bool) else pb))
                    parts.append(same_p)
                    ve = self.eq(ha.vals[k], hb.vals[k], st)
                    both = self._and([pa, pb])
                    parts.append(self._or([self._not(both), ve]))
                return self._and(parts)
            raise Unsupported("== on heap objects")
        if isinstance(a, Ref) or isinstance(b, Ref):
            ra, other = (a, b) if isinstance(a, Ref) else (b, a)
            h = st.heap[ra.oid]
            if isinstance(h, HList) and isinstance(other, Const) and isinstance(other.obj, list):
                if len(h.items) != len(other.obj):
                    return False
                return self._and([self.eq(x, self.lift(y), st) for x, y in zip(h.items, other.obj)])
            if isinstance(other, (str, int, float, bool, type(None))):
                return False
            raise Unsupported("== between heap object and %r" % (other,))
        if isinstance(a, Const) and isinstance(b, Const):
            return a.obj == b.obj
        if isinstance(a, (Fn, Native, Partial, UFn)) or isinstance(b, (Fn, Native, Partial, UFn)):
            if isinstance(a, Native) and isinstance(b, Native):
                return a.obj == b.obj
            return a is b
        return a == b

    def _eq_opq(self, o, other):
        if isinstance(other, Opq):
            if o.cls is not None and other.cls is not None and o.cls != other.cls:
                if {o.cls, other.cls} <= {"float", "complex"}:
                    raise Unsupported("float == complex")
                return False
            return o.t == other.t
        if o.cls is not None:
            if o.cls in ("float", "complex") and pytype_name(other) in ("int", "bool"):
                # 5.0 == 5 is True in Python: the relation between an abstract float and an int is left uninterpreted
                self.assumed.add("equality between an abstract float and an int is an uninterpreted predicate")
                return z3.Function("float_eq_int", Obj, I, B)(o.t, self._num(other))
            if o.cls in ("float", "complex") and pytype_name(other) == "float":
                raise Unsupported("abstract float compared with a concrete float")
            return False
        tn = pytype_name(other)
        if tn == "str":
            return z3.And(obj_tag(o.t) == TAG_STR, obj_str(o.t) == to_term(other))
        if tn in ("int", "bool"):
            return z3.And(
                z3.Or(obj_tag(o.t) == TAG_INT, obj_tag(o.t) == TAG_BOOL),
                z3.If(obj_tag(o.t) == TAG_INT, obj_int(o.t), z3.If(obj_bool(o.t), 1, 0)) == self._num(other),
            )
        if other is None:
            return obj_tag(o.t) == TAG_NONE
        return False

    def _num(self, v):
        if isinstance(v, Sym):
            if v.ty == "bool":
                return z3.If(v.t, z3.IntVal(1), z3.IntVal(0))
            if v.ty == "int":
                return v.t
            raise Unsupported("numeric use of str")
        if isinstance(v, bool):
            return z3.IntVal(1 if v else 0)
        if isinstance(v, int):
            return z3.IntVal(v)
        raise Unsupported("numeric use of %r" % (v,))

    @staticmethod
    def _and(parts):
        if any(p is False for p in parts):
            return False
        ps = [p for p in parts if p is not True]
        if not ps:
            return True
        return ps[0] if len(ps) == 1 else z3.And(*ps)

    @staticmethod
    def _or(parts):
        if any(p is True for p in parts):
            return True
        ps = [p for p in parts if p is not False]
        if not ps:
            return False
        return ps[0] if len(ps) == 1 else z3.Or(*ps)

    @staticmethod
    def _not(p):
        if isinstance(p, bool):
            return not p
        return z3.Not(p)

    @staticmethod
    def mkbool(p):
        """python bool / z3 Bool -> value"""
        if isinstance(p, bool):
            return p
        p = z3.simplify(p)
        if z3.is_true(p):
            return True
        if z3.is_false(p):
            return False
        return Sym(p, "bool")

    def is_none(self, v):
        if v is None:
            return True
        if isinstance(v, Opq) and v.cls is None:
            return obj_tag(v.t) == TAG_NONE
        return False

    # ------------------------------------------------------------------ lifting python objects
    def lift(self, obj):
        if obj is None or isinstance(obj, (bool, int, float, complex, str)):
            return obj
        if type(obj) is tuple:
            return tuple(self.lift(x) for x in obj)
        if isinstance(obj, (dict, frozenset, set, list)):
            return Const(obj)
        return Native(obj)

    # ------------------------------------------------------------------ name lookup
    def lookup(self, name, st):
        fr = self.frames[-1]
        for sid in [fr.sid] + list(fr.fn.scopes if fr.fn else []):
            sc = st.scopes.get(sid)
            if sc is not None and name in sc:
                v = sc[name]
                if v is UNDEF:
                    raise Unsupported("read of havocked/undefined local %r" % name)
                return v
        glob = fr.fn.glob if fr.fn else {}
        if name in glob:
            return self.lift(glob[name])
        if hasattr(builtins, name):
            return self.lift(getattr(builtins, name))
        raise Unsupported("unbound name %r" % name)

    def store(self, name, val, st):
        st.scopes[self.frames[-1].sid][name] = val

    # ------------------------------------------------------------------ expressions
    def bind(self, outs, f):
        res = []
        for v, st in outs:
            if isinstance(v, Raise):
                res.append((v, st))
            elif self.mode == "exec" and self.abort_paths:
                # a construct outside the subset ends THIS branch only: it travels up like an exception no handler catches ("<abort>") and becomes the abort of
                # its path at statement level; sibling branches of the same statement go on
                try:
                    res.extend(f(v, st))
                except Unsupported as e:
                    res.append((Raise(Exc("<abort>", str(e))), st))
            else:
                res.extend(f(v, st))
        return res

    def ev_list(self, nodes, st):
        """evaluate a list of expressions left to right -> list of ([vals], st)"""
        outs = [([], st)]
        for n in nodes:
            nxt = []
            for vals, s in outs:
                if isinstance(vals, Raise):
                    nxt.append((vals, s))
                    continue
                if isinstance(n, ast.Starred):
                    for v, s2 in self.ev(n.value, s):
                        if isinstance(v, Raise):
                            nxt.append((v, s2))
                        else:
                            nxt.append((vals + list(self.iter_concrete(v, s2)), s2))
                else:
                    for v, s2 in self.ev(n, s):
                        if isinstance(v, Raise):
                            nxt.append((v, s2))
                        else:
                            nxt.append((vals + [v], s2))
            outs = nxt
        return outs

    def ev(self, node, st):
        m = getattr(self, "ev_" + type(node).__name__, None)
        if m is None:
            raise Unsupported("expression %s" % type(node).__name__)
        return m(node, st)

    def ev_Constant(self, node, st):
        return [(node.value, st)]

    def opq_key(self, name):
        """the contract's `opaque` entry for a callee name as written in the current function: '<module of that function>:<name>' wins over the bare name (two modules
        may use one name for different callees: parse.py's `docstring` is parse.docstring, emit.py's is emit.docstring)"""
        if not self.opaque or name is None:
            return None
        if self.frames and self.frames[-1].fn is not None:
            q = "%s:%s" % ((self.frames[-1].fn.glob or {}).get("__name__"), name)
            if q in self.opaque:
                return q
        return name if name in self.opaque else None

    def ev_Name(self, node, st):
        if self.opaque and len(self.frames) >= 1 and self.opq_key(node.id) is not None:
            fr = self.frames[-1]
            local = any(node.id in (st.scopes.get(sid) or {}) for sid in [fr.sid] + list(fr.fn.scopes if fr.fn else []))
            if not local:
                return [(OpaqueFn(node.id, self.opq_key(node.id)), st)]  # the opaque callee used as a value (map(f, ...), partial(f, ...))
        return [(self.lookup(node.id, st), st)]

    def ev_Tuple(self, node, st):
        return [(tuple(vs) if not isinstance(vs, Raise) else vs, s) for vs, s in self.ev_list(node.elts, st)]

    def ev_List(self, node, st):
        res = []
        for vs, s in self.ev_list(node.elts, st):
            res.append((vs, s) if isinstance(vs, Raise) else (s.alloc(HList(vs)), s))
        return res

    def ev_Dict(self, node, st):
        res = []
        keys = [k for k in node.keys]
        if any(k is None for k in keys):
            raise Unsupported("dict ** unpacking in literal")
        for kvs, s in self.ev_list(keys, st):
            if isinstance(kvs, Raise):
                res.append((kvs, s))
                continue
            for vvs, s2 in self.ev_list(node.values, s):
                if isinstance(vvs, Raise):
                    res.append((vvs, s2))
                    continue
                d = HDict()
                for k, v in zip(kvs, vvs):
                    if isinstance(k, (Sym, Opq, Ref)):
                        raise Unsupported("symbolic dict key in literal")
                    d.set(k, v)
                res.append((s2.alloc(d), s2))
        return res

    def ev_JoinedStr(self, node, st):
        raise Unsupported("f-string")

    def ev_Lambda(self, node, st):
        fr = self.frames[-1]
        scopes = [fr.sid] + list(fr.fn.scopes if fr.fn else [])
        return [(Fn(node, scopes, fr.fn.glob if fr.fn else {}, "<lambda>"), st)]

    def ev_IfExp(self, node, st):
        def after(c, s):
            t = self.truth(c, s)
            if not isinstance(t, bool) and self.mode != "exec":
                # spec / merged mode: build an ite when both arms are same-typed scalars
                (a, s1), = self.ev(node.body, s)
                (b, s2), = self.ev(node.orelse, s)
                return [(self.ite(t, a, b), s)]
            res = []
            for flag, s2 in self.fork(t, s):
                res.extend(self.ev(node.body if flag else node.orelse, s2))
            return res

        return self.bind(self.ev(node.test, st), after)

    def ite(self, c, a, b):
        ta, tb = pytype_name(a), pytype_name(b)
        if isinstance(a, tuple) and isinstance(b, tuple) and len(a) == len(b):
            return tuple(self.ite(c, x, y) for x, y in zip(a, b))
        if ta == tb and ta in ("int", "bool", "str"):
            return Sym(z3.If(c, to_term(a), to_term(b)), ta)
        if a is None and b is None:
            return None
        raise NeedFork()

    def ev_BoolOp(self, node, st):
        is_and = isinstance(node.op, ast.And)

        def go(idx, st):
            outs = self.ev(node.values[idx], st)
            if idx == len(node.values) - 1:
                return outs
            res = []
            for v, s in outs:
                if isinstance(v, Raise):
                    res.append((v, s))
                    continue
                t = self.truth(v, s)
                if isinstance(t, bool):
                    if t == is_and:  # continue evaluating
                        res.extend(go(idx + 1, s))
                    else:
                        res.append((v, s))
                    continue
                # symbolic truthiness: try merged evaluation of the rest when v is boolean-valued
                merged = None
                if pytype_name(v) == "bool":
                    merged = self._try_merge_rest(node, idx, is_and, t, s)
                if merged is not None:
                    res.append((merged, s))
                    continue
                for flag, s2 in self.fork(t, s):
                    if flag == is_and:
                        res.extend(go(idx + 1, s2))
                    else:
                        res.append((v, s2))
            return res

        return go(0, st)

    def _try_merge_rest(self, node, idx, is_and, t, st):
        """Evaluate the remaining operands without forking, under the guard; all must be bool."""
        saved_mode = self.mode
        n_obl = len(self.obligations)
        pc_len = len(st.pc)
        terms = [t]
        try:
            if self.mode == "exec":
                self.mode = "merge"
            guard = t
            for k in range(idx + 1, len(node.values)):
                st.pc.append(guard if is_and else z3.Not(guard))
                outs = self.ev(node.values[k], st)
                if len(outs) != 1:
                    raise NeedFork()
                v, s2 = outs[0]
                if isinstance(v, Raise) or s2 is not st:
                    raise NeedFork()
                if pytype_name(v) != "bool":
                    raise NeedFork()
                tv = v if isinstance(v, bool) else v.t
                if isinstance(tv, bool):
                    if tv != is_and:
                        # decisive operand (True in an `or`, False in an `and`): Python stops evaluating here
                        terms.append(z3.BoolVal(tv))
                        break
                    continue  # neutral operand
                terms.append(tv)
                guard = tv
        except (NeedFork, Unsupported):
            del self.obligations[n_obl:]
            del st.pc[pc_len:]
            self.mode = saved_mode
            return None
        del st.pc[pc_len:]
        self.mode = saved_mode
        # safety obligations recorded while merged carry their guards in hyps already
        return self.mkbool(z3.And(*terms) if is_and else z3.Or(*terms))

    def ev_UnaryOp(self, node, st):
        def after(v, s):
            if isinstance(node.op, ast.Not):
                return [(self.mkbool(self._not(self.truth(v, s))), s)]
            if isinstance(node.op, ast.USub):
                if isinstance(v, Sym) and v.ty in ("int", "bool"):
                    return [(Sym(-self._num(v), "int"), s)]
                if isinstance(v, (int, float)):
                    return [(-v, s)]
            raise Unsupported("unary op")

        return self.bind(self.ev(node.operand, st), after)

    def ev_BinOp(self, node, st):
        def after(vs, s):
            a, b = vs
            return self.binop(node.op, a, b, s)

        return self.bind(self.ev_list([node.left, node.right], st), after)

    def binop(self, op, a, b, st):
        ta, tb = pytype_name(a), pytype_name(b)
        conc = not isinstance(a, (Sym, Opq, Ref, Const)) and not isinstance(b, (Sym, Opq, Ref, Const))
        if conc and not isinstance(a, tuple) and not isinstance(b, tuple):
            try:
                f = {
                    ast.Add: operator.add, ast.Sub: operator.sub, ast.Mult: operator.mul,
                    ast.Mod: operator.mod, ast.FloorDiv: operator.floordiv, ast.BitAnd: operator.and_,
                    ast.BitOr: operator.or_,
                }[type(op)]
                return [(f(a, b), st)]
            except KeyError:
                raise Unsupported("binop %s" % type(op).__name__)
            except TypeError as e:
                return [(Raise(Exc("TypeError", str(e))), st)]
        if isinstance(op, ast.Add):
            if ta == "str" and tb == "str":
                return [(Sym(z3.Concat(to_term(a), to_term(b)), "str"), st)]
            if ta in ("int", "bool") and tb in ("int", "bool"):
                return [(Sym(self._num(a) + self._num(b), "int"), st)]
            if isinstance(a, tuple) and isinstance(b, tuple):
                return [(a + b, st)]
            if isinstance(a, Ref) and isinstance(b, Ref):
                ha, hb = st.heap[a.oid], st.heap[b.oid]
                if isinstance(ha, HList) and isinstance(hb, HList):
                    return [(st.alloc(HList(ha.items + hb.items)), st)]
            if {ta, tb} <= {"str", "int", "bool", "NoneType"} and ta != tb and "str" in (ta, tb):
                return [(Raise(Exc("TypeError", "str + non-str")), st)]
        if isinstance(op, (ast.BitAnd, ast.BitOr, ast.Sub)) and isinstance(a, Ref) and isinstance(b, Ref):
            ha, hb = st.heap[a.oid], st.heap[b.oid]
            if isinstance(ha, HList) and isinstance(hb, HList) and getattr(ha, "is_keys", False) and getattr(hb, "is_keys", False):
                if isinstance(op, ast.BitAnd):
                    items = [x for x in ha.items if x in hb.items]
                elif isinstance(op, ast.Sub):
                    items = [x for x in ha.items if x not in hb.items]
                else:
                    items = list(ha.items) + [x for x in hb.items if x not in ha.items]
                r = HList(items)
                r.unordered = True
                return [(st.alloc(r), st)]
        if isinstance(op, ast.Sub) and ta in ("int", "bool") and tb in ("int", "bool"):
            return [(Sym(self._num(a) - self._num(b), "int"), st)]
        if isinstance(op, ast.Mult) and ta in ("int", "bool") and tb in ("int", "bool"):
            return [(Sym(self._num(a) * self._num(b), "int"), st)]
        if isinstance(op, ast.Mult) and ta == "str" and isinstance(b, int):
            return [(Sym(z3.Concat(*[to_term(a)] * b), "str") if b > 1 else (a if b == 1 else ""), st)]
        if isinstance(op, ast.BitAnd) and ta in ("int", "bool") and isinstance(b, int) and b == 1:
            return [(Sym(self._num(a) % 2, "int"), st)]
        raise Unsupported("binop %s on %s,%s" % (type(op).__name__, ta, tb))

    def ev_Compare(self, node, st):
        def after(vs, s):
            res = []
            left = vs[0]
            for op, right in zip(node.ops, vs[1:]):
                res.append(self.compare(op, left, right, s))
                left = right
            return [(self.mkbool(self._and(res)), s)]

        return self.bind(self.ev_list([node.left] + node.comparators, st), after)

    def compare(self, op, a, b, st):
        if isinstance(op, ast.Eq):
            return self.eq(a, b, st)
        if isinstance(op, ast.NotEq):
            return self._not(self.eq(a, b, st))
        if isinstance(op, (ast.Is, ast.IsNot)):
            r = self.is_(a, b, st)
            return r if isinstance(op, ast.Is) else self._not(r)
        if isinstance(op, (ast.In, ast.NotIn)):
            r = self.contains(b, a, st)
            return r if isinstance(op, ast.In) else self._not(r)
        ta, tb = pytype_name(a), pytype_name(b)
        if ta in ("int", "bool") and tb in ("int", "bool"):
            if not isinstance(a, Sym) and not isinstance(b, Sym):
                return {ast.Lt: operator.lt, ast.LtE: operator.le, ast.Gt: operator.gt, ast.GtE: operator.ge}[type(op)](a, b)
            x, y = self._num(a), self._num(b)
            return {ast.Lt: x < y, ast.LtE: x <= y, ast.Gt: x > y, ast.GtE: x >= y}[type(op)]
        if ta == "str" and tb in ("int", "bool") or tb == "str" and ta in ("int", "bool"):
            raise Unsupported("TypeError: ordering between str and int")  # handled by type obligations
        if not isinstance(a, (Sym, Opq, Ref)) and not isinstance(b, (Sym, Opq, Ref)):
            return {ast.Lt: operator.lt, ast.LtE: operator.le, ast.Gt: operator.gt, ast.GtE: operator.ge}[type(op)](a, b)
        raise Unsupported("ordering on %s,%s" % (ta, tb))

    def is_(self, a, b, st):
        if b is None or a is None:
            x = a if b is None else b
            if x is None:
                return True
            if isinstance(x, Opq) and x.cls is None:
                return obj_tag(x.t) == TAG_NONE
            return False
        if isinstance(a, bool) and isinstance(b, bool):
            return a is b
        if isinstance(b, bool) or isinstance(a, bool):
            x, c = (a, b) if isinstance(b, bool) else (b, a)
            if isinstance(x, Sym) and x.ty == "bool":
                return x.t if c else z3.Not(x.t)
            if isinstance(x, Opq) and x.cls is None:
                return z3.And(obj_tag(x.t) == TAG_BOOL, obj_bool(x.t) == c)
            return False
        if isinstance(a, Ref) and isinstance(b, Ref):
            orig = st.ghost.get("__orig") or {}
            return orig.get(a.oid, a.oid) == orig.get(b.oid, b.oid)
        if isinstance(a, Opq) and isinstance(b, Opq):
            return a.t == b.t
        if isinstance(a, Native) and isinstance(b, Native):
            return a.obj is b.obj
        if isinstance(a, (Ref, Opq, Native, Fn)) or isinstance(b, (Ref, Opq, Native, Fn)):
            return a is b
        raise Unsupported("`is` on scalars")

    def contains(self, container, x, st):
        """x in container"""
        if isinstance(container, Const):
            c = container.obj
            items = list(c.keys()) if isinstance(c, dict) else list(c)
            return self._or([self.eq(x, self.lift(m), st) for m in items])
        if isinstance(container, tuple):
            return self._or([self.eq(x, m, st) for m in container])
        if isinstance(container, Ref):
            h = st.heap[container.oid]
            if isinstance(h, HList):
                return self._or([self.eq(x, m, st) for m in h.items])
            if isinstance(h, HDict):
                return self._or(
                    [self._and([self.eq(x, k, st), h.pres[k]]) for k in h.keys]
                )
            raise Unsupported("in on object")
        tc, tx = pytype_name(container), pytype_name(x)
        if tc == "str":
            if tx != "str":
                raise Unsupported("TypeError: non-str in str")
            if isinstance(container, str) and isinstance(x, str):
                return x in container
            return z3.Contains(to_term(container), to_term(x))
        raise Unsupported("in on %r" % (container,))

    def ev_Subscript(self, node, st):
        def after_val(c, s):
            if isinstance(node.slice, ast.Slice):
                parts = [node.slice.lower, node.slice.upper, node.slice.step]
                nodes = [p if p is not None else ast.Constant(None) for p in parts]

                def after_bounds(b, s2):
                    return self.getslice(c, b[0], b[1], b[2], s2)

                return self.bind(self.ev_list(nodes, s), after_bounds)
            return self.bind(self.ev(node.slice, s), lambda i, s2: self.getitem(c, i, s2))

        return self.bind(self.ev(node.value, st), after_val)

    def getslice(self, c, lo, hi, step, st):
        tc = pytype_name(c)
        if step is not None:
            if isinstance(c, (tuple, str)) and not any(isinstance(x, Sym) for x in (lo, hi, step)):
                return [(c[lo:hi:step], st)]
            if isinstance(c, Ref) and isinstance(st.heap[c.oid], HList) and not any(isinstance(x, Sym) for x in (lo, hi, step)):
                return [(st.alloc(HList(st.heap[c.oid].items[lo:hi:step])), st)]
            raise Unsupported("slice step")
        symb = isinstance(lo, Sym) or isinstance(hi, Sym)
        if isinstance(c, tuple) and not symb:
            return [(c[lo:hi], st)]
        if isinstance(c, Ref) and isinstance(st.heap[c.oid], HList) and not symb:
            return [(st.alloc(HList(st.heap[c.oid].items[lo:hi])), st)]
        if tc == "str":
            if isinstance(c, str) and not symb:
                return [(c[lo:hi], st)]
            for b in (lo, hi):
                if b is not None and pytype_name(b) not in ("int", "bool"):
                    return [(Raise(Exc("TypeError", "slice indices must be integers")), st)]
            if isinstance(c, Sym):
                # a text with a literal skeleton ("  x (" ++ T ++ "): " ++ D) sliced at bounds that are positions of that skeleton: the slice is the
                # corresponding sub-skeleton (exact; see structstr.py)
                ps = structstr.parts(to_term(c))
                if len(ps) > 1:
                    lp = None if lo is None else structstr.locate(ps, lo.t if isinstance(lo, Sym) else lo)
                    hp = None if hi is None else structstr.locate(ps, hi.t if isinstance(hi, Sym) else hi)
                    if (lo is None or lp is not None) and (hi is None or hp is not None):
                        r = structstr.build(structstr.slice_parts(ps, lp, hp))
                        return [(r if isinstance(r, str) else Sym(r, "str"), st)]
            pre = smt.literal_prefix(to_term(c)) if isinstance(c, Sym) else None
            if pre is not None and isinstance(hi, int) and not isinstance(hi, bool) and (lo is None or (isinstance(lo, int) and not isinstance(lo, bool))) \
                    and 0 <= (lo or 0) and 0 <= hi <= len(pre):
                return [(pre[(lo or 0):hi], st)]  # the slice lies inside the literal prefix of the symbolic string
            lo_t = None if lo is None else self._num(lo)
            hi_t = None if hi is None else self._num(hi)
            return [(Sym(smt.slice_term(to_term(c), lo_t, hi_t), "str"), st)]
        raise Unsupported("slice of %r" % (c,))

    def getitem(self, c, i, st):
        tc = pytype_name(c)
        if isinstance(c, tuple) or (isinstance(c, Ref) and isinstance(st.heap[c.oid], HList)):
            items = c if isinstance(c, tuple) else st.heap[c.oid].items
            if isinstance(i, Sym):
                raise Unsupported("symbolic index into a tuple/list")
            if not isinstance(i, int):
                return [(Raise(Exc("TypeError", "indices must be integers")), st)]
            if -len(items) <= i < len(items):
                return [(items[i], st)]
            return [(Raise(Exc("IndexError", "index out of range")), st)]
        if tc == "str":
            if pytype_name(i) not in ("int", "bool"):
                return [(Raise(Exc("TypeError", "string indices must be integers")), st)]
            if isinstance(c, str) and not isinstance(i, Sym):
                try:
                    return [(c[i], st)]
                except IndexError:
                    return [(Raise(Exc("IndexError", "string index out of range")), st)]
            s_t = to_term(c)
            n = z3.Length(s_t)
            idx = smt.index_norm(self._num(i), n)
            inrange = z3.And(idx >= 0, idx < n)
            if self.mode == "spec":
                return [(Sym(smt.char_at(s_t, idx), "str"), st)]
            if self.mode == "merge":
                self.oblige("safety", st, inrange, "IndexError: string index (merged guard)")
                return [(Sym(smt.char_at(s_t, idx), "str"), st)]
            res = []
            for flag, s2 in self.fork(inrange, st):
                if flag:
                    res.append((Sym(smt.char_at(to_term(c), idx), "str"), s2))
                else:
                    res.append((Raise(Exc("IndexError", "string index out of range")), s2))
            return res
        if isinstance(c, Const):
            obj = c.obj
            if isinstance(obj, dict):
                if isinstance(i, Sym):
                    res = []
                    for k in obj:
                        if pytype_name(k) != i.ty and not (i.ty in ("int", "bool") and pytype_name(k) in ("int", "bool")):
                            continue
                        for flag, s2 in self.fork(self.eq(i, k, st), st.copy()):
                            if flag:
                                res.append((self.lift(obj[k]), s2))
                    nokey = self._not(self._or([self.eq(i, k, st) for k in obj]))
                    for flag, s2 in self.fork(nokey, st):
                        if flag:
                            res.append((Raise(Exc("KeyError", "key")), s2))
                    return res
                if isinstance(i, (Opq, Ref)):
                    raise Unsupported("opaque dict key")
                try:
                    if i in obj:
                        return [(self.lift(obj[i]), st)]
                except TypeError:
                    pass
                return [(Raise(Exc("KeyError", repr(i))), st)]
            if isinstance(obj, (list, tuple)) and isinstance(i, int):
                try:
                    return [(self.lift(obj[i]), st)]
                except IndexError:
                    return [(Raise(Exc("IndexError", "index")), st)]
            raise Unsupported("subscript of constant container")
        if isinstance(c, Ref) and isinstance(st.heap[c.oid], HDict):
            h = st.heap[c.oid]
            if isinstance(i, Sym) and h.keys and all(h.pres[k] is True for k in h.keys) and len({pytype_name(h.vals[k]) for k in h.keys}) == 1 and pytype_name(h.vals[h.keys[0]]) in ("int", "str", "bool"):
                res = []
                anykey = self._or([self.eq(i, k, st) for k in h.keys])
                for flag, s2 in self.fork(anykey, st):
                    if not flag:
                        res.append((Raise(Exc("KeyError", "symbolic key")), s2))
                        continue
                    hh = s2.heap[c.oid]
                    val = hh.vals[hh.keys[-1]]
                    for k in reversed(hh.keys[:-1]):
                        e = self.eq(i, k, s2)
                        if e is True:
                            val = hh.vals[k]
                        elif e is not False:
                            val = self.ite(e, hh.vals[k], val)
                    res.append((val, s2))
                return res
            if isinstance(i, Sym):
                res = []
                for k in h.keys:
                    e = self._and([self.eq(i, k, st), h.pres[k]])
                    for flag, s2 in self.fork(e, st.copy()):
                        if flag:
                            res.append((s2.heap[c.oid].vals[k], s2))
                nokey = self._not(self._or([self._and([self.eq(i, k, st), h.pres[k]]) for k in h.keys]))
                for flag, s2 in self.fork(nokey, st):
                    if flag:
                        res.append((Raise(Exc("KeyError", "symbolic key")), s2))
                return res
            if isinstance(i, (Opq, Ref)):
                raise Unsupported("opaque dict key")
            if i in h.vals:
                p = h.pres[i]
                if p is True:
                    return [(h.vals[i], st)]
                if self.mode != "exec":
                    if smt.quick_check(st.pc, z3.Not(p)) == "unsat":
                        return [(h.vals[i], st)]
                    raise NeedFork()
                res = []
                for flag, s2 in self.fork(p, st):
                    if flag:
                        s2.heap[c.oid].pres[i] = True
                        res.append((s2.heap[c.oid].vals[i], s2))
                    else:
                        s2.heap[c.oid].delete(i)
                        res.append((Raise(Exc("KeyError", repr(i))), s2))
                return res
            return [(Raise(Exc("KeyError", repr(i))), st)]
        if c is None:
            return [(Raise(Exc("TypeError", "'NoneType' object is not subscriptable")), st)]
        if isinstance(c, Opq) and c.cls not in ("float", "complex") and isinstance(i, int) and not isinstance(i, bool):
            # element of an opaque sequence (e.g. `ast.parse(..).body[0]`): a pure function of the object and the index
            self.assumed.add("subscripts of opaque objects are pure functions of the object and the (concrete) index")
            return [(Opq(z3.Function("item_%s" % str(i).replace("-", "m"), Obj, Obj)(c.t), None), st)]
        raise Unsupported("subscript of %r" % (c,))

    # ------------------------------------------------------------------ attribute access
    STR_METHODS = {
        "startswith", "endswith", "strip", "lstrip", "rstrip", "isdecimal", "isdigit", "isspace",
        "find", "partition", "replace", "format", "casefold", "join", "lower", "upper", "split",
        "count", "splitlines", "rpartition", "isupper",
    }

    def ev_Attribute(self, node, st):
        def after(v, s):
            return self.getattr(v, node.attr, s)

        return self.bind(self.ev(node.value, st), after)

    def getattr(self, v, name, st):
        if isinstance(v, Fn):
            fa = st.ghost.get("__fn_attrs") or {}
            if (id(v), name) in fa:
                return [(fa[(id(v), name)], st)]
            return [(Raise(Exc("AttributeError", "'function' object has no attribute %r" % name)), st)]
        tv = pytype_name(v)
        if tv == "str":
            if name in self.STR_METHODS:
                return [(BoundMethod(v, name), st)]
            return [(Raise(Exc("AttributeError", "'str' object has no attribute %r" % name)), st)]
        if tv in ("int", "bool", "NoneType", "float", "tuple") and not isinstance(v, Opq):
            if hasattr(type(v) if not isinstance(v, Sym) else {"int": int, "bool": bool}[v.ty], name):
                raise Unsupported("method %s on %s" % (name, tv))
            return [(Raise(Exc("AttributeError", "%r object has no attribute %r" % (tv, name))), st)]
        if isinstance(v, Ref):
            h = st.heap[v.oid]
            if isinstance(h, HObj):
                if name in h.attrs:
                    return [(h.attrs[name], st)]
                real_cls = self._real_class(h.cls)
                if real_cls is not None and hasattr(real_cls, name):
                    member = getattr(real_cls, name)
                    if callable(member):
                        return [(Partial(Native(member), (v,), {}), st)]  # a method of the instance's class (repo source is inlined, library methods are modelled)
                    return [(self.lift(member), st)]
                return [(Raise(Exc("AttributeError", name)), st)]
            return [(BoundMethod(v, name), st)]
        if isinstance(v, Const):
            return [(BoundMethod(v, name), st)]
        if isinstance(v, Native):
            try:
                return [(self.lift(getattr(v.obj, name)), st)]
            except AttributeError:
                return [(Raise(Exc("AttributeError", name)), st)]
        if isinstance(v, Fn):
            raise Unsupported("attribute on closure")
        if isinstance(v, Opq):
            if v.cls in ("float", "complex"):
                raise Unsupported("attribute of abstract float")
            ov = st.ghost.get("__opq_attrs") or {}
            if any(k[0] == name for k in ov):
                key = (name, v.t.sexpr())
                if key in ov:
                    return [(ov[key], st)]
                raise Unsupported("read of attribute %r of an opaque object after a write to that attribute of a possibly aliased one" % name)
            f = z3.Function("attr_" + name, Obj, Obj)
            self.assumed.add("attribute reads on opaque objects are pure functions of the object")
            return [(Opq(f(v.t), None), st)]
        raise Unsupported("attribute %s of %r" % (name, v))

    # ------------------------------------------------------------------ calls
    def _first_index_pattern(self, node):
        """next(idx for idx, ch in enumerate(X) if ch == "c")  ->  (X node, "c"), else None"""
        if not (isinstance(node.func, ast.Name) and node.func.id == "next" and len(node.args) in (1, 2) and not node.keywords and isinstance(node.args[0], ast.GeneratorExp)):
            return None
        ge = node.args[0]
        if len(ge.generators) != 1:
            return None
        g = ge.generators[0]
        it = g.iter
        if not (isinstance(it, ast.Call) and isinstance(it.func, ast.Name) and it.func.id == "enumerate" and len(it.args) == 1 and not it.keywords):
            return None
        if not (isinstance(g.target, ast.Tuple) and len(g.target.elts) == 2 and all(isinstance(e, ast.Name) for e in g.target.elts) and len(g.ifs) == 1 and not g.is_async):
            return None
        idx, ch = g.target.elts[0].id, g.target.elts[1].id
        c = g.ifs[0]
        if not (isinstance(ge.elt, ast.Name) and ge.elt.id == idx and isinstance(c, ast.Compare) and len(c.ops) == 1 and isinstance(c.ops[0], ast.Eq)
                and isinstance(c.left, ast.Name) and c.left.id == ch and isinstance(c.comparators[0], ast.Constant) and isinstance(c.comparators[0].value, str)
                and len(c.comparators[0].value) == 1):
            return None
        return it.args[0], c.comparators[0].value

    def ev_first_index(self, node, xnode, ch, st):
        """the index of the first occurrence of a character, written as a generator over enumerate(text): decided on the literal skeleton of the text"""
        def after(x, s):
            if isinstance(x, str):
                j = x.find(ch)
                if j >= 0:
                    return [(j, s)]
                return self.ev(node.args[1], s) if len(node.args) == 2 else [(Raise(Exc("StopIteration", "")), s)]
            if not (isinstance(x, Sym) and x.ty == "str"):
                raise Unsupported("first-index generator over %r" % (x,))
            ps = structstr.parts(x.t)

            def absent(sy):
                if smt.quick_check(s.pc, z3.Contains(sy, z3.StringVal(ch))) == "unsat":
                    return True
                # DOMAIN RESTRICTION (stated in the evidence and in the contract's note): the symbolic holes that come before the skeleton's own occurrence of the
                # character are taken not to contain it - e.g. a Google type text without a colon; texts that do are not explored by this case (bounded rt)
                s.pc.append(z3.Not(z3.Contains(sy, z3.StringVal(ch))))
                self.assumed.add("first-index generator (`next(idx for idx, ch in enumerate(text) if ch == %r)`): explored for texts whose symbolic holes before the "
                                 "skeleton's own %r do not contain it; other texts are outside this case" % (ch, ch))
                return True

            r = structstr.first_index(ps, ch, absent)
            if r is None:
                raise Unsupported("first-index generator over a text whose symbolic parts may contain the character")
            if r[0] == "none":
                return self.ev(node.args[1], s) if len(node.args) == 2 else [(Raise(Exc("StopIteration", "")), s)]
            off = structstr.offset_term(ps, r[1], r[2])
            return [(off if isinstance(off, int) else Sym(off, "int"), s)]

        return self.bind(self.ev(xnode, st), after)

    def ev_Call(self, node, st):
        fi = self._first_index_pattern(node)
        if fi is not None and self.mode != "concrete":
            return self.ev_first_index(node, fi[0], fi[1], st)
        if self.opaque:
            try:
                ftxt = ast.unparse(node.func)
            except Exception:
                ftxt = None
            key = self.opq_key(ftxt)
            if key is not None:
                return self.opaque_call(ftxt, node, st, key)

        def after_f(fv, s):
            def after_args(args, s2):
                kwnodes = [k.value for k in node.keywords]

                def after_kw(kwvals, s3):
                    kwargs = {}
                    for k, v in zip(node.keywords, kwvals):
                        if k.arg is None:
                            kwargs.update(self.dict_items_concrete(v, s3))
                        else:
                            kwargs[k.arg] = v
                    return self.call(fv, list(args), kwargs, s3)

                return self.bind(self.ev_list(kwnodes, s2), after_kw)

            return self.bind(self.ev_list(node.args, s), after_args)

        return self.bind(self.ev(node.func, st), after_f)

    def opaque_call(self, name, node, st, key=None):
        """a call the contract declares opaque: arguments are evaluated, the call is logged, the result is a fresh value"""
        spec = self.opaque[key or name]

        def after_args(args, s2):
            def after_kw(kwvals, s3):
                kwargs = {}
                for k, v in zip(node.keywords, kwvals):
                    if k.arg is None:
                        kwargs.update(self.dict_items_concrete(v, s3))
                    else:
                        kwargs[k.arg] = v
                return self.opaque_apply(name, list(args), kwargs, s3, key)

            return self.bind(self.ev_list([k.value for k in node.keywords], s2), after_kw)

        return self.bind(self.ev_list(node.args, st), after_args)

    @staticmethod
    def _real_class(cls_name):
        """the real class behind a modelled instance ('ast.Name', 'doctrans.emitter_utils.RewriteName'), if it can be imported"""
        if not cls_name or not isinstance(cls_name, str) or "." not in cls_name:
            return None
        modname, _, cname = cls_name.rpartition(".")
        try:
            import importlib

            return getattr(importlib.import_module(modname), cname, None)
        except Exception:  # noqa
            return None

    def opaque_apply(self, name, args, kwargs, s3, key=None):
        spec = self.opaque[key or name]
        self.opq_ctr = getattr(self, "opq_ctr", 0) + 1
        tag = "%s#%d" % (name.replace(".", "_"), self.opq_ctr)
        ret = spec.get("ret", "obj")
        if spec.get("unparse_names") and len(args) == 1 and isinstance(args[0], Ref) and isinstance(s3.heap[args[0].oid], HObj) \
                and s3.heap[args[0].oid].cls == "ast.Name" and "id" in s3.heap[args[0].oid].attrs:
            # the one thing assumed about the opaque renderer: ast.unparse of a Name node is its identifier (cross-checked against CPython by the runtime companion)
            r = s3.heap[args[0].oid].attrs["id"]
            self.assumed.add("opaque renderer %s: the text of a Name node is its identifier (everything else unconstrained)" % name)
        elif ret == "bool":
            r = Sym(fresh("r_" + tag, B), "bool")
        elif ret == "str":
            r = Sym(fresh("r_" + tag, S), "str")
        elif ret == "none":
            r = None
        elif ret == "kwargs-thunk":
            r = Native(dict)
        elif isinstance(ret, tuple) and ret[0] == "obj":
            r = Opq(fresh("r_" + tag, Obj), ret[1])
        elif isinstance(ret, tuple) and ret[0] in ("dict", "tuple", "list", "node"):
            # a structured result of known shape and arbitrary content (e.g. "the docstring parser returns SOME description of these parameters")
            from . import verify as _V

            r = _V.make_value(ret, "r_" + tag.replace("#", "_"), s3, {})
        else:
            r = Opq(fresh("r_" + tag, Obj), None)
        if spec.get("havoc_prose") and args and isinstance(args[0], Ref) and isinstance(s3.heap[args[0].oid], HDict):
            # the callee rewrites, in place, the prose ('doc') of every parameter / return entry of the description handed to it (to_docstring does:
            # update_d(_param, doc=...)): afterwards each such prose is an arbitrary text.  Nothing else of the description is touched - for
            # to_docstring that is its own obligation TD-frame (the default is rewritten only when the prose itself announces one).
            top = s3.heap[args[0].oid]
            for sect in ("params", "returns"):
                sv = top.vals.get(sect)
                if isinstance(sv, Ref) and isinstance(s3.heap[sv.oid], HDict):
                    for ek in s3.heap[sv.oid].keys:
                        ev = s3.heap[sv.oid].vals[ek]
                        if isinstance(ev, Ref) and isinstance(s3.heap[ev.oid], HDict) and "doc" in s3.heap[ev.oid].vals:
                            s3.heap[ev.oid].vals["doc"] = Sym(fresh("hv_%s_%s_doc" % (tag.replace("#", "_"), ek), S), "str")
            self.assumed.add("opaque call %s: rewrites the prose of the entries of its argument in place (arbitrary new prose) and leaves the rest of it untouched - for to_docstring the latter is TD-frame, true whenever the prose announces no default of its own: the law is stated for such prose" % name)
        s3.log.append({"callee": name, "args": list(args), "kwargs": kwargs, "result": r, "effect": bool(spec.get("effect"))})
        self.assumed.add("opaque call %s: result unconstrained%s; its arguments are taken to be left as they are%s" % (
            name, ", effect logged" if spec.get("effect") else "", " apart from the prose" if spec.get("havoc_prose") else ""))
        return [(r, s3)]

    def dict_items_concrete(self, v, st):
        if isinstance(v, Ref) and isinstance(st.heap[v.oid], HDict):
            h = st.heap[v.oid]
            if any(h.pres[k] is not True for k in h.keys):
                raise Unsupported("** of dict with possibly-absent keys")
            return {k: h.vals[k] for k in h.keys}
        if isinstance(v, Const) and isinstance(v.obj, dict):
            return {k: self.lift(x) for k, x in v.obj.items()}
        raise Unsupported("** of %r" % (v,))

    def iter_concrete(self, v, st):
        """items of a value whose length is concrete"""
        if isinstance(v, tuple):
            return list(v)
        if isinstance(v, str):
            return list(v)
        if isinstance(v, Ref):
            h = st.heap[v.oid]
            if isinstance(h, HList):
                if getattr(h, "unordered", False) and not self.allow_unordered:
                    raise Unsupported("ordered iteration over a set (no order-independence obligation covers it)")
                return list(h.items)
            if isinstance(h, HDict):
                if any(h.pres[k] is not True for k in h.keys):
                    raise Unsupported("iteration over dict with possibly-absent keys")
                return list(h.keys)
        if isinstance(v, Const):
            if isinstance(v.obj, (frozenset, set)):
                if self.allow_unordered:
                    return [self.lift(x) for x in sorted(v.obj, key=repr)]
                raise Unsupported("ordered iteration over a set")
            return [self.lift(x) for x in v.obj]
        raise Unsupported("iteration over %r" % (v,))

    def call(self, fv, args, kwargs, st):
        if isinstance(fv, BoundMethod):
            return self.call_method(fv.recv, fv.name, args, kwargs, st)
        if isinstance(fv, Partial):
            return self.call(fv.f, list(fv.args) + args, dict(fv.kwargs, **kwargs), st)
        if isinstance(fv, Fn):
            return self.call_fn(fv, args, kwargs, st)
        if isinstance(fv, OpaqueFn):
            return self.opaque_apply(fv.name, list(args), dict(kwargs), st, fv.key)
        if isinstance(fv, UFn):
            terms = [to_term(a) for a in args]
            r = fv.decl(*terms)
            return [(Sym(r, fv.ret), st)]
        if isinstance(fv, Native):
            return self.call_native(fv.obj, args, kwargs, st)
        if isinstance(fv, Const):
            raise Unsupported("call of constant container")
        if isinstance(fv, Opq):
            self.opq_ctr = getattr(self, "opq_ctr", 0) + 1
            mname = None
            try:
                dn = fv.t.decl().name()
                mname = dn[5:] if dn.startswith("attr_") else None
            except Exception:  # noqa
                mname = None
            mspec = (self.opaque or {}).get("." + mname) if mname else None
            if mspec is not None:
                # a method of an opaque object whose result type the contract declares (e.g. ".read": str): logged under its own name
                return self.opaque_apply("." + mname, list(args), dict(kwargs), st)
            r = Opq(fresh("r_call#%d" % self.opq_ctr, Obj), None)
            st.log.append({"callee": "<method of opaque object>", "args": list(args), "kwargs": dict(kwargs), "result": r, "effect": False, "on": fv})
            self.assumed.add("method calls on opaque objects: result unconstrained")
            return [(r, st)]
        return [(Raise(Exc("TypeError", "object is not callable")), st)]

    def call_fn(self, fn, args, kwargs, st):
        node = fn.node
        a = node.args
        names = [x.arg for x in a.posonlyargs + a.args]
        binding = {}
        if len(args) > len(names) and a.vararg is None:
            return [(Raise(Exc("TypeError", "too many positional arguments")), st)]
        for n, v in zip(names, args):
            binding[n] = v
        if a.vararg is not None:
            binding[a.vararg.arg] = tuple(args[len(names):])
        extra_kw = {}
        for k, v in kwargs.items():
            if k in names or k in [x.arg for x in a.kwonlyargs]:
                if k in binding:
                    return [(Raise(Exc("TypeError", "multiple values for argument")), st)]
                binding[k] = v
            elif a.kwarg is not None:
                extra_kw[k] = v
            else:
                return [(Raise(Exc("TypeError", "unexpected keyword argument %r" % k)), st)]
        # defaults
        defaults = fn.defaults or {}
        for n in names + [x.arg for x in a.kwonlyargs]:
            if n not in binding:
                if n in defaults:
                    binding[n] = defaults[n]
                else:
                    return [(Raise(Exc("TypeError", "missing argument %r" % n)), st)]
        if a.kwarg is not None:
            d = HDict()
            for k, v in extra_kw.items():
                d.set(k, v)
            binding[a.kwarg.arg] = st.alloc(d)
        sid = self.new_scope(st, binding)
        fr = Frame(sid, fn, fn.name)
        self.frames.append(fr)
        try:
            if isinstance(node, ast.Lambda):
                outs = self.ev(node.body, st)
                res = outs
            else:
                res = []
                for kind, val, s in self.exec_block(node.body, st):
                    if kind == "ok":
                        res.append((None, s))
                    elif kind == "return":
                        res.append((val, s))
                    elif kind == "raise":
                        res.append((Raise(val), s))
                    elif kind == "abort":
                        if self.mode == "exec" and self.abort_paths:
                            res.append((Raise(Exc("<abort>", "%s (in %s)" % (val, fn.name))), s))
                        else:
                            raise Unsupported("%s (in %s)" % (val, fn.name))
                    else:
                        raise Unsupported("break/continue escaping a function: %s in %s" % (kind, fn.name))
        finally:
            self.frames.pop()
        for v, s in res:
            if not self._closes_over(v, sid):  # a returned closure (rpartial's lambda) keeps its defining scope alive
                s.scopes.pop(sid, None)
        return res

    @staticmethod
    def _closes_over(v, sid):
        if isinstance(v, Fn):
            return sid in v.scopes
        if isinstance(v, tuple):
            return any(Engine._closes_over(x, sid) for x in v)
        if isinstance(v, Partial):
            return Engine._closes_over(v.f, sid) or any(Engine._closes_over(x, sid) for x in v.args)
        return False

    def make_fn_from_def(self, node, st, glob=None, scopes=None):
        """evaluate defaults at definition time (constants only)"""
        a = node.args
        defaults = {}
        pos = a.posonlyargs + a.args
        for arg, d in zip(pos[len(pos) - len(a.defaults):], a.defaults):
            (v, _), = self.ev(d, st)
            defaults[arg.arg] = v
        for arg, d in zip(a.kwonlyargs, a.kw_defaults):
            if d is not None:
                (v, _), = self.ev(d, st)
                defaults[arg.arg] = v
        return defaults

    # native / library models -----------------------------------------------------------------
    def call_native(self, obj, args, kwargs, st):
        from . import models

        return models.call_native(self, obj, args, kwargs, st)

    def call_method(self, recv, name, args, kwargs, st):
        from . import models

        return models.call_method(self, recv, name, args, kwargs, st)

    # ------------------------------------------------------------------ comprehensions / generators
    def ev_GeneratorExp(self, node, st):
        return self._comp(node, st, "gen")

    def ev_ListComp(self, node, st):
        return self._comp(node, st, "list")

    def ev_DictComp(self, node, st):
        """{k: v for ...}: evaluated as the list of (k, v) pairs; keys must be concrete"""
        pair = ast.Tuple(elts=[node.key, node.value], ctx=ast.Load())
        lc = ast.ListComp(elt=pair, generators=node.generators)
        ast.copy_location(pair, node)
        ast.copy_location(lc, node)
        res = []
        for v, s in self._comp(lc, st, "list"):
            if isinstance(v, Raise):
                res.append((v, s))
                continue
            d = HDict()
            for k, x in s.heap[v.oid].items:
                if isinstance(k, (Sym, Opq, Ref)):
                    raise Unsupported("dict comprehension with a symbolic key")
                d.set(k, x)
            res.append((s.alloc(d), s))
        return res

    def _comp(self, node, st, kind):
        if len(node.generators) != 1:
            # [E for g1 for g2 ...] == the concatenation of [[E for g2 ...] for g1]
            inner = ast.ListComp(elt=node.elt, generators=node.generators[1:])
            outer = ast.ListComp(elt=inner, generators=node.generators[:1])
            ast.copy_location(inner, node)
            ast.copy_location(outer, node)
            res = []
            for v, s in self._comp(outer, st, kind):
                if isinstance(v, Raise):
                    res.append((v, s))
                    continue
                flat = []
                for sub in s.heap[v.oid].items:
                    flat.extend(s.heap[sub.oid].items)
                res.append((s.alloc(HList(flat)), s))
            return res
        g = node.generators[0]

        def after_iter(it, s):
            items = self.iter_concrete(it, s)
            outs = [([], s)]
            for item in items:
                nxt = []
                for acc, s2 in outs:
                    if isinstance(acc, Raise):
                        nxt.append((acc, s2))
                        continue
                    sid = self.new_scope(s2)
                    fr = self.frames[-1]
                    pseudo = Fn(node, [fr.sid] + list(fr.fn.scopes if fr.fn else []), fr.fn.glob if fr.fn else {}, "<comp>")
                    self.frames.append(Frame(sid, pseudo, "<comp>"))
                    try:
                        for _k, _v, s3 in self.assign(g.target, item, s2):
                            conds = [([], s3)]
                            # filter conditions
                            keep_outs = [(True, s3)]
                            for cnode in g.ifs:
                                tmp = []
                                for keep, s4 in keep_outs:
                                    if keep is not True:
                                        tmp.append((keep, s4))
                                        continue
                                    for cv, s5 in self.ev(cnode, s4):
                                        if isinstance(cv, Raise):
                                            tmp.append((cv, s5))
                                            continue
                                        for flag, s6 in self.fork(self.truth(cv, s5), s5):
                                            tmp.append((flag, s6))
                                keep_outs = tmp
                            for keep, s4 in keep_outs:
                                if isinstance(keep, Raise):
                                    nxt.append((keep, s4))
                                elif keep:
                                    for ev_, s5 in self.ev(node.elt, s4):
                                        if isinstance(ev_, Raise):
                                            nxt.append((ev_, s5))
                                        else:
                                            nxt.append((acc + [ev_], s5))
                                else:
                                    nxt.append((acc, s4))
                    finally:
                        self.frames.pop()
                    for _, sx in nxt:
                        sx.scopes.pop(sid, None)
                outs = nxt
            res = []
            for acc, s2 in outs:
                if isinstance(acc, Raise):
                    res.append((acc, s2))
                else:
                    res.append((s2.alloc(HList(acc)), s2))
            return res

        return self.bind(self.ev(g.iter, st), after_iter)

    # ------------------------------------------------------------------ statements
    def exec_block(self, stmts, st):
        """-> list of (kind, value, state); kind in ok/return/break/continue/raise"""
        outs = [("ok", None, st)]
        for stmt in stmts:
            nxt = []
            for kind, val, s in outs:
                if kind != "ok":
                    nxt.append((kind, val, s))
                    continue
                if self.mode == "exec" and self.abort_paths:
                    snap = s.copy()
                    try:
                        res = self.exec_stmt(stmt, s)
                    except Unsupported as e:
                        res = [("abort", str(e), snap)]
                else:
                    res = self.exec_stmt(stmt, s)
                res = [("abort", v2.msg, s2) if k2 == "raise" and getattr(v2, "kind", None) == "<abort>" else (k2, v2, s2) for k2, v2, s2 in res]
                stop = False
                if self.stop_after and len(self.frames) == 1:
                    try:
                        stop = ast.unparse(stmt).split("\n")[0].strip().startswith(self.stop_after)
                    except Exception:
                        stop = False
                for k2, v2, s2 in res:
                    if k2 == "ok":
                        self.after_stmt(stmt, s2)
                if stop:
                    res = [("return", None, s2) if k2 == "ok" else (k2, v2, s2) for k2, v2, s2 in res]
                    self.stop_fired = True
                nxt.extend(res)
            outs = nxt
        return outs

    def after_stmt(self, stmt, st):
        """ghost capture hooks keyed by the statement's source text"""
        if not self.ghost_hooks or (len(self.frames) != 1 and not any(h.startswith("~") for h in self.ghost_hooks)):
            return
        try:
            key = ast.unparse(stmt).split("\n")[0].strip()
        except Exception:
            return
        for hk, caps in self.ghost_hooks.items():
            # a key that opens with '~' also fires inside callees (the nested helper functions of the function under contract)
            if not (key.startswith(hk[1:]) if hk.startswith("~") else (len(self.frames) == 1 and key.startswith(hk))):
                continue
            for name, expr in caps:
                saved = self.mode
                self.mode = "spec"
                try:
                    (v, _), = self.ev(ast.parse(expr, mode="eval").body, st)
                finally:
                    self.mode = saved
                st.ghost[name] = v
            self.hooks_fired.add(hk)

    hooks_fired = set()

    def exec_stmt(self, stmt, st):
        m = getattr(self, "ex_" + type(stmt).__name__, None)
        if m is None:
            raise Unsupported("statement %s" % type(stmt).__name__)
        return m(stmt, st)

    def _expr_to_stmt(self, outs, f=None):
        res = []
        for v, s in outs:
            if isinstance(v, Raise):
                res.append(("raise", v.exc, s))
            elif f is None:
                res.append(("ok", None, s))
            else:
                res.extend(f(v, s))
        return res

    def ex_Expr(self, stmt, st):
        if isinstance(stmt.value, ast.Constant):
            return [("ok", None, st)]
        return self._expr_to_stmt(self.ev(stmt.value, st))

    def ex_Pass(self, stmt, st):
        return [("ok", None, st)]

    def ex_Return(self, stmt, st):
        if stmt.value is None:
            return [("return", None, st)]
        return self._expr_to_stmt(self.ev(stmt.value, st), lambda v, s: [("return", v, s)])

    def ex_Break(self, stmt, st):
        return [("break", None, st)]

    def ex_Continue(self, stmt, st):
        return [("continue", None, st)]

    def ex_Assign(self, stmt, st):
        def after(v, s):
            outs = [("ok", None, s)]
            for tgt in stmt.targets:
                nxt = []
                for k, _, s2 in outs:
                    if k != "ok":
                        nxt.append((k, _, s2))
                    else:
                        nxt.extend(self.assign(tgt, v, s2))
                outs = nxt
            return outs

        return self._expr_to_stmt(self.ev(stmt.value, st), after)

    def ex_AnnAssign(self, stmt, st):
        if stmt.value is None:
            return [("ok", None, st)]
        return self._expr_to_stmt(self.ev(stmt.value, st), lambda v, s: self.assign(stmt.target, v, s))

    def assign(self, tgt, v, st):
        if isinstance(tgt, ast.Name):
            self.store(tgt.id, v, st)
            return [("ok", None, st)]
        if isinstance(tgt, (ast.Tuple, ast.List)):
            try:
                items = self.iter_concrete(v, st)
            except Unsupported:
                raise
            if len(items) != len(tgt.elts):
                return [("raise", Exc("ValueError", "unpack"), st)]
            outs = [("ok", None, st)]
            for t, item in zip(tgt.elts, items):
                nxt = []
                for k, _, s in outs:
                    nxt.extend(self.assign(t, item, s) if k == "ok" else [(k, _, s)])
                outs = nxt
            return outs
        if isinstance(tgt, ast.Subscript):
            def after(vs, s):
                c, i = vs
                return self.setitem(c, i, v, s)

            if isinstance(tgt.slice, ast.Slice):
                raise Unsupported("slice assignment")
            return self._expr_to_stmt(self.ev_list([tgt.value, tgt.slice], st), after)
        if isinstance(tgt, ast.Attribute):
            def after_o(o, s):
                if isinstance(o, Ref) and isinstance(s.heap[o.oid], HObj):
                    s.heap[o.oid].attrs[tgt.attr] = v
                    return [("ok", None, s)]
                if isinstance(o, Opq) and o.cls not in ("float", "complex"):
                    # a write to an attribute of an opaque object: logged, and remembered for later reads through the SAME term; a later read
                    # of that attribute through any other opaque term could be an alias and leaves the subset (see getattr)
                    ov = dict(s.ghost.get("__opq_attrs") or {})
                    ov[(tgt.attr, o.t.sexpr())] = v
                    s.ghost["__opq_attrs"] = ov
                    s.log.append({"callee": "<setattr>", "args": [o, tgt.attr, v], "kwargs": {}, "result": None, "effect": False})
                    self.assumed.add("attribute writes on opaque objects: visible to later reads through the same term only (other terms: undecided)")
                    return [("ok", None, s)]
                if isinstance(o, Fn):
                    # an attribute of a function object created by the code under verification (`f.flag = False` on a nested def): per-path state,
                    # keyed by the function object (one per activation of the enclosing function)
                    fa = dict(s.ghost.get("__fn_attrs") or {})
                    fa[(id(o), tgt.attr)] = v
                    s.ghost["__fn_attrs"] = fa
                    return [("ok", None, s)]
                raise Unsupported("attribute store on %r" % (o,))

            return self._expr_to_stmt(self.ev(tgt.value, st), after_o)
        raise Unsupported("assignment target %s" % type(tgt).__name__)

    def setitem(self, c, i, v, st):
        if isinstance(c, Ref):
            h = st.heap[c.oid]
            if isinstance(h, HDict):
                if isinstance(i, Sym):
                    # symbolic key known to be one of the literal keys: per-entry ite
                    known = self._or([self._and([self.eq(i, k, st), h.pres[k]]) for k in h.keys])
                    if smt.quick_check(st.pc, self._not(known) if not isinstance(known, bool) else z3.BoolVal(not known)) != "unsat":
                        raise Unsupported("store with a symbolic key that may be new")
                    for k in h.keys:
                        e = self.eq(i, k, st)
                        if e is False:
                            continue
                        old = h.vals[k]
                        if e is True:
                            h.vals[k] = v
                        else:
                            h.vals[k] = self.ite(e, v, old)
                    return [("ok", None, st)]
                if isinstance(i, (Opq, Ref)):
                    raise Unsupported("opaque dict key")
                h.set(i, v)
                return [("ok", None, st)]
            if isinstance(h, HList):
                if isinstance(i, int) and -len(h.items) <= i < len(h.items):
                    h.items[i] = v
                    return [("ok", None, st)]
                if isinstance(i, int):
                    return [("raise", Exc("IndexError", "list assignment index out of range"), st)]
                raise Unsupported("symbolic list index store")
        raise Unsupported("item store on %r" % (c,))

    def ex_AugAssign(self, stmt, st):
        load = ast.copy_location(ast.fix_missing_locations(_as_load(stmt.target)), stmt)

        def after(vs, s):
            cur, inc = vs
            res = []
            for v, s2 in self.binop(stmt.op, cur, inc, s):
                if isinstance(v, Raise):
                    res.append(("raise", v.exc, s2))
                else:
                    res.extend(self.assign(stmt.target, v, s2))
            return res

        return self._expr_to_stmt(self.ev_list([load, stmt.value], st), after)

    def ex_Delete(self, stmt, st):
        outs = [("ok", None, st)]
        for tgt in stmt.targets:
            nxt = []
            for k, _, s in outs:
                if k != "ok":
                    nxt.append((k, _, s))
                    continue
                if isinstance(tgt, ast.Name):
                    sc = s.scopes[self.frames[-1].sid]
                    sc.pop(tgt.id, None)
                    nxt.append(("ok", None, s))
                elif isinstance(tgt, ast.Subscript):
                    def after(vs, s2):
                        c, i = vs
                        if isinstance(c, Ref) and isinstance(s2.heap[c.oid], HDict) and not isinstance(i, (Sym, Opq, Ref)):
                            h = s2.heap[c.oid]
                            if i in h.vals:
                                p = h.pres[i]
                                if p is True:
                                    h.delete(i)
                                    return [("ok", None, s2)]
                                res = []
                                for flag, s3 in self.fork(p, s2):
                                    s3.heap[c.oid].delete(i)
                                    res.append(("ok", None, s3) if flag else ("raise", Exc("KeyError", repr(i)), s3))
                                return res
                            return [("raise", Exc("KeyError", repr(i)), s2)]
                        raise Unsupported("del item")

                    nxt.extend(self._expr_to_stmt(self.ev_list([tgt.value, tgt.slice], s), after))
                else:
                    raise Unsupported("del target")
            outs = nxt
        return outs

    def ex_If(self, stmt, st):
        def after(c, s):
            res = []
            for flag, s2 in self.fork(self.truth(c, s), s):
                res.extend(self.exec_block(stmt.body if flag else stmt.orelse, s2))
            return res

        return self._expr_to_stmt(self.ev(stmt.test, st), after)

    WHILE_FUEL = 24

    def ex_While(self, stmt, st):
        """while loops are unrolled (the test forks like an `if`); a path that is still looping after WHILE_FUEL iterations leaves the
        verified subset (undecided - never silently cut short)"""
        if stmt.orelse:
            raise Unsupported("while/else")
        done = []
        live = [st]
        for _ in range(self.WHILE_FUEL + 1):
            nxt = []
            for s in live:
                def after(c, s1):
                    res = []
                    for flag, s2 in self.fork(self.truth(c, s1), s1):
                        if not flag:
                            res.append(("exit", None, s2))
                        else:
                            res.extend(self.exec_block(stmt.body, s2))
                    return res

                for k, v, s2 in self._expr_to_stmt(self.ev(stmt.test, s), after):
                    if k in ("ok", "continue"):
                        nxt.append(s2)
                    elif k in ("exit", "break"):
                        done.append(("ok", None, s2))
                    else:
                        done.append((k, v, s2))
            live = nxt
            if not live:
                return done
        raise Unsupported("while loop still running after %d iterations" % self.WHILE_FUEL)

    def ex_Assert(self, stmt, st):
        def after(c, s):
            res = []
            for flag, s2 in self.fork(self.truth(c, s), s):
                res.append(("ok", None, s2) if flag else ("raise", Exc("AssertionError", ""), s2))
            return res

        return self._expr_to_stmt(self.ev(stmt.test, st), after)

    def ex_Raise(self, stmt, st):
        if stmt.exc is None:
            raise Unsupported("bare raise")
        name = None
        e = stmt.exc
        if isinstance(e, ast.Call) and isinstance(e.func, ast.Name):
            name = e.func.id
        elif isinstance(e, ast.Name):
            name = e.id
        if name is None:
            raise Unsupported("raise of a computed exception")
        return [("raise", Exc(name, "raised by the code"), st)]

    def ex_FunctionDef(self, stmt, st):
        fr = self.frames[-1]
        scopes = [fr.sid] + list(fr.fn.scopes if fr.fn else [])
        fn = Fn(stmt, scopes, fr.fn.glob if fr.fn else {}, stmt.name)
        fn.defaults = self.make_fn_from_def(stmt, st)
        self.store(stmt.name, fn, st)
        return [("ok", None, st)]

    def ex_ImportFrom(self, stmt, st):
        import importlib

        mod = importlib.import_module(stmt.module)
        for al in stmt.names:
            self.store(al.asname or al.name, self.lift(getattr(mod, al.name)), st)
        return [("ok", None, st)]

    def ex_With(self, stmt, st):
        # only `with suppress(E, ...)` is modelled here; effectful `with open(...)` lives in effects.py
        if len(stmt.items) == 1:
            ce = stmt.items[0].context_expr
            if isinstance(ce, ast.Call) and isinstance(ce.func, ast.Name) and ce.func.id == "suppress":
                kinds = []
                for a in ce.args:
                    if not isinstance(a, ast.Name):
                        raise Unsupported("suppress of computed exception")
                    kinds.append(a.id)
                res = []
                for kind, val, s in self.exec_block(stmt.body, st):
                    if kind == "raise" and exc_matches(val.kind, kinds):
                        res.append(("ok", None, s))
                    else:
                        res.append((kind, val, s))
                return res
        if len(stmt.items) == 1 and self.opaque:
            it = stmt.items[0]

            def after_cm(cm, s):
                if not isinstance(cm, Opq):
                    raise Unsupported("with over a non-opaque context manager")
                if it.optional_vars is not None:
                    for k, _, s2 in self.assign(it.optional_vars, cm, s):
                        pass
                self.assumed.add("`with <opaque>`: __enter__ returns the object, __exit__ does not swallow exceptions")
                return self.exec_block(stmt.body, s)

            return self._expr_to_stmt(self.ev(it.context_expr, st), after_cm)
        raise Unsupported("with statement")

    def ex_Try(self, stmt, st):
        if stmt.finalbody:
            raise Unsupported("try/finally")
        res = []
        for kind, val, s in self.exec_block(stmt.body, st):
            if kind == "raise":
                handled = False
                for h in stmt.handlers:
                    names = []
                    if h.type is None:
                        names = ["Exception"]
                    elif isinstance(h.type, ast.Name):
                        names = [h.type.id]
                    elif isinstance(h.type, ast.Tuple):
                        names = [e.id for e in h.type.elts if isinstance(e, ast.Name)]
                    if exc_matches(val.kind, names) or "BaseException" in names:
                        if h.name:
                            self.store(h.name, Opq(fresh("exc", Obj), val.kind), s)
                        res.extend(self.exec_block(h.body, s))
                        handled = True
                        break
                if not handled:
                    res.append((kind, val, s))
            elif kind == "ok" and stmt.orelse:
                res.extend(self.exec_block(stmt.orelse, s))
            else:
                res.append((kind, val, s))
        return res

    # ------------------------------------------------------------------ for loops
    def ex_For(self, stmt, st):
        if stmt.orelse:
            raise Unsupported("for/else")
        ordinal = self.loop_ordinals.get(id(stmt), 0)

        def after_iter(it, s):
            spec = None
            if len(self.frames) == 1:
                spec = self.loop_specs.get(ordinal)
            sym_iter = self.symbolic_iter(it, s)
            if sym_iter is None:
                try:
                    items = self.iter_concrete(it, s)
                except Unsupported:
                    raise
                return self.unroll(stmt, items, s)
            if spec is None:
                raise Unsupported("loop %d over a symbolic iterable has no invariant" % ordinal)
            return self.cut_loop(stmt, sym_iter, spec, ordinal, s)

        return self._expr_to_stmt(self.ev(stmt.iter, st), after_iter)

    def unroll(self, stmt, items, st):
        outs = [("ok", None, st)]
        for item in items:
            nxt = []
            for k, v, s in outs:
                if k != "ok":
                    nxt.append((k, v, s))
                    continue
                for k1, v1, s1 in self.assign(stmt.target, item, s):
                    if k1 != "ok":
                        nxt.append((k1, v1, s1))
                        continue
                    for k2, v2, s2 in self.exec_block(stmt.body, s1):
                        if k2 in ("ok", "continue"):
                            nxt.append(("ok", None, s2))
                        elif k2 == "break":
                            nxt.append(("brk", None, s2))
                        else:
                            nxt.append((k2, v2, s2))
            outs = nxt
        return [("ok" if k == "brk" else k, v, s) for k, v, s in outs]

    def symbolic_iter(self, it, st):
        """-> None if concrete, else (n_term, item_fn(i_term)->value)"""
        if isinstance(it, Sym) and it.ty == "str":
            return (z3.Length(it.t), lambda i: Sym(smt.char_at(it.t, i), "str"))
        if isinstance(it, SymRange):
            return (it.n, lambda i: Sym(i, "int"))
        if isinstance(it, SymEnumerate):
            inner = self.symbolic_iter(it.inner, st)
            if inner is None:
                return None
            n, f = inner
            return (n, lambda i: (Sym(i + it.start, "int") if not (isinstance(it.start, int) and it.start == 0) else Sym(i, "int"), f(i)))
        return None

    def cut_loop(self, stmt, sym_iter, spec, ordinal, st):
        """Cut the loop at its invariant (DESIGN 2.2 / Appendix D)."""
        n_term, item_fn = sym_iter
        header = "for %s in %s" % (ast.unparse(stmt.target), ast.unparse(stmt.iter))
        if spec.get("header") and spec["header"] != header:
            raise Unsupported("loop anchor mismatch: expected %r, found %r" % (spec["header"], header))
        inv_texts = spec["inv"]
        label = "loop%d" % ordinal
        # 1. invariant holds initially
        for k, txt in enumerate(inv_texts):
            g = self.spec_eval(txt, st, extra={"_i": 0, "_n": Sym(n_term, "int")})
            self.oblige("inv-init", st, g, "%s inv[%d] initially: %s" % (label, k, txt))
        # 2. arbitrary iteration
        assigned = _assigned_names(stmt.body) | _assigned_names([ast.Assign(targets=[stmt.target], value=ast.Constant(0))])
        mutated = _mutated_names(stmt.body)
        target_names = _assigned_names([ast.Assign(targets=[stmt.target], value=ast.Constant(0))])

        def havoc(s):
            sc = s.scopes[self.frames[-1].sid]
            for name in assigned:
                if name in sc and name not in target_names and sc[name] is not UNDEF:
                    sc[name] = self.havoc_value(sc[name], name, s)
                elif name not in sc or name in target_names:
                    sc[name] = UNDEF
            for name in mutated:
                if name in sc and isinstance(sc[name], Ref):
                    h = s.heap[sc[name].oid]
                    if isinstance(h, HDict):
                        for k in h.keys:
                            h.vals[k] = self.havoc_value(h.vals[k], "%s[%r]" % (name, k), s)
                    else:
                        raise Unsupported("havoc of a mutated non-dict object")

        res = []
        s_iter = st.copy()
        havoc(s_iter)
        i = fresh("_i", I)
        s_iter.pc.append(i >= 0)
        s_iter.pc.append(i < n_term)
        for txt in inv_texts:
            s_iter.pc.append(self.spec_eval(txt, s_iter, extra={"_i": Sym(i, "int"), "_n": Sym(n_term, "int")}))
        if smt.quick_check(s_iter.pc) != "unsat":
            for k1, v1, s1 in self.assign(stmt.target, item_fn(i), s_iter):
                if k1 != "ok":
                    res.append((k1, v1, s1))
                    continue
                for k2, v2, s2 in self.exec_block(stmt.body, s1):
                    if k2 in ("ok", "continue"):
                        for k, txt in enumerate(inv_texts):
                            g = self.spec_eval(txt, s2, extra={"_i": Sym(i + 1, "int"), "_n": Sym(n_term, "int")})
                            self.oblige("inv-step", s2, g, "%s inv[%d] preserved: %s" % (label, k, txt))
                    elif k2 == "break":
                        s2.ghost["_break_%d" % ordinal] = Sym(i, "int")
                        res.append(("ok", None, s2))
                    else:
                        res.append((k2, v2, s2))
        # 3. exhausted
        s_exit = st
        havoc(s_exit)
        for txt in inv_texts:
            s_exit.pc.append(self.spec_eval(txt, s_exit, extra={"_i": Sym(n_term, "int"), "_n": Sym(n_term, "int")}))
        # loop target variables keep their last value; model: undefined unless n == 0 (left UNDEF)
        res.append(("ok", None, s_exit))
        # post-loop assertion (cut point)
        if spec.get("after"):
            out = []
            for k, v, s in res:
                if k == "ok":
                    for txt in spec["after"]:
                        g = self.spec_eval(txt, s, extra={})
                        self.oblige("cut", s, g, "%s after-loop assertion: %s" % (label, txt))
                        s.pc.append(g if not isinstance(g, bool) else z3.BoolVal(g))
                out.append((k, v, s))
            res = out
        return res

    def havoc_value(self, v, name, st):
        t = pytype_name(v)
        if t == "str":
            return Sym(fresh("h_" + name, S), "str")
        if t == "int":
            return Sym(fresh("h_" + name, I), "int")
        if t == "bool":
            return Sym(fresh("h_" + name, B), "bool")
        if v is None:
            raise Unsupported("havoc of a None-valued variable %r (type may change in the loop)" % name)
        if isinstance(v, tuple):
            return tuple(self.havoc_value(x, name, st) for x in v)
        raise Unsupported("havoc of %r" % (v,))

    # ------------------------------------------------------------------ specs
    def spec_eval(self, text, st, extra=None, env=None):
        """Evaluate a contract expression (Python text) to a z3 Bool / python bool in the state."""
        tree = ast.parse(text, mode="eval").body
        saved_mode = self.mode
        self.mode = "spec"
        sid = self.new_scope(st, dict(extra or {}))
        base = self.frames[-1]
        pseudo = Fn(tree, [base.sid] + list(base.fn.scopes if base.fn else []), dict(base.fn.glob if base.fn else {}), "<spec>")
        pseudo.glob = dict(pseudo.glob)
        pseudo.glob.update(self.spec_globals())
        if env:
            st.scopes[sid].update(env)
        for dname, dtext in self.spec_defs.items():
            dnode = ast.parse(dtext, mode="eval").body
            st.scopes[sid][dname] = Fn(dnode, [sid] + pseudo.scopes, pseudo.glob, dname)
        for gname, gval in st.ghost.items():
            st.scopes[sid].setdefault(gname, gval)
        self.frames.append(Frame(sid, pseudo, "<spec>"))
        try:
            try:
                outs = self.ev(tree, st)
            except NeedFork:
                raise Unsupported("spec expression needs a fork: %s" % text)
            if len(outs) == 1 and isinstance(outs[0][0], Raise) and getattr(outs[0][0].exc, "kind", None) in ("KeyError", "IndexError", "AttributeError"):
                # on this path the clause itself raises (it subscripts an entry that is not there): a postcondition that cannot be evaluated does not hold
                raise SpecRaises(outs[0][0].exc.kind, "spec expression raises %s on this path: %s" % (outs[0][0].exc.kind, text))
            if len(outs) != 1 or isinstance(outs[0][0], Raise):
                raise Unsupported("spec expression forked or raised: %s -> %r" % (text, outs[0][0].exc if outs else None))
            v = outs[0][0]
        finally:
            self.frames.pop()
            st.scopes.pop(sid, None)
            self.mode = saved_mode
        t = self.truth(v, st)
        return t

    def spec_value(self, text, st, env=None):
        """value of a contract expression (not its truth)"""
        holder = {}
        orig = self.truth

        def capture(v, s):
            holder["v"] = v
            return True

        self.truth = capture
        try:
            self.spec_eval(text, st, env=env)
        finally:
            self.truth = orig
        return holder["v"]

    def spec_globals(self):
        from . import specfuncs

        return specfuncs.SPEC_GLOBALS


class SymRange:
    def __init__(self, n):
        self.n = n


class SymEnumerate:
    def __init__(self, inner, start):
        self.inner, self.start = inner, start


def _as_load(node):
    n = ast.parse(ast.unparse(node), mode="eval").body
    return n


def _assigned_names(stmts):
    names = set()
    for stmt in stmts:
        for n in ast.walk(stmt):
            if isinstance(n, ast.Name) and isinstance(n.ctx, (ast.Store, ast.Del)):
                names.add(n.id)
            elif isinstance(n, ast.AugAssign) and isinstance(n.target, ast.Name):
                names.add(n.target.id)
    return names


def _mutated_names(stmts):
    names = set()
    for stmt in stmts:
        for n in ast.walk(stmt):
            tgt = None
            if isinstance(n, ast.Assign):
                for t in n.targets:
                    if isinstance(t, ast.Subscript) and isinstance(t.value, ast.Name):
                        names.add(t.value.id)
            elif isinstance(n, ast.AugAssign) and isinstance(n.target, ast.Subscript) and isinstance(n.target.value, ast.Name):
                names.add(n.target.value.id)
            elif isinstance(n, ast.Call) and isinstance(n.func, ast.Attribute) and isinstance(n.func.value, ast.Name):
                if n.func.attr in ("update", "append", "pop", "setdefault", "extend", "clear", "insert", "remove"):
                    names.add(n.func.value.id)
    return names
