"""
SMT-side definitions shared by the symbolic executor and by contracts: sorts, Python string
operations as z3 terms, regexes for CPython's numeric grammars, the solver portfolio.

Every definition here is an *encoding of CPython semantics* and is cross-checked against CPython on
every run (vf/pyvc/crosscheck.py).
"""
import hashlib
import os
import re as _re
import subprocess
import tempfile
import time

import z3

S = z3.StringSort()
I = z3.IntSort()
B = z3.BoolSort()
Obj = z3.DeclareSort("Obj")

_ctr = [0]


def fresh(prefix, sort):
    _ctr[0] += 1
    return z3.Const("%s!%d" % (prefix, _ctr[0]), sort)


def reset_names():
    _ctr[0] = 0


# ---------------------------------------------------------------------------------------------
# Python slicing / indexing
# ---------------------------------------------------------------------------------------------
def _clampidx(i, n):
    return z3.If(i < 0, z3.If(i + n < 0, z3.IntVal(0), i + n), z3.If(i > n, n, i))


_s, _lo, _hi = z3.String("s!"), z3.Int("lo!"), z3.Int("hi!")
pyslice = z3.RecFunction("pyslice", S, I, I, S)
z3.RecAddDefinition(
    pyslice,
    [_s, _lo, _hi],
    z3.SubString(
        _s,
        _clampidx(_lo, z3.Length(_s)),
        z3.If(
            _clampidx(_hi, z3.Length(_s)) - _clampidx(_lo, z3.Length(_s)) > 0,
            _clampidx(_hi, z3.Length(_s)) - _clampidx(_lo, z3.Length(_s)),
            z3.IntVal(0),
        ),
    ),
)


def slice_term(s, lo, hi):
    """s[lo:hi] with Python clamping; lo/hi None = omitted."""
    n = z3.Length(s)
    lo_t = z3.IntVal(0) if lo is None else lo
    hi_t = n if hi is None else hi
    return pyslice(s, lo_t, hi_t)


def index_norm(i, n):
    """normalised index for s[i] (no clamping); the caller emits the 0<=idx<n obligation."""
    return z3.If(i < 0, i + n, i)


def char_at(s, i):
    return z3.SubString(s, i, 1)


# ---------------------------------------------------------------------------------------------
# regexes
# ---------------------------------------------------------------------------------------------
def re_chars(chars):
    chars = sorted(set(chars))
    if not chars:
        return z3.Empty(z3.ReSort(S))
    rs = [z3.Re(z3.StringVal(c)) for c in chars]
    return rs[0] if len(rs) == 1 else z3.Union(*rs)


def re_star_chars(chars):
    return z3.Star(re_chars(chars))


DIGIT = z3.Range("0", "9")
DIGITS1 = z3.Plus(DIGIT)
PY_WS = " \t\n\r\x0b\x0c"
WS = re_star_chars(PY_WS + "\x1c\x1d\x1e\x1f\x85\xa0")  # str.strip() whitespace within Latin-1
SIGN = z3.Option(re_chars("+-"))
DGROUP = z3.Concat(DIGIT, z3.Star(z3.Concat(z3.Option(z3.Re("_")), DIGIT)))  # d(_?d)*


def _ci(word):
    """case-insensitive literal"""
    parts = [re_chars(c.lower() + c.upper()) for c in word]
    return parts[0] if len(parts) == 1 else z3.Concat(*parts)


# text accepted by int(str) (base 10)
RE_PY_INT = z3.Concat(WS, SIGN, DGROUP, WS)
_EXP = z3.Option(z3.Concat(re_chars("eE"), SIGN, DGROUP))
_FLOATNUM = z3.Union(
    z3.Concat(DGROUP, z3.Option(z3.Re(".")), z3.Option(DGROUP), _EXP),  # 1  1.  1.5  1e3
    z3.Concat(z3.Re("."), DGROUP, _EXP),  # .5
)
RE_PY_FLOAT = z3.Concat(
    WS, SIGN, z3.Union(_FLOATNUM, _ci("inf"), _ci("infinity"), _ci("nan")), WS
)
RE_DECIMAL = DIGITS1  # str.isdecimal / isdigit under the ASCII assumption
RE_SIGNED_INT = z3.Concat(z3.Option(z3.Re("-")), DIGITS1)  # repr of an int


# ---------------------------------------------------------------------------------------------
# uninterpreted library functions (assumed pure, deterministic)
# ---------------------------------------------------------------------------------------------
casefold = z3.Function("casefold", S, S)
py_int_of = z3.Function("py_int_of", S, I)  # value of int(s) for texts outside the digit-only classes
_AX = {}


def axioms():
    """Background axioms; added to every query that mentions the symbol."""
    if not _AX:
        x = z3.String("ax!x")
        _AX["casefold"] = z3.ForAll(
            [x], z3.Length(casefold(x)) == z3.Length(x), patterns=[casefold(x)]
        )
    return _AX


GROUND_CF = {}


def note_casefold(lit):
    """the engine evaluates casefold of a literal with CPython; tell the solver the same fact"""
    if lit not in GROUND_CF:
        GROUND_CF[lit] = casefold(z3.StringVal(lit)) == z3.StringVal(lit.casefold())
    return lit.casefold()


def int_of_str(s):
    """value of int(s) where it is defined by digits; otherwise uninterpreted"""
    return z3.If(
        z3.InRe(s, DIGITS1),
        z3.StrToInt(s),
        z3.If(
            z3.InRe(s, z3.Concat(z3.Re("-"), DIGITS1)),
            -z3.StrToInt(z3.SubString(s, 1, z3.Length(s) - 1)),
            z3.If(
                z3.InRe(s, z3.Concat(z3.Re("+"), DIGITS1)),
                z3.StrToInt(z3.SubString(s, 1, z3.Length(s) - 1)),
                py_int_of(s),
            ),
        ),
    )


def str_of_int(i):
    return z3.If(i >= 0, z3.IntToStr(i), z3.Concat(z3.StringVal("-"), z3.IntToStr(-i)))


# ---------------------------------------------------------------------------------------------
# solving
# ---------------------------------------------------------------------------------------------
Z3_NEW = "/usr/local/bin/z3-new"
CVC5 = "/usr/bin/cvc5"


_info_cache = {}
_keep_alive = []


def term_info(t):
    """(all declaration names, ground pyslice applications) of a term, cached by ast id"""
    k = t.get_id()
    r = _info_cache.get(k)
    if r is not None:
        return r
    names = set()
    slices = {}
    seen = set()
    stack = [(t, False)]
    while stack:
        x, under = stack.pop()
        xid = (x.get_id(), under)
        if xid in seen:
            continue
        seen.add(xid)
        if z3.is_quantifier(x):
            stack.append((x.body(), True))
        elif z3.is_app(x):
            nm = x.decl().name()
            names.add(nm)
            if nm == "pyslice" and not under and x.num_args() == 3:
                slices[x.get_id()] = x
            for c in x.children():
                stack.append((c, under))
    r = (frozenset(names), list(slices.values()))
    _info_cache[k] = r
    _keep_alive.append(t)  # ids are only stable while the term is alive
    return r


def uses(term_list, name):
    return any(name in term_info(t)[0] for t in term_list)


def _ground_slices(terms):
    """ground applications of pyslice (not below a binder)"""
    out = {}
    for t in terms:
        for g in term_info(t)[1]:
            out[g.get_id()] = g
    return list(out.values())


_len_lemma_cache = {}


def slice_len_lemma(t):
    """instance of: len(s[lo:hi]) == max(clamp(hi) - clamp(lo), 0)  (proved from the definition as a
    lemma obligation on every run, see lemmas.py)"""
    k = t.get_id()
    if k in _len_lemma_cache:
        return _len_lemma_cache[k]
    s_, lo, hi = t.children()
    n = z3.Length(s_)
    a, b = _clampidx(lo, n), _clampidx(hi, n)
    r = z3.Length(t) == z3.If(b - a > 0, b - a, z3.IntVal(0))
    _len_lemma_cache[k] = r
    _keep_alive.append(t)
    return r


def slice_split_lemmas(gsl):
    """instances of: s[:k] + s[k:] == s  (valid for every int k; lemma obligation in lemmas.py)"""
    out = []
    heads = [t for t in gsl if z3.is_int_value(t.arg(1)) and t.arg(1).as_long() == 0]
    for h in heads:
        for t in gsl:
            if t.arg(0).eq(h.arg(0)) and t.arg(1).eq(h.arg(2)) and t.arg(2).eq(z3.Length(t.arg(0))):
                out.append(h.arg(0) == z3.Concat(h, t))
    return out


def to_smt2(hyps, neg_goal, extra_axioms=()):
    s = z3.Solver()
    ax = axioms()
    terms = list(hyps) + [neg_goal]
    gsl = _ground_slices(terms)
    for gt in gsl:
        s.add(slice_len_lemma(gt))
    for lem in slice_split_lemmas(gsl):
        s.add(lem)
    for name, a in ax.items():
        if uses(terms, name):
            s.add(a)
    if GROUND_CF and uses(terms, "casefold"):
        for a in GROUND_CF.values():
            s.add(a)
    for a in extra_axioms:
        s.add(a)
    for h in hyps:
        s.add(h)
    s.add(neg_goal)
    txt = s.to_smt2()
    # z3 prints applications of define-fun-rec symbols as ((_ f 0) ...): not SMT-LIB
    txt = _re.sub(r"\(_ ([A-Za-z_][A-Za-z_0-9!]*) 0\)", r"\1", txt)
    return "(set-logic ALL)\n" + txt


def _syms(t, cache={}):
    """uninterpreted constants / functions occurring in a term"""
    k = t.get_id()
    if k in cache:
        return cache[k]
    out = set()
    stack = [t]
    seen = set()
    while stack:
        x = stack.pop()
        if x.get_id() in seen:
            continue
        seen.add(x.get_id())
        if z3.is_quantifier(x):
            stack.append(x.body())
        elif z3.is_app(x):
            d = x.decl()
            if d.kind() == z3.Z3_OP_UNINTERPRETED or d.kind() == z3.Z3_OP_RECURSIVE:
                if x.num_args() == 0 or d.kind() == z3.Z3_OP_UNINTERPRETED:
                    out.add(d.name())
            stack.extend(x.children())
    cache[k] = frozenset(out)
    _keep_alive.append(t)
    return cache[k]


GLOBAL_FUNS = {"casefold", "pyslice", "nobr", "obj_tag", "obj_str", "obj_int", "obj_bool", "obj_truthy",
               "obj_isinst", "pystr_of_obj", "is_py_literal", "lit_eval", "float_of_str", "py_int_of"}


def slice_hyps(hyps, goal, depth, qf_only):
    """relevance cone of the goal's symbols (dropping hypotheses is sound)"""
    cone = set(_syms(goal)) - GLOBAL_FUNS
    if not cone:
        for h in reversed(hyps):
            if not _has_quant(h):
                cone |= set(_syms(h)) - GLOBAL_FUNS
                if len(cone) >= 1:
                    break
    keep = [False] * len(hyps)
    hs = [set(_syms(h)) - GLOBAL_FUNS for h in hyps]
    for _ in range(depth):
        grew = False
        for i, h in enumerate(hyps):
            if keep[i]:
                continue
            if qf_only and _has_quant(h):
                continue
            if hs[i] & cone:
                keep[i] = True
                if not (hs[i] <= cone):
                    cone |= hs[i]
                    grew = True
        if not grew:
            break
    return [h for i, h in enumerate(hyps) if keep[i]]


def _match_paren(txt, i):
    depth = 0
    k = i
    in_str = False
    while k < len(txt):
        ch = txt[k]
        if in_str:
            if ch == '"':
                if k + 1 < len(txt) and txt[k + 1] == '"':
                    k += 1
                else:
                    in_str = False
        elif ch == '"':
            in_str = True
        elif ch == "(":
            depth += 1
        elif ch == ")":
            depth -= 1
            if depth == 0:
                return k
        k += 1
    raise ValueError("unbalanced")


def _top_items(txt):
    """top-level parenthesised items of an s-expression body"""
    items = []
    k = 0
    while k < len(txt):
        if txt[k] == "(":
            e = _match_paren(txt, k)
            items.append(txt[k:e + 1])
            k = e + 1
        else:
            k += 1
    return items


def formulations(txt):
    """SMT2 text with define-funs-rec -> {'abs': uninterpreted, 'pat': pattern axioms, 'rec': as is}.
    'abs' and 'pat' have fewer / equivalent hypotheses: unsat there is sound; sat counts only for
    'rec'/'pat' (complete definitions)."""
    out = {"rec": txt}
    i = txt.find("(define-funs-rec")
    if i < 0:
        return {"rec": txt}
    abs_txt, pat_txt = txt, txt
    while i >= 0:
        e = _match_paren(abs_txt, i)
        block = abs_txt[i:e + 1]
        inner = block[len("(define-funs-rec"):-1].strip()
        sigs_txt, bodies_txt = _top_items(inner)
        sigs = _top_items(sigs_txt[1:-1])
        bodies = _top_items(bodies_txt[1:-1])
        if len(bodies) != len(sigs):  # bodies that are atoms: fall back
            return {"rec": txt}
        decls, axs = [], []
        for sg, body in zip(sigs, bodies):
            sg_in = sg[1:-1].strip()
            name = sg_in.split()[0]
            rest = sg_in[len(name):].strip()
            pe = _match_paren(rest, 0)
            params = _top_items(rest[1:pe])
            ret = rest[pe + 1:].strip()
            sorts = " ".join(pp[1:-1].split(None, 1)[1] for pp in params)
            names = " ".join(pp[1:-1].split()[0] for pp in params)
            decls.append("(declare-fun %s (%s) %s)" % (name, sorts, ret))
            recursive = _re.search(r"[( ]%s[ )]" % _re.escape(name), body) is not None
            if not recursive:
                axs.append("(assert (forall (%s) (! (= (%s %s) %s) :pattern ((%s %s)))))" % (
                    " ".join(params), name, names, body, name, names))
        abs_txt = abs_txt[:i] + "\n".join(decls) + abs_txt[e + 1:]
        j = pat_txt.find("(define-funs-rec")
        e2 = _match_paren(pat_txt, j)
        pat_txt = pat_txt[:j] + "\n".join(decls + axs) + pat_txt[e2 + 1:]
        i = abs_txt.find("(define-funs-rec")
    out["abs"] = abs_txt
    if "define-funs-rec" not in pat_txt:
        out["pat"] = pat_txt
    return out


def split_goal(hyps, goal, depth=0):
    """Skolemise-and-split (DESIGN 2.3): returns [(hyps, goal)] whose conjunction implies the goal.
    - forall x. g      -> g[x := fresh]
    - g1 and g2        -> one sub-goal each
    - a => g, (not a) or g  -> a moved to the hypotheses
    Sound: each step is an equivalence-preserving rewriting of `hyps |- goal`."""
    if isinstance(goal, bool):
        goal = z3.BoolVal(goal)
    if depth > 12:
        return [(hyps, goal)]
    if z3.is_quantifier(goal) and goal.is_forall():
        n = goal.num_vars()
        consts = [fresh("sk_" + goal.var_name(i), goal.var_sort(i)) for i in range(n)]
        body = z3.substitute_vars(goal.body(), *reversed(consts))
        return split_goal(hyps, body, depth + 1)
    if z3.is_and(goal):
        out = []
        for g in goal.children():
            out.extend(split_goal(hyps, g, depth + 1))
        return out
    if z3.is_implies(goal):
        a, b = goal.children()
        return split_goal(list(hyps) + [a], b, depth + 1)
    if z3.is_or(goal):
        ch = goal.children()
        qi = [i for i, c in enumerate(ch) if _has_quant(c) or z3.is_and(c)]
        if qi:
            k = qi[-1]
            rest = [z3.Not(c) for i, c in enumerate(ch) if i != k]
            return split_goal(list(hyps) + rest, ch[k], depth + 1)
    if z3.is_not(goal):
        (c,) = goal.children()
        if z3.is_quantifier(c) and not c.is_forall():  # not exists == forall not
            n = c.num_vars()
            consts = [fresh("sk_" + c.var_name(i), c.var_sort(i)) for i in range(n)]
            body = z3.substitute_vars(c.body(), *reversed(consts))
            return split_goal(hyps, z3.Not(body), depth + 1)
        if z3.is_or(c):
            out = []
            for g in c.children():
                out.extend(split_goal(hyps, z3.Not(g), depth + 1))
            return out
    return [(hyps, goal)]


def quick_check(hyps, extra=None, rlimit=150000):
    """Deterministic (rlimit) feasibility check used while forking. Returns 'sat'/'unsat'/'unknown'.
    Only the quantifier-free hypotheses in the relevance cone of `extra` are used: an unsat subset
    makes the whole path condition unsat, so pruning on it is sound."""
    hs = [h for h in hyps if not _has_quant(h)]
    if extra is not None:
        # stage 1: hypotheses sharing a boolean atom with the condition (propositional core)
        at = _atoms(extra)
        core = [h for h in hs if _atoms(h) & at]
        if core:
            s1 = z3.Solver()
            s1.set("rlimit", 50000)
            for h in core:
                s1.add(h)
            s1.add(extra)
            if s1.check() == z3.unsat:
                return "unsat"
    s = z3.Solver()
    s.set("rlimit", rlimit)
    if extra is not None:
        hs = slice_hyps(hs, extra, 3, True)
    for h in hs:
        s.add(h)
    if extra is not None:
        s.add(extra)
    r = s.check()
    return str(r)


_atom_cache = {}


def _atoms(t):
    k = t.get_id()
    if k in _atom_cache:
        return _atom_cache[k]
    out = set()
    stack = [t]
    while stack:
        x = stack.pop()
        if z3.is_quantifier(x):
            continue
        if z3.is_app(x) and (z3.is_and(x) or z3.is_or(x) or z3.is_not(x) or z3.is_implies(x)):
            stack.extend(x.children())
        elif z3.is_app(x) and x.decl().kind() == z3.Z3_OP_ITE and z3.is_bool(x):
            stack.extend(x.children())
        elif z3.is_bool(x):
            out.add(x.get_id())
    _keep_alive.append(t)
    _atom_cache[k] = frozenset(out)
    return _atom_cache[k]


_quant_cache = {}


def _has_quant(t):
    k = t.get_id()
    if k in _quant_cache:
        return _quant_cache[k]
    r = False
    if z3.is_quantifier(t):
        r = True
    elif z3.is_app(t):
        for c in t.children():
            if _has_quant(c):
                r = True
                break
    _keep_alive.append(t)
    _quant_cache[k] = r
    return r


def run_solver_file(path, solver, timeout_s):
    """Returns (verdict, seconds, raw_output).  The budget is CPU time of the solver process (RLIMIT_CPU, whole seconds, rounded up), not wall-clock
    time: a query that needs one second of work gets it whether or not the other cores are busy, so a verdict does not depend on the load of the
    machine.  The solvers' own wall-clock limits are set to four times the budget (+5 s) as a backstop only."""
    t0 = time.time()
    cpu_s = max(1, int(-(-timeout_s // 1)))
    wall_s = 4 * cpu_s + 5
    if solver == "z3":
        cmd = [Z3_NEW, "-T:%d" % wall_s, path]
    elif solver == "z3-old":
        cmd = ["/usr/bin/z3", "-T:%d" % wall_s, path]
    elif solver == "cvc5":
        cmd = [CVC5, "--strings-exp", "--tlimit=%d" % (wall_s * 1000), path]
    elif solver == "cvc5-fmf":
        cmd = [CVC5, "--strings-exp", "--strings-fmf", "--produce-models", "--tlimit=%d" % (wall_s * 1000), path]
    else:
        raise ValueError(solver)
    cmd = ["/bin/sh", "-c", 'ulimit -t %d; exec "$@"' % cpu_s, "sh"] + cmd
    try:
        p = subprocess.run(cmd, capture_output=True, text=True, timeout=wall_s + 5)
        out = (p.stdout or "") + (p.stderr or "")
    except subprocess.TimeoutExpired:
        return "unknown", time.time() - t0, "timeout(kill)"
    first = out.strip().splitlines()[0].strip() if out.strip() else ""
    if first in ("sat", "unsat", "unknown"):
        return first, time.time() - t0, out[:2000]
    if p.returncode in (-9, -24, 137, 152):  # SIGKILL / SIGXCPU: the CPU-time limit
        return "unknown", time.time() - t0, "cpu limit %d s" % cpu_s
    if "timeout" in out or "interrupted" in out:
        return "unknown", time.time() - t0, out[:500]
    return "error", time.time() - t0, out[:2000]


def sha(text):
    return hashlib.sha256(text.encode()).hexdigest()


def literal_prefix(t):
    """the leading string literal of a term `"lit" ++ rest` (or of a literal), else None: what is known of a symbolic string's text up to there"""
    try:
        if z3.is_string_value(t):
            return t.as_string()
        if z3.is_app(t) and t.decl().kind() == z3.Z3_OP_SEQ_CONCAT and t.num_args() >= 1 and z3.is_string_value(t.arg(0)):
            return t.arg(0).as_string()
    except Exception:  # noqa
        return None
    return None


def split_literal_prefix(t):
    """-> (literal prefix text, list of the remaining concat arguments) of a term `"lit" ++ a ++ b ...`, or None"""
    try:
        if z3.is_string_value(t):
            return t.as_string(), []
        if z3.is_app(t) and t.decl().kind() == z3.Z3_OP_SEQ_CONCAT and t.num_args() >= 1 and z3.is_string_value(t.arg(0)):
            return t.arg(0).as_string(), [t.arg(i) for i in range(1, t.num_args())]
    except Exception:  # noqa
        return None
    return None
