"""
SMT-side definitions shared by the symbolic executor and by contracts: sorts, Python string
operations as z3 terms, regexes for CPython's numeric grammars, the solver portfolio.

Every definition here is an *encoding of CPython semantics* and is cross-checked against CPython on
every run (vf/pyvc/crosscheck.py).
"""
import hashlib
import os
import subprocess
import tempfile
import time

import z3

S = z3.StringSort()
I = z3.IntSort()
B = z3.BoolSort()
Obj = z3.DeclareSort("Obj")

_ctr = [0]


def fresh(prefix, sort):
    _ctr[0] += 1
    return z3.Const("%s!%d" % (prefix, _ctr[0]), sort)


def reset_names():
    _ctr[0] = 0


# ---------------------------------------------------------------------------------------------
# Python slicing / indexing
# ---------------------------------------------------------------------------------------------
def _clampidx(i, n):
    return z3.If(i < 0, z3.If(i + n < 0, z3.IntVal(0), i + n), z3.If(i > n, n, i))


_s, _lo, _hi = z3.String("s!"), z3.Int("lo!"), z3.Int("hi!")
pyslice = z3.RecFunction("pyslice", S, I, I, S)
z3.RecAddDefinition(
    pyslice,
    [_s, _lo, _hi],
    z3.SubString(
        _s,
        _clampidx(_lo, z3.Length(_s)),
        z3.If(
            _clampidx(_hi, z3.Length(_s)) - _clampidx(_lo, z3.Length(_s)) > 0,
            _clampidx(_hi, z3.Length(_s)) - _clampidx(_lo, z3.Length(_s)),
            z3.IntVal(0),
        ),
    ),
)


def slice_term(s, lo, hi):
    """s[lo:hi] with Python clamping; lo/hi None = omitted."""
    n = z3.Length(s)
    lo_t = z3.IntVal(0) if lo is None else lo
    hi_t = n if hi is None else hi
    return pyslice(s, lo_t, hi_t)


def index_norm(i, n):
    """normalised index for s[i] (no clamping); the caller emits the 0<=idx<n obligation."""
    return z3.If(i < 0, i + n, i)


def char_at(s, i):
    return z3.SubString(s, i, 1)


# ---------------------------------------------------------------------------------------------
# regexes
# ---------------------------------------------------------------------------------------------
def re_chars(chars):
    chars = sorted(set(chars))
    if not chars:
        return z3.Empty(z3.ReSort(S))
    rs = [z3.Re(z3.StringVal(c)) for c in chars]
    return rs[0] if len(rs) == 1 else z3.Union(*rs)


def re_star_chars(chars):
    return z3.Star(re_chars(chars))


DIGIT = z3.Range("0", "9")
DIGITS1 = z3.Plus(DIGIT)
PY_WS = " \t\n\r\x0b\x0c"
WS = re_star_chars(PY_WS + "\x1c\x1d\x1e\x1f\x85\xa0")  # str.strip() whitespace within Latin-1
SIGN = z3.Option(re_chars("+-"))
DGROUP = z3.Concat(DIGIT, z3.Star(z3.Concat(z3.Option(z3.Re("_")), DIGIT)))  # d(_?d)*


def _ci(word):
    """case-insensitive literal"""
    parts = [re_chars(c.lower() + c.upper()) for c in word]
    return parts[0] if len(parts) == 1 else z3.Concat(*parts)


# text accepted by int(str) (base 10)
RE_PY_INT = z3.Concat(WS, SIGN, DGROUP, WS)
_EXP = z3.Option(z3.Concat(re_chars("eE"), SIGN, DGROUP))
_FLOATNUM = z3.Union(
    z3.Concat(DGROUP, z3.Option(z3.Re(".")), z3.Option(DGROUP), _EXP),  # 1  1.  1.5  1e3
    z3.Concat(z3.Re("."), DGROUP, _EXP),  # .5
)
RE_PY_FLOAT = z3.Concat(
    WS, SIGN, z3.Union(_FLOATNUM, _ci("inf"), _ci("infinity"), _ci("nan")), WS
)
RE_DECIMAL = DIGITS1  # str.isdecimal / isdigit under the ASCII assumption
RE_SIGNED_INT = z3.Concat(z3.Option(z3.Re("-")), DIGITS1)  # repr of an int


# ---------------------------------------------------------------------------------------------
# uninterpreted library functions (assumed pure, deterministic)
# ---------------------------------------------------------------------------------------------
casefold = z3.Function("casefold", S, S)
py_int_of = z3.Function("py_int_of", S, I)  # value of int(s) for texts outside the digit-only classes
_AX = {}


def axioms():
    """Background axioms; added to every query that mentions the symbol."""
    if not _AX:
        x = z3.String("ax!x")
        _AX["casefold"] = z3.ForAll(
            [x], z3.Length(casefold(x)) == z3.Length(x), patterns=[casefold(x)]
        )
    return _AX


def int_of_str(s):
    """value of int(s) where it is defined by digits; otherwise uninterpreted"""
    return z3.If(
        z3.InRe(s, DIGITS1),
        z3.StrToInt(s),
        z3.If(
            z3.InRe(s, z3.Concat(z3.Re("-"), DIGITS1)),
            -z3.StrToInt(z3.SubString(s, 1, z3.Length(s) - 1)),
            z3.If(
                z3.InRe(s, z3.Concat(z3.Re("+"), DIGITS1)),
                z3.StrToInt(z3.SubString(s, 1, z3.Length(s) - 1)),
                py_int_of(s),
            ),
        ),
    )


def str_of_int(i):
    return z3.If(i >= 0, z3.IntToStr(i), z3.Concat(z3.StringVal("-"), z3.IntToStr(-i)))


# ---------------------------------------------------------------------------------------------
# solving
# ---------------------------------------------------------------------------------------------
Z3_NEW = "/usr/local/bin/z3-new"
CVC5 = "/usr/bin/cvc5"


def uses(term_list, name):
    seen = set()
    stack = list(term_list)
    while stack:
        t = stack.pop()
        if t.get_id() in seen:
            continue
        seen.add(t.get_id())
        if z3.is_app(t):
            if t.decl().name() == name:
                return True
            stack.extend(t.children())
        elif z3.is_quantifier(t):
            stack.append(t.body())
    return False


def to_smt2(hyps, neg_goal, extra_axioms=()):
    s = z3.Solver()
    ax = axioms()
    terms = list(hyps) + [neg_goal]
    for name, a in ax.items():
        if uses(terms, name):
            s.add(a)
    for a in extra_axioms:
        s.add(a)
    for h in hyps:
        s.add(h)
    s.add(neg_goal)
    txt = s.to_smt2()
    return "(set-logic ALL)\n" + txt


def quick_check(hyps, extra=None, rlimit=400000):
    """Deterministic (rlimit) feasibility check used while forking. Returns 'sat'/'unsat'/'unknown'."""
    s = z3.Solver()
    s.set("rlimit", rlimit)
    for h in hyps:
        if not (z3.is_quantifier(h) or _has_quant(h)):
            s.add(h)
    if extra is not None:
        s.add(extra)
    r = s.check()
    return str(r)


_quant_cache = {}


def _has_quant(t):
    k = t.get_id()
    if k in _quant_cache:
        return _quant_cache[k]
    r = False
    if z3.is_quantifier(t):
        r = True
    elif z3.is_app(t):
        for c in t.children():
            if _has_quant(c):
                r = True
                break
    _quant_cache[k] = r
    return r


def run_solver_file(path, solver, timeout_s):
    """Returns (verdict, seconds, raw_output)."""
    t0 = time.time()
    if solver == "z3":
        cmd = [Z3_NEW, "-T:%d" % max(1, int(timeout_s)), path]
    elif solver == "z3-old":
        cmd = ["/usr/bin/z3", "-T:%d" % max(1, int(timeout_s)), path]
    elif solver == "cvc5":
        cmd = [CVC5, "--strings-exp", "--tlimit=%d" % int(timeout_s * 1000), path]
    elif solver == "cvc5-fmf":
        cmd = [CVC5, "--strings-exp", "--strings-fmf", "--produce-models",
               "--tlimit=%d" % int(timeout_s * 1000), path]
    else:
        raise ValueError(solver)
    try:
        p = subprocess.run(cmd, capture_output=True, text=True, timeout=timeout_s + 5)
        out = (p.stdout or "") + (p.stderr or "")
    except subprocess.TimeoutExpired:
        return "unknown", time.time() - t0, "timeout(kill)"
    first = out.strip().splitlines()[0].strip() if out.strip() else ""
    if first in ("sat", "unsat", "unknown"):
        return first, time.time() - t0, out[:2000]
    if "timeout" in out or "interrupted" in out:
        return "unknown", time.time() - t0, out[:500]
    return "error", time.time() - t0, out[:2000]


def sha(text):
    return hashlib.sha256(text.encode()).hexdigest()
