"""Structural view of symbolic strings with a literal skeleton:  "  x (" ++ T ++ "): " ++ D.
Everything here is exact (no new assumption): a result is returned only when it follows from the shape of the term (and, where stated, from a fact the
path condition entails); otherwise None, and the caller falls back to the general string model."""
import z3


def parts(t):
    """flatten a z3 string term into [("lit", text) | ("sym", term)] (adjacent literals merged)"""
    out = []

    def walk(x):
        if z3.is_string_value(x):
            if x.as_string() != "":
                out.append(("lit", x.as_string()))
        elif z3.is_app(x) and x.decl().kind() == z3.Z3_OP_SEQ_CONCAT:
            for i in range(x.num_args()):
                walk(x.arg(i))
        else:
            out.append(("sym", x))

    walk(t)
    merged = []
    for k, v in out:
        if k == "lit" and merged and merged[-1][0] == "lit":
            merged[-1] = ("lit", merged[-1][1] + v)
        else:
            merged.append((k, v))
    return merged


def build(ps):
    """parts -> python str (all literal) or z3 term"""
    ps = [p for p in ps if not (p[0] == "lit" and p[1] == "")]
    if not ps:
        return ""
    if all(k == "lit" for k, _ in ps):
        return "".join(v for _, v in ps)
    terms = [z3.StringVal(v) if k == "lit" else v for k, v in ps]
    return terms[0] if len(terms) == 1 else z3.Concat(*terms)


def _base(ps, i):
    """offset of the start of part i as (constant, [sym terms whose lengths are added])"""
    c, syms = 0, []
    for k, v in ps[:i]:
        if k == "lit":
            c += len(v)
        else:
            syms.append(v)
    return c, syms


def offset_term(ps, i, k):
    c, syms = _base(ps, i)
    t = z3.IntVal(c + k)
    for sy in syms:
        t = t + z3.Length(sy)
    return t if syms else (c + k)


def locate(ps, bound):
    """position (i, k) of a slice bound inside the parts: offset == start(part i) + k with 0 <= k <= len(literal i) (k == 0 for a symbolic part).
    bound: None handled by the caller; a python int >= 0 (must fall into the leading literal run), a python int < 0 (into the trailing literal run),
    or a z3 Int term that is syntactically start(part i) + k."""
    if isinstance(bound, bool):
        bound = int(bound)
    if isinstance(bound, int):
        if bound >= 0:
            acc = 0
            for i, (k, v) in enumerate(ps):
                if k != "lit":
                    return (i, 0) if bound == acc else None
                if bound <= acc + len(v):
                    return (i, bound - acc)
                acc += len(v)
            return (len(ps), 0) if bound >= acc else None
        need = -bound
        acc = 0
        for i in range(len(ps) - 1, -1, -1):
            k, v = ps[i]
            if k != "lit":
                return (i + 1, 0) if need == acc else None
            if need <= acc + len(v):
                return (i, len(v) - (need - acc))
            acc += len(v)
        return (0, 0)  # further back than the whole (all-literal) text
    for i in range(len(ps) + 1):
        lim = len(ps[i][1]) if i < len(ps) and ps[i][0] == "lit" else 0
        for k in range(lim + 1):
            cand = offset_term(ps, i, k)
            d = z3.simplify(bound - cand)
            if z3.is_int_value(d) and d.as_long() == 0:
                return (i, k)
    return None


def slice_parts(ps, lo, hi):
    """ps[lo:hi] for located bounds ((i, k) or None) -> parts"""
    a = (0, 0) if lo is None else lo
    b = (len(ps), 0) if hi is None else hi
    if a > b:
        return []  # positions are ordered like their offsets (a symbolic part has length >= 0): lo at or after hi is the empty slice
    out = []
    for i in range(a[0], min(b[0] + 1, len(ps))):
        k, v = ps[i]
        if k == "lit":
            s = a[1] if i == a[0] else 0
            e = b[1] if i == b[0] else len(v)
            out.append(("lit", v[s:e]))
        else:
            if i == b[0]:
                continue  # the slice ends at the start of this symbolic part
            out.append((k, v))
    return out


def first_index(ps, ch, absent):
    """offset of the first occurrence of the one-character text `ch`: literal parts are searched, a symbolic part is skipped only when absent(sym) says the path
    condition entails that ch does not occur in it.  -> ("at", i, k) | ("none",) | None (undecidable structurally)"""
    for i, (k, v) in enumerate(ps):
        if k == "lit":
            j = v.find(ch)
            if j >= 0:
                return ("at", i, j)
        elif not absent(v):
            return None
    return ("none",)


def lstrip_parts(ps, chars):
    """-> (parts, exact): leading literal characters in `chars` removed; exact iff the first remaining character is a literal one that is kept (or nothing remains)"""
    ps = list(ps)
    while ps and ps[0][0] == "lit":
        v = ps[0][1].lstrip(chars)
        if v:
            ps[0] = ("lit", v)
            return ps, True
        ps.pop(0)
    return ps, not ps


def rstrip_parts(ps, chars):
    ps = list(ps)
    while ps and ps[-1][0] == "lit":
        v = ps[-1][1].rstrip(chars)
        if v:
            ps[-1] = ("lit", v)
            return ps, True
        ps.pop()
    return ps, not ps


def literal_suffix(ps):
    return ps[-1][1] if ps and ps[-1][0] == "lit" else ""


def literal_prefix(ps):
    return ps[0][1] if ps and ps[0][0] == "lit" else ""
