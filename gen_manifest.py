#!/usr/bin/env python3
"""Developer tool: writes MANIFEST.json from vf/props/registry.py (kept in git; not used by any check)."""
import json, os, sys
sys.path.insert(0, os.path.dirname(os.path.abspath(__file__)))
from vf.props import registry

BASE = "cd /repo && /venv/bin/python -m pytest -ra -q -p no:cacheprovider --timeout=900 --continue-on-collection-errors"
m = {
    "version": 1,
    "setup_cmd": "./bootstrap.sh",
    "hooks": {
        "guard": "DOCTRANS_VERIF",
        "enable": "none needed: contracts are sidecar files under /verif/vf/contracts, the verifier reads /repo's working tree; /repo carries no hooks, only 'fix:' commits",
        "baseline_off_cmd": BASE,
        "source_commits": [],
        "add_only": True,
    },
    "engines": [
        {"name": "pyvc", "path": "vf/pyvc", "serves_properties": sorted(registry.CHECKS),
         "kind_free_text": "self-written deductive verifier for a Python subset: symbolic execution of the real source (ast re-read from /repo every run) against sidecar contracts, VCs discharged by z3 5.1 / z3 4.8.12 / cvc5 1.0.3"},
        {"name": "bounded companion", "path": "vf/bounded", "serves_properties": sorted(registry.CHECKS),
         "kind_free_text": "the same contracts (and whole-conversion contracts outside the verifier's reach) evaluated by CPython on the real functions over an enumerated domain with a stated bound; never counted as proved"},
    ],
    "checks": [],
    "not_applicable": [],
    "notes": "See DESIGN.md. Exit codes: 0 held (KNOWN-FINDING lines possible), 1 VIOLATION, 3 checker fault.",
}
for pid in sorted(registry.CHECKS):
    c = registry.CHECKS[pid]
    keys = registry.keys_of(pid)
    under = " Functions under sidecar contract in this check (all obligations regenerated from /repo on every run): %s." % ", ".join(
        k.replace("doctrans.", "").replace(":", ".") for k in keys) if keys else ""
    c = dict(c, text=c["text"] + under)
    m["checks"].append({
        "property_id": pid,
        "quick_cmd": "./check %s --tier quick" % pid,
        "thorough_cmd": "./check %s --tier thorough" % pid,
        "evidence_file": "/verif/evidence/%s.json" % pid,
        "replay_cmd_template": "./check %s --replay {path}" % pid,
        "engine": "pyvc + bounded companion",
        "level_claimed": {"category": c["level"], "text": c["text"], "design_ref": c["design_ref"]},
        "level_note": c["note"],
        "technique": c["technique"],
    })
for pid, reason in sorted(registry.NOT_APPLICABLE.items()):
    m["not_applicable"].append({"property_id": pid, "reason": reason})
json.dump(m, open(os.path.join(os.path.dirname(os.path.abspath(__file__)), "MANIFEST.json"), "w"), indent=1)
print("MANIFEST.json:", len(m["checks"]), "checks,", len(m["not_applicable"]), "not applicable")
